'''
C09 -- Launch commands enact the placement they were given.

Engine C (DESIGN.md 3.3, 4/C09, A.10): complete enumeration of a bounded
alphabet of placements and launcher configurations; the REAL launch method
objects produce the command (and host / rank / node / resource-set files),
an independent *reader* of the documented command line syntax says which
processes the command starts where, and that is compared with the placement.

Harness
-------
* every launcher is created through the real factory `LaunchMethod.create()`
  -> real `__init__` -> real `init_from_info(lm_info)`; `lm_info` is what
  `init_from_scratch` would have stored in the registry for the flavour
  (the registry is the in-memory one of `rpmc.net`, nothing is executed);
* tasks are what the executor receives: a verified `TaskDescription`, `Slot`s
  (new structure, one per rank) or resource sets (old structure, what
  `ContinuousJsrun` hands to JSRUN), copied through msgpack;
* `get_launch_cmds(task, exec_path)` writes its files into a sandbox below the
  scratch directory; cwd and environment are restored after each job;
* `ResourceManager.find_launcher` runs on a bare resource manager whose real
  `_prepare_launch_methods()` created the launchers of every `order` found in
  the shipped resource configs.

Oracle (clauses)
----------------
  process-count    processes started == ranks of the task
  nodes-alien      a node is named which is not in the placement
  nodes-omitted    a node of the placement is not named / not targeted
  per-node-count   processes per node differ (only where the syntax says)
  pinned-cores     cores a rank is bound to != cores of its slot (rank file,
                   PALS --cpu-bind list, ERF, dplace -c)
  pinned-gpus      GPUs of a resource set != GPUs of the slot (ERF)
  cores-per-rank   -d / PE= / --cpus-per-task / -c differ from the slot size
  gpus-per-rank    --gpus-per-task / -g differ from the slot's GPU count
  partition        prun talks to a DVM which does not hold the nodes
  history-dependence
                   command or files for P after other tasks != for P on a
                   fresh launcher
  rank-ids         the rank ids bound by an ERF file are not 0..n-1, each once
  well-formed      the command (or a file it names) cannot be read at all
  first-accepting  find_launcher returns something else than the first
                   launcher (in configured order) whose can_launch accepts

A refusal (`can_launch` False or `get_launch_cmds` raises) is an outcome.
For every configured order the launcher which find_launcher returns also
generates the command for the task *as that configuration presents it*
(resource sets of ContinuousJsrun if JSRUN is among the launch methods); what
fails there but not for the method on its own is reported with the order in
the trigger.

Host names: for FORK / SSH / RSH (alone, and through find_launcher of every
shipped order which starts or ends with one of them) the agent's own host
name (`ru.get_hostname()`, an environment answer) is taken from every position
of name sets in which one name is a proper prefix of another (node1 / node10 /
node12, nid0001 / nid00012) and tasks are placed on every name of the set: a
launcher which runs the task where the agent is must refuse a task placed on
another node.  Fully qualified vs. short name of one host
(node1.cluster.org / node1) is an outcome: either answer is accepted.

Keys: clause | <Class>.get_launch_cmds | <METHOD{flavours}>/<trigger>, where
the trigger is the smallest conjunction of placement attributes (`features`)
which all failing placements of the variant share and no passing one has;
variants failing the same clause at the same site with the same trigger share
one key.

Trusted base: the readers (launcher CLI semantics from the comments in the
code and the tools' documentation); see `Reader`.
'''

import os
import re
import copy
import glob
import json
import shlex
import pickle
import shutil
import itertools
import collections

from rpmc import seams, net, report

rp = seams.import_rp()

import radical.utils as ru                                         # noqa: E402
import radical.pilot.agent as rpa                                  # noqa: E402

from radical.pilot.agent.resource_manager.base import RMInfo           # noqa
from radical.pilot.agent.resource_manager.base import ResourceManager  # noqa
from radical.pilot.resource_config             import Slot, RO         # noqa


# ------------------------------------------------------------------------------
# the pilot
#
CPN = 16                # cores per node
GPN = 8                 # gpus  per node

SMALL_NODES = [('localhost', 1), ('nodeb', 2), ('nodec', 3), ('noded', 4)]
BIG_NODES   = [('m%03d' % i, 4 + i) for i in range(1, 44)]
ALL_NODES   = SMALL_NODES + BIG_NODES
NODE_NAME   = {idx: name for name, idx in ALL_NODES}
NODE_POS    = {name: pos for pos, (name, idx) in enumerate(ALL_NODES)}

# node name sets in which one name is a proper prefix of another, and a fully
# qualified name next to its short form (host name pass)
NAME_SETS   = [['node1', 'node10', 'node12'],
               ['nid0001', 'nid00012'],
               ['node1.cluster.org', 'node1', 'node10']]
EXTRA_INDEX = {name: 101 + i for i, name in enumerate(
               sorted(set(n for ns in NAME_SETS for n in ns)))}


def node_index(name):
    if name in NODE_POS:
        return ALL_NODES[NODE_POS[name]][1]
    return EXTRA_INDEX[name]


UID  = 'task.000000'
EXE  = '/opt/app/bin/app.exe'


def make_rm_info(v):
    rmv = v.get('rm', {})
    return RMInfo({
        'requested_nodes'  : len(ALL_NODES),
        'requested_cores'  : len(ALL_NODES) * CPN,
        'requested_gpus'   : rmv.get('requested_gpus', len(ALL_NODES) * GPN),
        'cores_per_node'   : CPN,
        'gpus_per_node'    : GPN,
        'threads_per_core' : rmv.get('tpc', 1),
        'lfs_per_node'     : 0,
        'mem_per_node'     : 0,
        'node_list'        : [{'name' : name, 'index': idx,
                               'cores': [0] * CPN, 'gpus': [0] * GPN,
                               'lfs'  : 0, 'mem': 0}
                              for name, idx in ALL_NODES],
        'agent_node_list'  : [],
        'service_node_list': [],
        'details'          : {'exact'        : rmv.get('exact', False),
                              'oversubscribe': rmv.get('oversubscribe', False),
                              'n_partitions' : 1,
                              'network'      : None},
        'launch_methods'   : {}})


# ------------------------------------------------------------------------------
# launcher variants: (name, tag) -> lm_info as init_from_scratch stores it
#
def _base(name):
    return {'env': {'PATH': '/usr/bin'}, 'env_sh': 'env/lm_%s.sh' % name.lower()}


def _mpirun_info(name, flavour, omplace=False):
    low  = name.lower()
    info = _base(name)
    info.update({'command'    : '/opt/mpi/bin/mpirun',
                 'mpt'        : '_mpt' in low or omplace,
                 'rsh'        : '_rsh' in low,
                 'ccmrun'     : '/opt/cray/bin/ccmrun' if '_ccmrun' in low
                                else '',
                 'dplace'     : '/usr/bin/dplace' if '_dplace' in low else '',
                 'omplace'    : '/usr/bin/omplace' if omplace else '',
                 'mpi_version': '4.1.1',
                 'mpi_flavor' : flavour})
    return info


def _mpiexec_info(name, flavour, mode, can_os=False, omplace=False):
    low  = name.lower()
    info = _base(name)
    info.update({'command'    : '/opt/mpi/bin/mpiexec',
                 'mpt'        : '_mpt' in low or omplace,
                 'rsh'        : False,
                 'use_rf'     : mode == 'rf',
                 'use_hf'     : mode == 'hf',
                 'can_os'     : can_os,
                 'ccmrun'     : '',
                 'dplace'     : '',
                 'omplace'    : 'omplace' if omplace else '',
                 'mpi_version': '4.1.1',
                 'mpi_flavor' : flavour})
    return info


def gen_variants():

    V = list()

    def add(name, tag, info, reader, **kw):
        V.append(dict(name=name, tag=tag, id='%s{%s}' % (name, tag),
                      lm_info=info, reader=reader, **kw))

    add('FORK', '-', _base('FORK'), 'fork')

    add('SSH', 'ssh', dict(_base('SSH'), command='/usr/bin/ssh -o '
        'StrictHostKeyChecking=no -o ControlMaster=auto'), 'ssh')
    add('SSH', 'rsh-link', dict(_base('SSH'), command='/usr/bin/rsh'), 'ssh')
    add('RSH', '-', dict(_base('RSH'), command='/usr/bin/rsh'), 'ssh')

    for flavour in ('OMPI', 'HYDRA', 'SPECTRUM', 'PALS', 'unknown'):
        add('MPIRUN', flavour, _mpirun_info('MPIRUN', flavour), 'mpirun')
    add('MPIRUN', 'cheyenne', _mpirun_info('MPIRUN', 'unknown', omplace=True),
        'mpirun')
    for name in ('MPIRUN_MPT', 'MPIRUN_CCMRUN', 'MPIRUN_RSH', 'MPIRUN_DPLACE'):
        add(name, 'OMPI', _mpirun_info(name, 'OMPI'), 'mpirun')

    add('MPIEXEC', 'rankfile',  _mpiexec_info('MPIEXEC', 'OMPI',  'rf'),
        'mpiexec')
    add('MPIEXEC', 'rankfile+os', _mpiexec_info('MPIEXEC', 'OMPI', 'rf',
        can_os=True), 'mpiexec', rm={'oversubscribe': True})
    add('MPIEXEC', 'host:n',    _mpiexec_info('MPIEXEC', 'HYDRA', 'hf'),
        'mpiexec')
    for flavour in ('OMPI', 'SPECTRUM', 'unknown'):
        add('MPIEXEC', 'slots=/%s' % flavour,
            _mpiexec_info('MPIEXEC', flavour, ''), 'mpiexec')
    add('MPIEXEC', 'slots=/OMPI+os', _mpiexec_info('MPIEXEC', 'OMPI', '',
        can_os=True), 'mpiexec', rm={'oversubscribe': True})
    add('MPIEXEC', 'PALS', _mpiexec_info('MPIEXEC', 'PALS', ''), 'mpiexec')
    add('MPIEXEC_MPT', 'unknown', _mpiexec_info('MPIEXEC_MPT', 'unknown', '',
        omplace=True), 'mpiexec')

    for vmajor, version in ((18, '18.08.7'), (19, '19.05.5'), (23, '23.02.1')):
        for exact, traverse in ((False, False), (True, False), (False, True)):
            if vmajor == 19 and (exact or traverse):
                continue
            tag = 'v%d%s%s' % (vmajor, '+exact' if exact else '',
                               '+traverse' if traverse else '')
            add('SRUN', tag, dict(_base('SRUN'), command='/usr/bin/srun',
                                  version=version, vmajor=vmajor), 'srun',
                rm={'exact': exact},
                resource='princeton.traverse' if traverse else 'local.slurm')
    add('SRUN', 'v23+smt2', dict(_base('SRUN'), command='/usr/bin/srun',
                                 version='23.02.1', vmajor=23), 'srun',
        rm={'tpc': 2})
    add('SRUN', 'v23+nogpus', dict(_base('SRUN'), command='/usr/bin/srun',
                                   version='23.02.1', vmajor=23), 'srun',
        rm={'requested_gpus': 0})

    add('JSRUN', '-', dict(_base('JSRUN'), command='/opt/ibm/bin/jsrun',
                           erf=False), 'jsrun', slots='old')
    add('JSRUN', 'smt2', dict(_base('JSRUN'), command='/opt/ibm/bin/jsrun',
                              erf=False), 'jsrun', slots='old', rm={'tpc': 2})
    add('JSRUN_ERF', '-', dict(_base('JSRUN_ERF'),
                               command='/opt/ibm/bin/jsrun', erf=True),
        'jsrun', slots='old')

    def dvms(count):
        idxs  = [idx for name, idx in ALL_NODES]
        per   = -(-len(idxs) // count)
        return {i: {'nodes'  : idxs[i * per:(i + 1) * per],
                    'dvm_uri': 'prte-%d@n%d.0;tcp://10.0.0.%d:4711'
                               % (i, i, i + 1)}
                for i in range(count)}

    for count in (1, 3):
        add('PRTE', 'dvm=%d' % count,
            dict(_base('PRTE'), command='/opt/prrte/bin/prun',
                 details={'dvm_list': dvms(count), 'version_info': {}}),
            'prte', lm_cfg={'dvm_count': count})

    add('IBRUN', '-', dict(_base('IBRUN'), command='/usr/local/bin/ibrun'),
        'ibrun')
    add('IBRUN', 'tpn=16', dict(_base('IBRUN'),
                                command='/usr/local/bin/ibrun'), 'ibrun',
        lm_cfg={'options': {'tasks_per_node': CPN}})

    add('APRUN',  '-', dict(_base('APRUN'),  command='/opt/cray/bin/aprun'),
        'aprun')
    add('CCMRUN', '-', dict(_base('CCMRUN'), command='/opt/cray/bin/ccmrun'),
        'ccmrun')

    return V


VARIANTS = gen_variants()
VAR_BY_ID = {v['id']: v for v in VARIANTS}
TAGS_OF   = collections.defaultdict(list)
for _v in VARIANTS:
    TAGS_OF[_v['name']].append(_v['tag'])

LM_CLASS = {'FORK': 'Fork', 'SSH': 'SSH', 'RSH': 'RSH', 'MPIRUN': 'MPIRun',
            'MPIRUN_MPT': 'MPIRun', 'MPIRUN_CCMRUN': 'MPIRun',
            'MPIRUN_RSH': 'MPIRun', 'MPIRUN_DPLACE': 'MPIRun',
            'MPIEXEC': 'MPIExec', 'MPIEXEC_MPT': 'MPIExec', 'SRUN': 'Srun',
            'JSRUN': 'JSRUN', 'JSRUN_ERF': 'JSRUN', 'PRTE': 'PRTE',
            'IBRUN': 'IBRun', 'APRUN': 'APRun', 'CCMRUN': 'CCMRun'}


# ------------------------------------------------------------------------------
# placements
#
# A placement is {'ranks': [[node_name, [cores], [gpus]], ...], plus the
# attributes it was generated from}.  Rank i of the task runs in slot i.
#
PATTERNS = [(1,),
            (2,), (1, 1),
            (3,), (2, 1), (1, 2), (1, 1, 1),
            (4,), (3, 1), (1, 3), (2, 2), (2, 1, 1), (1, 2, 1), (1, 1, 2)]

NODE_SEQS = {1: [['localhost'], ['nodeb']],
             2: [['localhost', 'nodeb'], ['nodec', 'nodeb'],
                 ['nodeb', 'noded']],
             3: [['localhost', 'nodeb', 'nodec'],
                 ['nodec', 'localhost', 'nodeb']]}


def _cores(style, c, j, p):
    '''cores of the j-th rank on the node at position p'''
    if style == 'low':
        return [j * c + t for t in range(c)]
    if style == 'gaps':
        # 3 or 4 cores with holes: [0, 2, 4] / [1, 2, 4, 5] (+ 6 per rank)
        return [6 * j + t for t in ((0, 2, 4) if c == 3 else (1, 2, 4, 5))]
    if style == 'descending':
        # contiguous blocks; a node later in the node list holds lower cores
        return [(3 - p) * c + j * c + t for t in range(c)]
    # scattered: non-contiguous, differing between nodes, descending by rank
    return [13 - 3 * j - p, 15 - 3 * j - p][:c]


def _gpus(style, g, j, p):
    if style == 'low':
        return [j * g + t for t in range(g)]
    return [7 - 2 * j, 6 - 2 * j][:g] if g == 2 else [7 - j - (p % 2)][:g]


def make_placement(pattern, nodes, c, g, style, order='grouped'):
    ranks = list()
    for count, node in zip(pattern, nodes):
        p = NODE_POS[node]
        for j in range(count):
            ranks.append([node, _cores(style, c, j, p), _gpus(style, g, j, p)])
    if order == 'interleaved':
        # ranks alternate between the nodes (application supplied slots)
        by_node = collections.OrderedDict()
        for r in ranks:
            by_node.setdefault(r[0], list()).append(r)
        ranks = [r for tup in itertools.zip_longest(*by_node.values())
                   for r in tup if r is not None]
    return {'ranks': ranks, 'pattern': list(pattern), 'c': c, 'g': g,
            'style': style, 'order': order,
            'key': '%s@%s/c%d/g%d/%s/%s' % ('.'.join(str(x) for x in pattern),
                                           ','.join(nodes), c, g, style,
                                           order)}


def big_placement(kind, c=1, g=0):
    ranks = list()
    if kind == '43x43':                       # 43 ranks on 43 nodes
        for name, idx in BIG_NODES:
            ranks.append([name, list(range(c)), list(range(g))])
        pattern = [1] * 43
    elif kind == '43x2':                      # 43 ranks on 2 nodes
        # cores_per_node is 16: these are 43 single core ranks on two "fat"
        # nodes of the list -- the launchers never look at the node size
        for j in range(22):
            ranks.append(['m001', [j], []])
        for j in range(21):
            ranks.append(['m002', [j], []])
        pattern = [22, 21]
        c, g = 1, 0
    elif kind == '42x42':                     # just below the thresholds
        for name, idx in BIG_NODES[:42]:
            ranks.append([name, list(range(c)), list(range(g))])
        pattern = [1] * 42
    return {'ranks': ranks, 'pattern': pattern, 'c': c, 'g': g,
            'style': 'low', 'order': 'grouped', 'big': kind,
            'key': '%s/c%d/g%d' % (kind, c, g)}


def gen_placements():
    '''simplest first'''
    out = list()
    for pattern in PATTERNS:
        for nodes in NODE_SEQS[len(pattern)]:
            for c in (1, 2):
                for g in (0, 1, 2):
                    for style in ('low', 'scattered'):
                        out.append(make_placement(pattern, nodes, c, g, style))
    for pattern, nodes in (((2, 1), ['localhost', 'nodeb']),
                           ((2, 2), ['nodec', 'nodeb'])):
        for c, g, style in ((1, 0, 'low'), (2, 1, 'scattered')):
            out.append(make_placement(pattern, nodes, c, g, style,
                                      order='interleaved'))
    # ranks with 3 and 4 cores, contiguous and with holes
    for pattern, nodes in (((1,), ['localhost']), ((2,), ['nodeb']),
                           ((1, 1), ['localhost', 'nodeb']),
                           ((2, 1), ['nodec', 'nodeb'])):
        for c in (3, 4):
            for style in ('low', 'gaps'):
                out.append(make_placement(pattern, nodes, c, 0, style))
    # contiguous cores which start lower on every later node of the list
    for pattern, nodes in (((1, 1), ['localhost', 'nodeb']),
                           ((1, 1), ['nodec', 'nodeb']),
                           ((2, 1), ['nodeb', 'nodec']),
                           ((1, 1, 1), ['localhost', 'nodeb', 'nodec'])):
        for c in (1, 2):
            out.append(make_placement(pattern, nodes, c, 0, 'descending'))
    out.append(big_placement('42x42'))
    out.append(big_placement('43x43'))
    out.append(big_placement('43x43', c=2, g=1))
    out.append(big_placement('43x2'))
    out.sort(key=lambda pl: (len(pl['ranks']), len(set(r[0] for r in
             pl['ranks'])), pl['c'], pl['g'], pl['style'] != 'low',
             pl['order'] != 'grouped', pl['ranks'][0][0] != 'localhost'))
    return out


def features(pl):
    '''abstract attributes of a placement (for violation triggers)'''
    ranks  = pl['ranks']
    names  = [r[0] for r in ranks]
    counts = collections.OrderedDict()
    for n in names:
        counts[n] = counts.get(n, 0) + 1
    cvals  = list(counts.values())
    f = set()
    if len(ranks)  > 1                    : f.add('multi-rank')
    if len(counts) > 1                    : f.add('multi-node')
    if max(cvals)  > 1                    : f.add('ranks-share-node')
    if len(set(cvals)) > 1                : f.add('uneven-nodes')
    if any(v < max(cvals) for v in cvals[:-1]):
        f.add('non-last-node-below-max')
    if pl['c'] > 1                        : f.add('multi-core-rank')
    if pl['c'] > 2                        : f.add('>2-cores-per-rank')
    if any(sorted(r[1]) != list(range(min(r[1]), min(r[1]) + len(r[1])))
           for r in ranks)                : f.add('non-contiguous-cores')
    if any(r[1][0] != 0 for r in ranks[:1]): f.add('first-core-not-0')
    if len(set(tuple(r[1]) for r in ranks if r[0] != names[0])
           - set(tuple(r[1]) for r in ranks if r[0] == names[0])) > 0 \
       and len(counts) > 1                : f.add('cores-differ-per-node')
    if pl['g'] > 0                        : f.add('gpus')
    if names[0] != 'localhost'            : f.add('first-node-remote')
    if [NODE_POS[n] for n in counts] != sorted(NODE_POS[n] for n in counts):
        f.add('nodes-not-in-list-order')
    if pl['order'] != 'grouped'           : f.add('ranks-interleaved')
    if len(ranks) > 42                    : f.add('>42-ranks')
    if len(counts) > 42                   : f.add('>42-nodes')
    if pl.get('rs')                       : f.add(pl['rs'])
    if pl.get('rs') == 'rs-per-node' and len(set(cvals)) > 1:
        f.add('unequal-resource-sets')
    first = min(counts, key=lambda name: NODE_POS[name])
    c     = pl['c']
    if min(r[1][0] for r in ranks if r[0] == first) // c \
       >= max(1, CPN // (len(ranks) * c)):
        f.add('lowest-core-block>=cores_per_node/task-cores')
    if any(r[1][0] // c < min(x[1][0] for x in ranks if x[0] == first) // c
           for r in ranks if r[0] != first):
        f.add('lower-core-block-on-later-node')
    return f


FEATURE_ORDER = ['lower-core-block-on-later-node', 'multi-rank', 'multi-node', 'ranks-share-node',
                 'uneven-nodes', 'non-last-node-below-max', 'multi-core-rank',
                 'non-contiguous-cores', 'first-core-not-0',
                 'cores-differ-per-node', 'gpus', 'first-node-remote',
                 'nodes-not-in-list-order', 'ranks-interleaved', '>42-ranks',
                 '>42-nodes', 'shared-gpu', 'split-gpu',
                 'lowest-core-block>=cores_per_node/task-cores',
                 '>2-cores-per-rank', 'rs-per-node', 'unequal-resource-sets']


def minimal_trigger(failing, passing, clean=None):
    '''
    smallest conjunction of features which all failing cases have and no
    passing case has (greedy, deterministic); 'any' if every case fails.
    `passing`: cases which do not fail this clause; if those cannot be told
    apart (another clause fails for the same reason), `clean`: cases without
    any complaint.
    '''
    if not failing:
        return 'none'
    common = set.intersection(*[set(f) for f in failing])
    keep   = [f for f in FEATURE_ORDER if f in common]

    def separates(fs, ref):
        return not any(set(fs) <= p for p in ref)

    ref = passing
    if not separates(keep, ref) and clean is not None:
        ref = clean
    if not separates(keep, ref):
        # the common features do not explain it: name the simplest case
        first = [f for f in FEATURE_ORDER if f in failing[0]]
        return 'e.g.' + ('+'.join(first) or 'single-rank')
    for f in list(reversed(keep)):
        trial = [x for x in keep if x != f]
        if separates(trial, ref):
            keep = trial
    return '+'.join(keep) or 'any'


# ------------------------------------------------------------------------------
# tasks
#
_td_cache = dict()


def make_td(n, c, g, mpi=None, exe=EXE):
    key = (n, c, g, mpi, exe)
    if key not in _td_cache:
        td = rp.TaskDescription({'executable'    : exe or 'x',
                                 'arguments'     : ['-i', 'in put'],
                                 'ranks'         : n,
                                 'cores_per_rank': c,
                                 'gpus_per_rank' : g,
                                 'gpu_type'      : rp.CUDA if g else ''})
        if mpi is not None:
            td.use_mpi = mpi
        td.verify()
        d = td.as_dict()
        if not exe:
            d['executable'] = exe
        _td_cache[key] = d
    return copy.deepcopy(_td_cache[key])


def slots_new(pl):
    out = list()
    for name, cores, gpus in pl['ranks']:
        idx = node_index(name)
        out.append(Slot(cores=[RO(index=i, occupation=1.0) for i in cores],
                        gpus=[RO(index=i, occupation=1.0) for i in gpus],
                        lfs=0, mem=0, node_index=idx, node_name=name))
    return out


def slots_old(pl):
    '''
    resource sets as ContinuousJsrun._find_resources creates them: one per
    rank, or one per group of ranks which share GPUs (pl['rs'])
    '''
    out    = list()
    ranks  = pl['ranks']
    groups = list()
    if pl.get('rs') == 'rs-per-node':
        # one resource set per node, holding all ranks placed there
        for r in ranks:
            if groups and groups[-1][0][0] == r[0]: groups[-1].append(r)
            else                                  : groups.append([r])
    else:
        per    = 2 if pl.get('rs') else 1
        groups = [ranks[i:i + per] for i in range(0, len(ranks), per)]
    for grp in groups:
        name = grp[0][0]
        assert all(r[0] == name for r in grp)
        if pl.get('rs') == 'split-gpu':
            gmap = [list(r[2]) for r in grp]     # ranks of the RS differ
        else:
            gmap = [list(grp[0][2])] * len(grp)
        out.append({'node_name' : name,
                    'node_index': node_index(name),
                    'cores'     : [list(r[1]) for r in grp],
                    'gpus'      : gmap,
                    'lfs'       : 0,
                    'mem'       : 0})
    return out


def partition_of(v, pl):
    '''the partition (DVM) which holds the nodes of the placement, or None'''
    dvms = v['lm_info'].get('details', {}).get('dvm_list')
    if not dvms:
        return None
    idxs = set(node_index(r[0]) for r in pl['ranks'])
    for pid, dvm in dvms.items():
        if idxs <= set(dvm['nodes']):
            return pid
    return None


_task_cache = dict()      # per process; None disables (replay)


def make_task(v, pl, sbox, uid=UID, mpi=None, exe=EXE):
    '''the task as the executor receives it (a private copy per call)'''
    if _task_cache is None or 'key' not in pl:
        return _make_task(v, pl, sbox, uid, mpi, exe)
    key = (v.get('id'), v.get('slots'), pl['key'], sbox, uid, mpi, exe)
    if key not in _task_cache:
        _task_cache[key] = pickle.dumps(_make_task(v, pl, sbox, uid, mpi,
                                                   exe))
    return pickle.loads(_task_cache[key])


def _make_task(v, pl, sbox, uid, mpi, exe):
    n  = len(pl['ranks'])
    if   not pl.get('rs')             : gpr = float(pl['g'])
    elif pl['rs'] == 'rs-per-node'    : gpr = 0.5 if pl['g'] else 0.0
    else                              : gpr = 0.5
    td = make_td(n, pl['c'], gpr, mpi, exe)
    if v.get('slots') == 'old': slots = slots_old(pl)
    else                      : slots = [s.as_dict() for s in slots_new(pl)]
    task = {'uid'              : uid,
            'type'             : 'task',
            'description'      : td,
            'slots'            : slots,
            'partition'        : partition_of(v, pl),
            'task_sandbox'     : 'file://localhost' + sbox,
            'task_sandbox_path': sbox,
            'pilot_sandbox'    : 'file://localhost/pilot',
            'resources'        : {'cpu': n * pl['c'], 'gpu': n * pl['g']}}
    return seams.wire(task)


# ------------------------------------------------------------------------------
# world: one launcher factory per variant
#
class World(object):

    def __init__(self, scratch):
        net.install()
        self.net  = net.Net().activate()
        self.base = os.path.join(scratch, 'c09.%d' % os.getpid())
        shutil.rmtree(self.base, ignore_errors=True)
        os.makedirs(os.path.join(self.base, 'env'))
        with open(os.path.join(self.base, 'env', 'bs0_orig.env'), 'w') as f:
            f.write('export PATH="/usr/bin:/bin"\n')
        self.sbox = os.path.join(self.base, 'sbx')
        self.hbox = os.path.join(self.base, 'hst')
        os.mkdir(self.sbox)
        os.mkdir(self.hbox)
        self.saved_cwd = os.getcwd()
        self.saved_env = dict(os.environ)
        os.chdir(self.base)
        for k in ('RADICAL_PILOT_SRUN_VERBOSE', 'RADICAL_PILOT_PRUN_VERBOSE'):
            os.environ.pop(k, None)
        self._rm_infos = dict()
        self._lm_cfgs  = dict()
        self._in_reg   = dict()
        self._made     = list()

    def close(self):
        for lm in self._made:
            retire(lm)
        self._made = list()
        os.chdir(self.saved_cwd)
        for k in list(os.environ):
            if k not in self.saved_env:
                del os.environ[k]
        for k, val in self.saved_env.items():
            if os.environ.get(k) != val:
                os.environ[k] = val
        shutil.rmtree(self.base, ignore_errors=True)

    def rm_info(self, v):
        if v['id'] not in self._rm_infos:
            self._rm_infos[v['id']] = make_rm_info(v)
        return self._rm_infos[v['id']]

    def lm_cfg(self, v):
        if v['id'] not in self._lm_cfgs:
            cfg = dict(v.get('lm_cfg', {}))
            cfg.update({'pid'     : 'pilot.0000',
                        'reg_addr': 'mem://registry',
                        'resource': v.get('resource', 'local.localhost')})
            self._lm_cfgs[v['id']] = ru.Config(from_dict=cfg)
        return self._lm_cfgs[v['id']]

    def launcher(self, v):
        '''a new launcher object, initialised the way an executor gets it'''
        key = 'lm.%s' % v['name'].lower()
        if self._in_reg.get(key) != v['id']:
            self.net.reg.put(key, v['lm_info'])
            self._in_reg[key] = v['id']
        lm = rpa.LaunchMethod.create(v['name'], self.lm_cfg(v),
                                     self.rm_info(v), seams.null(),
                                     seams.null())
        if len(self._made) > 64:
            for old in self._made:
                retire(old)
            self._made = list()
        self._made.append(lm)
        return lm

    def clean(self, sbox):
        for f in os.listdir(sbox):
            os.unlink(os.path.join(sbox, f))


def retire(lm):
    # PRTE.__del__ -> _terminate would look for `pterm`: nothing to terminate
    if hasattr(lm, '_details'):
        lm._details = dict()


def drive(lm, task, sbox):
    '''
    what the executor does with one task: ask, then generate.  Returns the
    observation (status, detail, command, files).
    '''
    exec_path = '%s/%s.exec.sh' % (sbox, task['uid'])
    try:
        ok, why = lm.can_launch(task)
    except Exception as e:
        return ('can_launch-raises', type(e).__name__, None, {})
    if not ok:
        return ('declined', why, None, {})
    try:
        cmds = lm.get_launch_cmds(task, exec_path)
    except Exception as e:
        return ('raises', '%s' % type(e).__name__, None,
                {'error': '%r' % e})
    files = dict()
    for f in sorted(os.listdir(sbox)):
        with open(os.path.join(sbox, f)) as fin:
            files[f] = fin.read()
    if not isinstance(cmds, str):
        cmds = '\n'.join(ru.as_list(cmds))
    return ('command', '', cmds, files)


# ------------------------------------------------------------------------------
# readers: what does the command start where?  (trusted base)
#
class Unreadable(Exception):
    pass


class Reading(object):

    def __init__(self):
        self.procs   = None     # number of processes started
        self.nodes   = None     # Counter node -> processes   (syntax counts)
        self.nodeset = None     # set of named nodes          (no counts)
        self.pins    = None     # [(node or None, frozenset(cores))] per rank
        self.gpins   = None     # [(node, frozenset(gpus))] per rank
        self.cpr     = None     # cores per rank (count)
        self.gpr     = None     # gpus  per rank / resource set (count)
        self.notes   = list()   # (clause, text) the reader found on its own

    def as_dict(self):
        d = dict()
        for k in ('procs', 'nodes', 'nodeset', 'pins', 'gpins', 'cpr', 'gpr',
                  'notes'):
            val = getattr(self, k)
            if val is None or val == []:
                continue
            if k == 'nodes'  : val = dict(val)
            if k == 'nodeset': val = sorted(val)
            if k in ('pins', 'gpins'):
                val = [[n, sorted(s)] for n, s in val]
            d[k] = val
        for k in ('first_node', 'offset', 'tpn', 'entry', 'rs', 'per_rs', 'c_rs',
                  'g_rs', 'rs_host', 'dvm'):
            if getattr(self, k, None) is not None:
                d[k] = getattr(self, k)
        return d


def _int(x, what):
    try:
        return int(x)
    except (TypeError, ValueError):
        raise Unreadable('%s is not a number: %r' % (what, x))


def _opts(tokens, with_arg, flags=()):
    '''
    generic option scanner: {opt: [values]}, bare tokens in order.  Options
    may be given as `--opt=val` or `--opt val`.
    '''
    opts = collections.OrderedDict()
    bare = list()
    i    = 0
    while i < len(tokens):
        t = tokens[i]
        if t.startswith('--') and '=' in t:
            k, val = t.split('=', 1)
            opts.setdefault(k, list()).append(val)
        elif t in with_arg:
            if i + 1 >= len(tokens):
                raise Unreadable('option %s without argument' % t)
            opts.setdefault(t, list()).append(tokens[i + 1])
            i += 1
        elif t in flags or (t.startswith('-') and len(t) > 1):
            opts.setdefault(t, list()).append(True)
        else:
            bare.append(t)
        i += 1
    return opts, bare


def _one(opts, *names):
    vals = list()
    for n in names:
        vals.extend(opts.get(n, []))
    if len(vals) > 1:
        raise Unreadable('option %s given %d times: %s'
                         % ('/'.join(names), len(vals), vals))
    return vals[0] if vals else None


def _split_cmd(cmd, exec_path):
    '''tokens before the task's executable script; the script must be last'''
    tokens = shlex.split(cmd)
    if not tokens or tokens[-1] != exec_path:
        raise Unreadable('command does not end with the exec script')
    return tokens[:-1]


def _read_file(files, sbox, path):
    if not path.startswith(sbox + '/'):
        raise Unreadable('file %s outside of the task sandbox' % path)
    name = path[len(sbox) + 1:]
    if name not in files:
        raise Unreadable('file %s not written' % path)
    return files[name]


def _cpu_list(spec):
    '''"0,2-3" -> {0, 2, 3}'''
    out = set()
    for part in spec.split(','):
        if '-' in part:
            lo, hi = part.split('-', 1)
            lo, hi = _int(lo, 'cpu'), _int(hi, 'cpu')
            if hi < lo:
                raise Unreadable('descending cpu range %r' % part)
            out.update(range(lo, hi + 1))
        else:
            out.add(_int(part, 'cpu'))
    return out


def read_fork(v, cmd, files, sbox, exec_path):
    r = Reading()
    if cmd != exec_path:
        raise Unreadable('fork command is not the exec script')
    r.procs   = 1
    r.nodes   = collections.Counter({'<this node>': 1})
    return r


def read_ssh(v, cmd, files, sbox, exec_path):
    # ssh [options] host command        rsh [options] host command
    tokens = _split_cmd(cmd, exec_path)
    r = Reading()
    i = 1
    while i < len(tokens) and tokens[i].startswith('-'):
        i += 2 if tokens[i] in ('-o', '-l', '-p', '-i', '-F') else 1
    rest = tokens[i:]
    if len(rest) != 1:
        raise Unreadable('expected one host argument, got %s' % rest)
    r.procs = 1
    r.nodes = collections.Counter({rest[0]: 1})
    return r


def _hostfile_lines(text):
    return [line.strip() for line in text.splitlines() if line.strip()]


def read_mpirun(v, cmd, files, sbox, exec_path):
    '''
    [ccmrun] mpirun [hosts (MPT)] [-gpu] [-np N] [-host a,b | -hostfile F |
                    -file F]  program [args]
    mpirun reads its options up to the program; what follows the program
    (dplace, omplace or the task script) are arguments of that program.
    Open MPI / MPICH: N processes, one per entry of the host list (an entry
    is a slot; a host named twice holds two processes); a hostfile with one
    name per line reads the same.  MPT: `mpirun hosts -np N`: N processes on
    each host entry (only node set and total are read).
    dplace -c list: cpus for the processes, in order.
    '''
    tokens = _split_cmd(cmd, exec_path)
    info   = v['lm_info']
    r      = Reading()
    if info['ccmrun']:
        if tokens[0] != info['ccmrun']:
            raise Unreadable('ccmrun missing')
        tokens = tokens[1:]
    if not tokens or tokens[0] != info['command']:
        raise Unreadable('mpirun executable missing')
    tokens = tokens[1:]

    own  = list()           # mpirun's options
    i    = 0
    while i < len(tokens):
        t = tokens[i]
        if t in ('-np', '-host', '-hostfile', '-file'):
            own.extend(tokens[i:i + 2])
            i += 2
        elif t == '-gpu':
            own.append(t)
            i += 1
        elif info['mpt'] and i == 0 and not t.startswith('-') \
                         and not t.startswith('/'):
            own.append(t)
            i += 1
        else:
            break
    rest = tokens[i:]       # wrapper programs and *their* arguments

    dplace = None
    hint   = ''
    while rest:
        prog = rest.pop(0)
        if prog == info['dplace'] and prog:
            dplace = list()
            while len(rest) >= 2 and rest[0] == '-c':
                dplace.append(rest[1])
                rest = rest[2:]
        elif prog == info['omplace'] and prog:
            pass
        else:
            raise Unreadable('unknown program %s' % prog)
        args = list()
        while rest and rest[0] not in (info['dplace'], info['omplace']):
            args.append(rest.pop(0))
        if args:
            hint = ' (%s are arguments of %s, not of mpirun)' \
                   % (' '.join(args)[:60], prog)

    opts, bare = _opts(own, ('-np', '-host', '-hostfile', '-file'), ('-gpu',))
    np = _one(opts, '-np')
    if np is None:
        raise Unreadable('no -np')
    np = _int(np, '-np')

    entries = None
    host    = _one(opts, '-host')
    hfile   = _one(opts, '-hostfile', '-file')
    if info['mpt']:
        if host is not None:
            raise Unreadable('MPT does not know -host')
        if bare and hfile:
            raise Unreadable('host list and host file')
        if bare:
            entries = bare[0].split(',')
        elif hfile:
            entries = _hostfile_lines(_read_file(files, sbox, hfile))
    else:
        if bare:
            raise Unreadable('stray arguments %s' % bare)
        if host is not None and hfile is not None:
            raise Unreadable('-host and -hostfile')
        if host is not None:
            entries = host.split(',')
        elif hfile is not None:
            entries = _hostfile_lines(_read_file(files, sbox, hfile))

    r.hint = hint
    if entries is None:
        # no hosts: N processes where mpirun runs
        r.procs   = np
        r.nodeset = set()
    else:
        if any(not e or ' ' in e for e in entries):
            raise Unreadable('malformed host entries %s' % entries[:5])
        if info['mpt']:
            r.procs   = len(entries) * np
            r.nodeset = set(entries)
        else:
            r.procs   = np
            r.nodes   = collections.Counter(entries)
            if len(entries) != np:
                r.notes.append(('per-node-count', '-np %d with %d host slots'
                                % (np, len(entries))))
    if dplace is not None:
        if not dplace:
            r.notes.append(('pinned-cores', 'dplace without -c: the '
                            'processes are not bound to the cores of their '
                            'slots'))
        elif len(dplace) != 1:
            r.notes.append(('pinned-cores', 'dplace -c given %d times: %s'
                            % (len(dplace), dplace)))
        else:
            ids = [_int(x, 'cpu') for x in dplace[0].split(',')]
            r.pins = [(None, frozenset([i])) for i in ids]
    return r


def read_mpiexec(v, cmd, files, sbox, exec_path):
    '''
    mpiexec -np N  -rf RANKFILE                      (Open MPI rank file)
                |  --hostfile F  (`host slots=n`)    (Open MPI)
                |  -f F          (`host:n`)          (MPICH / Hydra)
                |  --ppn P --cpu-bind list:a:b --hostfile F   (PALS)
    Host files are filled in file order, n (or P) processes per host.
    '''
    tokens = _split_cmd(cmd, exec_path)
    info   = v['lm_info']
    r      = Reading()
    if not tokens or tokens[0] != info['command']:
        raise Unreadable('mpiexec executable missing')
    tokens = [t for t in tokens[1:] if t != 'omplace']
    opts, bare = _opts(tokens, ('-np', '-rf', '--hostfile', '-f', '--ppn',
                                '--cpu-bind', '-H'), ('--oversubscribe',))
    if bare:
        raise Unreadable('stray arguments %s' % bare)
    np = _one(opts, '-np')
    if np is None:
        raise Unreadable('no -np')
    np = _int(np, '-np')
    r.procs = np

    rf  = _one(opts, '-rf')
    hf  = _one(opts, '--hostfile')
    f   = _one(opts, '-f')
    ppn = _one(opts, '--ppn')
    if len([x for x in (rf, hf, f) if x is not None]) != 1:
        raise Unreadable('need exactly one of -rf / --hostfile / -f')

    if rf is not None:
        seen = dict()
        for line in _hostfile_lines(_read_file(files, sbox, rf)):
            m = re.match(r'^rank (\d+)=(\S+) slots?=(\S+)$', line)
            if not m:
                raise Unreadable('rank file line %r' % line)
            rank = int(m.group(1))
            if rank in seen:
                raise Unreadable('rank %d twice in rank file' % rank)
            seen[rank] = (m.group(2), frozenset(_cpu_list(m.group(3))))
        if sorted(seen) != list(range(len(seen))):
            raise Unreadable('rank file ranks %s' % sorted(seen))
        if len(seen) != np:
            r.notes.append(('process-count', '-np %d but %d ranks in rank '
                            'file' % (np, len(seen))))
        r.pins  = [seen[i] for i in sorted(seen)]
        r.nodes = collections.Counter(h for h, _ in r.pins)
        return r

    if ppn is not None:
        ppn   = _int(ppn, '--ppn')
        hosts = _hostfile_lines(_read_file(files, sbox, hf if hf else f))
        if len(set(hosts)) != len(hosts) or any(' ' in h for h in hosts):
            raise Unreadable('PALS hostfile %s' % hosts[:5])
        r.nodes = collections.Counter()
        left = np
        for h in hosts:
            k = min(ppn, left)
            if k:
                r.nodes[h] += k
            left -= k
        if left:
            r.notes.append(('per-node-count', '%d processes do not fit %d '
                            'hosts x --ppn %d' % (np, len(hosts), ppn)))
        bind = _one(opts, '--cpu-bind')
        if bind is not None:
            if not bind.startswith('list:'):
                raise Unreadable('--cpu-bind %s' % bind)
            # one cpu list per rank (RP lists all ranks of the task)
            try:
                r.pins = [(None, frozenset(_cpu_list(x)))
                          for x in bind[5:].split(':')]
            except Unreadable as e:
                r.notes.append(('pinned-cores', '--cpu-bind %s: %s'
                                % (bind, e)))
        return r

    text   = _read_file(files, sbox, hf if hf is not None else f)
    slots  = list()
    for line in _hostfile_lines(text):
        if hf is not None:
            m = re.match(r'^(\S+)(?: +slots=(\d+))?$', line)
        else:
            m = re.match(r'^([^\s:]+)(?::(\d+))?$', line)
        if not m:
            raise Unreadable('host file line %r' % line)
        slots.append((m.group(1), int(m.group(2) or 1)))
    r.nodes = collections.Counter()
    left = np
    for h, k in slots:
        k = min(k, left)
        if k:
            r.nodes[h] += k
        left -= k
    if left:
        r.notes.append(('per-node-count', '-np %d but host file has %d '
                        'slots' % (np, sum(k for _, k in slots))))
    return r


def read_srun(v, cmd, files, sbox, exec_path):
    '''
    srun --ntasks N [--nodes M] [--cpus-per-task C] [--gpus-per-task G]
         [--nodelist=a,b | --nodefile=F]
    N processes on the listed nodes (no per node counts, no pinning).
    '''
    tokens = _split_cmd(cmd, exec_path)
    info   = v['lm_info']
    r      = Reading()
    if not tokens or tokens[0] != info['command']:
        raise Unreadable('srun executable missing')
    opts, bare = _opts(tokens[1:], ('--nodes', '--ntasks', '--cpus-per-task',
                                    '--threads-per-core', '--mem',
                                    '--gpus-per-task', '--gpu-bind'))
    if bare:
        raise Unreadable('stray arguments %s' % bare)
    nt = _one(opts, '--ntasks')
    if nt is None:
        raise Unreadable('no --ntasks')
    r.procs = _int(nt, '--ntasks')
    nl = _one(opts, '--nodelist')
    nf = _one(opts, '--nodefile')
    if nl is not None and nf is not None:
        raise Unreadable('--nodelist and --nodefile')
    names = None
    if nl is not None:
        names = nl.split(',')
    elif nf is not None:
        if info['vmajor'] <= 18:
            r.notes.append(('nodes-omitted', 'slurm %s does not know '
                            '--nodefile' % info['version']))
        names = [x for x in re.split(r'[,\s]+', _read_file(files, sbox, nf))
                 if x]
    if names is not None:
        if len(set(names)) != len(names):
            raise Unreadable('node named twice: %s' % names)
        r.nodeset = set(names)
        nn = _one(opts, '--nodes')
        if nn is not None and _int(nn, '--nodes') != len(names):
            r.notes.append(('nodes-omitted' if _int(nn, '--nodes') <
                            len(names) else 'nodes-alien',
                            '--nodes %s with %d nodes listed'
                            % (nn, len(names))))
    else:
        r.nodeset = set()
    c = _one(opts, '--cpus-per-task')
    g = _one(opts, '--gpus-per-task')
    r.cpr = _int(c, '--cpus-per-task') if c is not None else 1
    r.gpr = _int(g, '--gpus-per-task') if g is not None else 0
    return r


def read_jsrun(v, cmd, files, sbox, exec_path):
    '''
    jsrun -nR -aA -cC -gG [-rK]:  R resource sets of A tasks, C physical
    cores and G GPUs each (hosts are chosen by jsrun).
    jsrun --erf_input F:  `rank: i[,j] : { host: H; cpu: {..}[,{..}]
    [; gpu: {..}] }`, one line per resource set, cpu sets per rank.
    '''
    tokens = _split_cmd(cmd, exec_path)
    info   = v['lm_info']
    r      = Reading()
    if not tokens or tokens[0] != info['command']:
        raise Unreadable('jsrun executable missing')
    tokens = tokens[1:]
    erf = None
    if '--erf_input' in tokens:
        i   = tokens.index('--erf_input')
        erf = tokens[i + 1]

    if erf is None:
        vals = dict()
        for t in tokens:
            m = re.match(r'^-([nacgr])(\d+)$', t)
            if m:
                if m.group(1) in vals:
                    raise Unreadable('-%s twice' % m.group(1))
                vals[m.group(1)] = int(m.group(2))
        for k in 'nac':
            if k not in vals:
                raise Unreadable('no -%s' % k)
        r.procs   = vals['n'] * vals['a']
        r.rs      = vals['n']
        r.per_rs  = vals['a']
        r.c_rs    = vals['c']
        r.g_rs    = vals.get('g', 0)
        r.rs_host = vals.get('r')
        return r

    text  = _read_file(files, sbox, erf)
    lines = _hostfile_lines(text)
    if not lines or not lines[0].startswith('cpu_index_using:'):
        raise Unreadable('ERF header %r' % lines[:1])
    binds  = list()
    for line in lines[1:]:
        m = re.match(r'^rank: *([\d,]+) *: *\{ *host: *(\d+) *; *cpu: *'
                     r'((?:\{[\d,]*\},?)+) *(?:; *gpu: *\{([\d,]*)\})? *\}$',
                     line)
        if not m:
            raise Unreadable('ERF line %r' % line)
        ids   = [int(x) for x in m.group(1).split(',')]
        host  = int(m.group(2))
        csets = [frozenset(int(x) for x in s.split(',') if x)
                 for s in re.findall(r'\{([\d,]*)\}', m.group(3))]
        gset  = frozenset(int(x) for x in (m.group(4) or '').split(',') if x)
        if len(csets) != len(ids):
            raise Unreadable('ERF line %r: %d ranks, %d cpu sets'
                             % (line, len(ids), len(csets)))
        if host not in NODE_NAME:
            name = '<host %d>' % host
        else:
            name = NODE_NAME[host]
        for i, cs in zip(ids, csets):
            binds.append((i, name, cs, gset))
    # every line binds the ranks it lists: the rank ids over all resource
    # sets must be 0..n-1, each exactly once
    ids = sorted(b[0] for b in binds)
    if ids != list(range(len(binds))):
        twice   = sorted(set(i for i in ids if ids.count(i) > 1))
        missing = sorted(set(range(len(binds))) - set(ids))
        r.notes.append(('rank-ids', 'ERF binds rank ids %s: %s bound more '
                        'than once, %s not bound' % (ids, twice, missing)))
    binds.sort(key=lambda b: b[0])
    r.procs = len(binds)
    r.pins  = [(b[1], b[2]) for b in binds]
    r.gpins = [(b[1], b[3]) for b in binds]
    r.nodes = collections.Counter(n for n, _ in r.pins)
    return r


def read_prte(v, cmd, files, sbox, exec_path):
    '''prun --dvm-uri U --np N --map-by ..:PE=k:.. --host a:n,b:m'''
    tokens = _split_cmd(cmd, exec_path)
    info   = v['lm_info']
    r      = Reading()
    if not tokens or tokens[0] != info['command']:
        raise Unreadable('prun executable missing')
    opts, bare = _opts(tokens[1:], ('--dvm-uri', '--np', '--map-by',
                                    '--bind-to', '--host', '--pmixmca'),
                       ('--verbose',))
    # --pmixmca takes two arguments: the second one shows up as bare
    bare = [b for b in bare if not b.isdigit()]
    if bare:
        raise Unreadable('stray arguments %s' % bare)
    np = _one(opts, '--np')
    if np is None:
        raise Unreadable('no --np')
    r.procs = _int(np, '--np')
    host = _one(opts, '--host')
    if host is None:
        r.nodeset = set()
    else:
        r.nodes = collections.Counter()
        for ent in host.split(','):
            m = re.match(r'^([^:]+)(?::(\d+))?$', ent)
            if not m:
                raise Unreadable('--host entry %r' % ent)
            r.nodes[m.group(1)] += int(m.group(2) or 1)
        if sum(r.nodes.values()) != r.procs:
            r.notes.append(('per-node-count', '--np %d with %d host slots'
                            % (r.procs, sum(r.nodes.values()))))
    mb = _one(opts, '--map-by') or ''
    m  = re.search(r'(?:^|:)PE=(\d+)(?::|$)', mb)
    r.cpr = int(m.group(1)) if m else 1
    uri = _one(opts, '--dvm-uri')
    r.dvm = None
    for pid, dvm in info['details']['dvm_list'].items():
        if dvm['dvm_uri'] == uri:
            r.dvm = pid
    if r.dvm is None:
        raise Unreadable('unknown DVM uri %r' % uri)
    return r


def read_ibrun(v, cmd, files, sbox, exec_path):
    '''
    IBRUN_TASKS_PER_NODE=t ibrun -n N -o O: N processes on consecutive
    entries of the job's host list, which holds t entries per node in node
    list order, starting at entry O (ibrun.py: "offset into processor (cpus)
    hostlist").  Only the node of the first entry is read.
    '''
    tokens = _split_cmd(cmd, exec_path)
    info   = v['lm_info']
    r      = Reading()
    env    = dict()
    while tokens and re.match(r'^[A-Za-z_][A-Za-z0-9_]*=', tokens[0]):
        k, val = tokens.pop(0).split('=', 1)
        env[k] = val
    if not tokens or tokens[0] != info['command']:
        raise Unreadable('ibrun executable missing')
    opts, bare = _opts(tokens[1:], ('-n', '-o'))
    if bare:
        raise Unreadable('stray arguments %s' % bare)
    n = _one(opts, '-n')
    if n is None:
        raise Unreadable('no -n')
    r.procs = _int(n, '-n')
    off = _int(_one(opts, '-o') or 0, '-o')
    tpn = env.get('IBRUN_TASKS_PER_NODE')
    if tpn is None:
        raise Unreadable('IBRUN_TASKS_PER_NODE not set: host list unknown')
    tpn = _int(tpn, 'IBRUN_TASKS_PER_NODE')
    if tpn < 1:
        raise Unreadable('IBRUN_TASKS_PER_NODE=%d' % tpn)
    pos = off // tpn
    r.first_node = ALL_NODES[pos][0] if pos < len(ALL_NODES) \
                   else '<entry %d beyond the host list>' % off
    r.offset, r.tpn = off, tpn
    r.entry = off - pos * tpn          # entry within the node's part
    return r


def read_aprun(v, cmd, files, sbox, exec_path):
    '''aprun -n N -d D [-L nodes]; ccmrun -n N'''
    tokens = _split_cmd(cmd, exec_path)
    info   = v['lm_info']
    r      = Reading()
    if not tokens or tokens[0] != info['command']:
        raise Unreadable('executable missing')
    opts, bare = _opts(tokens[1:], ('-n', '-d', '-N', '-L', '-j'))
    if bare:
        raise Unreadable('stray arguments %s' % bare)
    n = _one(opts, '-n')
    if n is None:
        raise Unreadable('no -n')
    r.procs = _int(n, '-n')
    if v['reader'] == 'aprun':
        d = _one(opts, '-d')
        r.cpr = _int(d, '-d') if d is not None else 1
    nodes = _one(opts, '-L')
    r.nodeset = set(nodes.split(',')) if nodes else set()
    return r


READERS = {'fork': read_fork, 'ssh': read_ssh, 'mpirun': read_mpirun,
           'mpiexec': read_mpiexec, 'srun': read_srun, 'jsrun': read_jsrun,
           'prte': read_prte, 'ibrun': read_ibrun, 'aprun': read_aprun,
           'ccmrun': read_aprun}


# ------------------------------------------------------------------------------
# oracle for one (variant, placement, observation)
#
def judge(v, pl, obs, sbox, lm=None):
    '''
    returns (result class, [(clause, text)], reading or None)
    '''
    status, detail, cmd, files = obs
    ranks = pl['ranks']
    n     = len(ranks)
    want  = collections.Counter(r[0] for r in ranks)

    if status != 'command':
        return '%s:%s' % (status, detail), [], None

    exec_path = '%s/%s.exec.sh' % (sbox, UID)
    try:
        r = READERS[v['reader']](v, cmd, files, sbox, exec_path)
    except Unreadable as e:
        return 'unreadable', [('well-formed', 'command cannot be read: %s'
                               % e)], None

    bad = list(r.notes)

    if r.procs != n:
        bad.append(('process-count', 'command starts %s processes, task has '
                    '%d ranks' % (r.procs, n)))

    # nodes
    named = None
    if r.nodes is not None:
        named = set(r.nodes)
        if v['reader'] == 'fork':
            here  = getattr(lm, 'node_name', 'localhost')
            named = set(want) if len(want) == 1 and \
                    name_relation(here, list(want)[0]) in \
                    ('localhost', 'same', 'fqdn-vs-short') \
                    else {'<this node: %s>' % here}
    elif r.nodeset is not None:
        named = set(r.nodeset)
    if named is not None:
        alien   = sorted(named - set(want))
        omitted = sorted(set(want) - named)
        if alien:
            bad.append(('nodes-alien', 'command names %s, placement is on %s'
                        % (alien, sorted(want))))
        if omitted:
            bad.append(('nodes-omitted', 'placement is on %s, command %s'
                        % (sorted(want), ('names only %s' % sorted(named)
                           if named else 'names no node')
                           + getattr(r, 'hint', ''))))
        if not alien and not omitted and r.nodes is not None \
           and v['reader'] != 'fork' and r.procs == n:
            if dict(r.nodes) != dict(want):
                bad.append(('per-node-count', 'command puts %s, placement '
                            'is %s' % (dict(r.nodes), dict(want))))

    if v['reader'] == 'ibrun':
        first = min(want, key=lambda name: NODE_POS[name])
        if r.first_node != first:
            bad.append(('nodes-omitted',
                        'offset %d with %d host list entries per node is on '
                        '%s; first node of the placement is %s'
                        % (r.offset, r.tpn, r.first_node, first)))
        else:
            # ibrun.py: the entry within the node's part of the host list is
            # the task's lowest core there, in units of one rank's cores
            block = min(x[1][0] for x in ranks if x[0] == first) // pl['c']
            if r.entry != block:
                bad.append(('pinned-cores',
                            'offset %d is entry %d of %s (%d entries per '
                            'node); the task\'s lowest core on that node is '
                            '%d = block %d of %d cores'
                            % (r.offset, r.entry, first, r.tpn,
                               min(x[1][0] for x in ranks if x[0] == first),
                               block, pl['c'])))

    # pinning
    if r.pins is not None:
        if r.pins and r.pins[0][0] is None:
            got    = [sorted(s) for _, s in r.pins]
            if v['name'] == 'MPIRUN_DPLACE':
                expect = [[x[1][0]] for x in ranks]
            else:
                expect = [sorted(x[1]) for x in ranks]
        else:
            got    = sorted((h, sorted(s)) for h, s in r.pins)
            expect = sorted((x[0], sorted(x[1])) for x in ranks)
        if got != expect:
            bad.append(('pinned-cores', 'ranks are bound to %s, slots hold %s'
                        % (got, expect)))
    if r.gpins is not None:
        got    = sorted((h, sorted(s)) for h, s in r.gpins)
        expect = sorted((x[0], sorted(x[2])) for x in ranks)
        if pl.get('rs') == 'shared-gpu':
            per    = 2
            expect = sorted((ranks[i - i % per][0],
                             sorted(ranks[i - i % per][2]))
                            for i in range(n))
        if got != expect:
            bad.append(('pinned-gpus', 'ranks get GPUs %s, slots hold %s'
                        % (got, expect)))

    # counts
    if r.cpr is not None and r.cpr != pl['c']:
        bad.append(('cores-per-rank', 'command gives %d cores per rank, '
                    'slots have %d' % (r.cpr, pl['c'])))
    if r.gpr is not None:
        g = pl['g']
        if v.get('rm', {}).get('requested_gpus', 1) == 0:
            g = 0                       # pilot without GPUs: nothing to ask
        if r.gpr != g:
            bad.append(('gpus-per-rank', 'command gives %d GPUs per rank, '
                        'slots have %d' % (r.gpr, g)))

    if v['reader'] == 'jsrun' and r.pins is None:
        tpc  = v.get('rm', {}).get('tpc', 1)
        per  = 2 if pl.get('rs') else 1
        c_rs = -(-pl['c'] // tpc) * per
        g_rs = pl['g']
        if r.c_rs != c_rs:
            bad.append(('cores-per-rank', '-c%d: resource sets of %d ranks '
                        'x %d hardware threads (SMT %d) need %d cores'
                        % (r.c_rs, per, pl['c'], tpc, c_rs)))
        if r.g_rs != g_rs:
            bad.append(('gpus-per-rank', '-g%d: resource sets hold %d GPUs'
                        % (r.g_rs, g_rs)))
        r.notes_r = None
        if r.rs_host is not None:
            per_host = collections.Counter(
                       x[0] for x in ranks[::per])
            r.notes_r = 'r=placement' if set(per_host.values()) == \
                        {r.rs_host} else 'r!=placement'

    if v['reader'] == 'prte':
        pids = [pid for pid, dvm in v['lm_info']['details']['dvm_list']
                .items() if set(node_index(x[0]) for x in ranks)
                <= set(dvm['nodes'])]
        if r.dvm not in pids:
            bad.append(('partition', 'DVM %s does not hold the nodes %s'
                        % (r.dvm, sorted(want))))

    cls = 'ok' if not bad else 'bad:' + ','.join(sorted(set(c for c, _ in
                                                            bad)))
    if getattr(r, 'notes_r', None):
        cls += ':' + r.notes_r
    return cls, bad, r


def site_of(v, clause):
    if v['reader'] == 'fork':
        # Fork's command is the task script itself: what it starts where is
        # decided by what can_launch lets through
        return 'Fork.can_launch'
    return '%s.get_launch_cmds' % LM_CLASS[v['name']]


def name_relation(agent, node):
    '''how the name of a task's node relates to the agent's host name'''
    if node == 'localhost'                  : return 'localhost'
    if node == agent                        : return 'same'
    if '.' in agent and agent.split('.')[0] == node or \
       '.' in node  and node.split('.')[0] == agent:
        # fully qualified vs. short name of one host: either answer is fine
        return 'fqdn-vs-short'
    if agent.startswith(node)               : return 'task-node-name-is-prefix-of-agent-node-name'
    if node.startswith(agent)               : return 'agent-node-name-is-prefix-of-task-node-name'
    return 'other-node'


# ------------------------------------------------------------------------------
# jobs
#
_placements = None
_scratch    = None
_quick      = True


def extra_placements(v):
    '''resource sets shared by two ranks (JSRUN only: fractional GPUs)'''
    out = list()
    if v['reader'] != 'jsrun':
        return out
    for pattern, nodes in (((2,), ['nodeb']), ((2, 2), ['localhost', 'nodeb']),
                           ((4,), ['localhost']), ((4, 2), ['nodec', 'nodeb'])):
        for c in (1, 2):
            for style in ('low', 'scattered'):
                pl = make_placement(pattern, nodes, c, 1, style)
                # two consecutive ranks share the GPU of the first
                for i, r in enumerate(pl['ranks']):
                    r[2] = list(pl['ranks'][i - i % 2][2])
                pl['rs']   = 'shared-gpu'
                pl['key'] += '/shared-gpu'
                out.append(pl)
    # ranks of one resource set with different GPUs: cannot be expressed
    pl = make_placement((2,), ['nodeb'], 1, 1, 'low')
    pl['rs']   = 'split-gpu'
    pl['key'] += '/split-gpu'
    out.append(pl)
    if v.get('name') != 'JSRUN_ERF':
        return out
    # one resource set per node with all ranks of the node (they share the
    # node's GPU set): resource sets of different size.  Only the explicit
    # resource file can say this; `jsrun -n -a` describes equal sets.
    for pattern, nodes in (((2, 2), ['localhost', 'nodeb']),
                           ((3, 1), ['localhost', 'nodeb']),
                           ((1, 3), ['nodec', 'nodeb']),
                           ((2, 1, 1), ['localhost', 'nodeb', 'nodec'])):
        for c, g, style in ((1, 0, 'low'), (1, 1, 'low'), (2, 0, 'scattered'),
                            (2, 2, 'scattered')):
            pl = make_placement(pattern, nodes, c, g, style)
            first = dict()
            for r in pl['ranks']:
                r[2] = list(first.setdefault(r[0], r[2]))
            pl['rs']   = 'rs-per-node'
            pl['key'] += '/rs-per-node'
            out.append(pl)
    return out


def placements_for(v):
    return list(_placements) + extra_placements(v)


def shape(pl):
    return (tuple(pl['pattern']), pl['c'], pl['g'], pl['style'], pl['order'],
            pl['ranks'][0][0] == 'localhost', pl.get('rs'), pl.get('big'))


def single_pass(world, v, part, verbose=False):
    '''
    every placement on a new launcher.  Returns {index: observation} and
    reports the clauses.
    '''
    pls     = placements_for(v)
    fresh   = dict()
    records = collections.defaultdict(lambda: [list(), None])
    clean   = list()        # features of the cases without any complaint
    cases   = list()        # (features, failed clauses) of every command
    n_cmd   = 0
    for i, pl in enumerate(pls):
        lm   = world.launcher(v)
        world.clean(world.sbox)
        task = make_task(v, pl, world.sbox)
        obs  = drive(lm, task, world.sbox)
        fresh[i] = obs
        cls, bad, r = judge(v, pl, obs, world.sbox, lm)
        part.outcome((v['id'], shape(pl), cls))
        n_cmd += 1 if obs[0] == 'command' else 0
        feats  = features(pl)
        if obs[0] == 'command':
            cases.append((feats, set(c for c, _ in bad)))
            if not bad:
                clean.append(feats)
        for clause in sorted(set(c for c, _ in bad)):
            rec = records[clause]
            rec[0].append(feats)
            if rec[1] is None:
                text = '; '.join(t for c, t in bad if c == clause)
                rec[1] = (pl, text, obs)
    for clause, (failing, first) in sorted(records.items()):
        pl, text, obs = first
        trig = minimal_trigger(failing, [f for f, cs in cases
                                         if clause not in cs], clean)
        part.violation('%s|%s|%s/%s' % (clause, site_of(v, clause), v['id'],
                                        trig),
                       {'what'     : text,
                        'variant'  : v['id'],
                        'placement': pl['ranks'][:6],
                        'command'  : obs[2],
                        'files'    : {k: x[:400] for k, x in obs[3].items()},
                        'failing'  : len(failing),
                        'of'       : len(pls)},
                       {'kind': 'single', 'variant': v['id'],
                        'placement': pl})
    part.cover(evaluations=len(pls), singles=len(pls), commands=n_cmd,
               refusals=len(pls) - n_cmd)
    return pls, fresh


CLAUSES = ['process-count', 'nodes-alien', 'nodes-omitted', 'per-node-count',
           'pinned-cores', 'pinned-gpus', 'cores-per-rank', 'gpus-per-rank',
           'partition', 'well-formed', 'rank-ids']


def history_indices(pls, quick):
    '''which placements serve as "earlier tasks"'''
    if not quick:
        return list(range(len(pls)))
    # quick: every pattern once, cycling through all (cores, gpus, index
    # style) combinations and the node choices; everything large or special
    combos = [(c, g, st) for c in (1, 2) for g in (0, 1, 2)
                         for st in ('low', 'scattered')]
    wanted = set()
    for i, pattern in enumerate(PATTERNS):
        c, g, st = combos[(5 * i) % len(combos)]
        seqs     = NODE_SEQS[len(pattern)]
        wanted.add(make_placement(pattern, seqs[i % len(seqs)], c, g,
                                  st)['key'])
    out = list()
    for i, pl in enumerate(pls):
        if pl.get('big') or pl.get('rs') or pl['order'] != 'grouped' \
           or pl['key'] in wanted:
            out.append(i)
    return out


def obs_diff(a, b):
    if a[0] != b[0] or a[1] != b[1]:
        return 'status', '%s:%s instead of %s:%s' % (b[0], b[1], a[0], a[1])
    if a[2] != b[2]:
        return 'command', '%r instead of %r' % (b[2], a[2])
    if a[3] != b[3]:
        for k in sorted(set(a[3]) | set(b[3])):
            if a[3].get(k) != b[3].get(k):
                return 'files', 'file %s: %r instead of %r' \
                       % (k, (b[3].get(k) or '')[:300],
                             (a[3].get(k) or '')[:300])
    return None, None


def run_history(world, v, pls, hist, target):
    '''new launcher; earlier tasks `hist` (indices), then `target`'''
    lm = world.launcher(v)
    for k, h in enumerate(hist):
        world.clean(world.hbox)
        task = make_task(v, pls[h], world.hbox, uid='task.%06d' % (k + 1))
        drive(lm, task, world.hbox)
    world.clean(world.sbox)
    task = make_task(v, pls[target], world.sbox)
    return drive(lm, task, world.sbox)


def history_pass(world, v, part, pls, fresh, hists, depth, targets=None):
    n = 0
    first = dict()
    if targets is None:
        targets = range(len(pls))
    for hist in hists:
        # one launcher per history and target: the history is exactly `hist`
        for t in targets:
            obs = run_history(world, v, pls, hist, t)
            n  += 1
            what, text = obs_diff(fresh[t], obs)
            if what and what not in first:
                first[what] = (hist, t, text)
    for what, (hist, t, text) in sorted(first.items()):
        # shrink: drop earlier tasks which are not needed
        hist = list(hist)
        for h in list(hist):
            trial = [x for x in hist if x != h]
            if obs_diff(fresh[t], run_history(world, v, pls, trial, t))[0]:
                hist = trial
        if not hist:
            what += '-unstable'     # differs without any history
        part.violation('history-dependence|%s|%s/%s-differs'
                       % (site_of(v, 'history'), v['id'], what),
                       {'what'   : 'after %d earlier task(s): %s'
                                   % (len(hist), text),
                        'variant': v['id'],
                        'earlier': [pls[h]['ranks'][:6] for h in hist],
                        'task'   : pls[t]['ranks'][:6]},
                       {'kind': 'history', 'variant': v['id'],
                        'history': [pls[h] for h in hist],
                        'placement': pls[t]})
    part.cover(evaluations=n, **{'histories_depth_%d' % depth: n})


def _job(job):
    kind, vid, arg = job
    part  = report.Part()
    world = World(_scratch)
    try:
        if kind == 'single':
            v = VAR_BY_ID[vid]
            pls, fresh = single_pass(world, v, part)
            if vid == 'MPIEXEC{rankfile}':
                for i in (0, 200, len(pls) - 2):
                    part.sample({'variant': vid, 'placement':
                                 pls[i]['ranks'][:4], 'command': fresh[i][2],
                                 'files': {k: x[:200] for k, x in
                                           fresh[i][3].items()}})
        elif kind == 'pairs':
            v = VAR_BY_ID[vid]
            pls, fresh = single_pass(world, v, report.Part())
            history_pass(world, v, part, pls, fresh, [[h] for h in arg], 1)
        elif kind == 'triples':
            v = VAR_BY_ID[vid]
            pls, fresh = single_pass(world, v, report.Part())
            history_pass(world, v, part, pls, fresh, arg, 2,
                         targets=history_indices(pls, True))
        elif kind == 'find':
            find_pass(world, part, vid, arg)
        elif kind == 'hosts':
            hosts_pass(world, part, vid)
    finally:
        world.close()
    return part.dump()


# ------------------------------------------------------------------------------
# find_launcher
#
def shipped_orders():
    '''launch method orders of the shipped resource configs'''
    cfg_dir = os.path.join(os.path.dirname(rp.__file__), 'configs')
    orders  = collections.OrderedDict()
    for fname in sorted(glob.glob('%s/resource_*.json' % cfg_dir)):
        site = os.path.basename(fname)[9:-5]
        for label, cfg in sorted(ru.read_json(fname).items()):
            if not isinstance(cfg, dict) or 'launch_methods' not in cfg:
                continue
            lms   = cfg['launch_methods']
            order = tuple(lms.get('order') or
                          [k for k in lms if k != 'order'])
            orders.setdefault(order, list()).append('%s.%s' % (site, label))
    return orders


# the flavour each method has when it is part of an `order`
ORDER_VARIANT = {'FORK': 'FORK{-}', 'SSH': 'SSH{ssh}', 'RSH': 'RSH{-}',
                 'MPIRUN': 'MPIRUN{OMPI}', 'MPIEXEC': 'MPIEXEC{slots=/OMPI}',
                 'MPIEXEC_MPT': 'MPIEXEC_MPT{unknown}', 'SRUN': 'SRUN{v23}',
                 'JSRUN': 'JSRUN{-}', 'JSRUN_ERF': 'JSRUN_ERF{-}',
                 'PRTE': 'PRTE{dvm=1}', 'IBRUN': 'IBRUN{-}',
                 'APRUN': 'APRUN{-}', 'CCMRUN': 'CCMRUN{-}',
                 'MPIRUN_MPT': 'MPIRUN_MPT{OMPI}',
                 'MPIRUN_CCMRUN': 'MPIRUN_CCMRUN{OMPI}',
                 'MPIRUN_RSH': 'MPIRUN_RSH{OMPI}',
                 'MPIRUN_DPLACE': 'MPIRUN_DPLACE{OMPI}'}

TASK_KINDS = [{'mpi': None, 'exe': EXE},     # use_mpi derived from ranks
              {'mpi': True, 'exe': EXE},     # MPI application
              {'mpi': False, 'exe': EXE},    # explicitly not MPI
              {'mpi': None, 'exe': ''}]      # no executable (function task)


def bare_rm(world, order):
    '''a resource manager whose launchers come from its real factory code'''
    v0   = VAR_BY_ID[ORDER_VARIANT[order[0]]]
    info = make_rm_info(v0)
    lms  = {'order': list(order)}
    for name in order:
        v = VAR_BY_ID[ORDER_VARIANT[name]]
        lms[name] = dict(v.get('lm_cfg', {}))
        world.net.reg.put('lm.%s' % name.lower(), v['lm_info'])
        world._in_reg['lm.%s' % name.lower()] = v['id']
    info.launch_methods = lms
    rm = ResourceManager.__new__(ResourceManager)
    rm._log     = seams.null()
    rm._prof    = seams.null()
    rm._rm_info = info
    rm._cfg     = ru.Config(from_dict={'pid'     : 'pilot.0000',
                                       'reg_addr': 'mem://registry',
                                       'resource': 'local.localhost'})
    rm._prepare_launch_methods()
    return rm


def find_pass(world, part, order, arg, only=None):
    order = tuple(order)
    rm    = bare_rm(world, order)
    made  = list(rm._launchers.values())
    assert list(rm._launch_order) == list(order), (rm._launch_order, order)

    # reference: separately created launchers, asked one by one
    refs = collections.OrderedDict()
    for name in order:
        v = VAR_BY_ID[ORDER_VARIANT[name]]
        refs[name] = (v, world.launcher(v))

    old = any(VAR_BY_ID[ORDER_VARIANT[name]].get('slots') == 'old'
              for name in order)
    # the slot structure is a property of the configuration: JSRUN among the
    # launch methods switches the agent to ContinuousJsrun (resource sets)
    pls = list(_placements)
    if old:
        pls += [x for x in extra_placements({'reader': 'jsrun'})
                  if x.get('rs') == 'shared-gpu']
    if only is not None:
        pls = [only]
    n = 0
    records = collections.defaultdict(lambda: [list(), list(), None])
    for pl in pls:
        for kind in TASK_KINDS:
            v0   = {'slots': 'old', 'id': 'cfg-old'} if old \
                   else {'id': 'cfg-new'}
            task = make_task(dict(v0, lm_info={}), pl, world.sbox, **kind)
            expect = None
            for name, (v, lm) in refs.items():
                if lm.can_launch(copy.deepcopy(task))[0]:
                    expect = name
                    break
            before = copy.deepcopy(task)
            try:
                launcher, lname = rm.find_launcher(task)
                err = None
            except Exception as e:
                launcher, lname, err = None, None, e
            n += 1
            kcls = 'mpi=%s,exe=%s' % (kind['mpi'], bool(kind['exe']))
            names = list(order)
            if   lname == expect      : rel = 'same'
            elif lname is None        : rel = 'none-although-one-accepts'
            elif expect is None       : rel = 'one-although-none-accepts'
            elif lname not in names   : rel = 'not-configured'
            elif names.index(lname) > names.index(expect):
                rel = 'later-than-first-accepting'
            else                      : rel = 'earlier-but-not-accepting'
            trig = rel
            replay = {'kind': 'find', 'order': list(order), 'placement': pl,
                      'task_kind': kind}
            if err is not None:
                part.violation('first-accepting|ResourceManager.find_launcher'
                               '|raises-%s' % type(err).__name__,
                               {'what': '%r' % err, 'order': list(order),
                                'placement': pl['ranks'][:6]}, replay)
                continue
            if lname != expect:
                part.violation('first-accepting|ResourceManager.find_launcher'
                               '|%s' % trig,
                               {'what': 'returned %s, first launcher in %s '
                                        'which accepts is %s (task: %s)'
                                        % (lname, list(order), expect, kcls),
                                'placement': pl['ranks'][:6]}, replay)
            elif lname is not None and (launcher is not rm._launchers[lname]
                 or type(launcher).__name__ != LM_CLASS[lname]
                 or launcher.name != lname):
                part.violation('first-accepting|ResourceManager.find_launcher'
                               '|wrong-object',
                               {'what': 'name %s but object %r (%s)'
                                        % (lname, launcher,
                                           getattr(launcher, 'name', None))},
                               replay)
            elif task != before:
                part.violation('task-untouched|ResourceManager.find_launcher'
                               '|any',
                               {'what': 'the task was changed by the search'},
                               replay)
            part.outcome(('find', order, kcls, len(pl['ranks']),
                          pl['ranks'][0][0] == 'localhost', lname))

            # the launcher which was found generates the command, for the
            # task as this configuration presents it
            if kind is not TASK_KINDS[0] or lname is None or lname != expect:
                continue
            v = VAR_BY_ID[ORDER_VARIANT[lname]]
            world.clean(world.sbox)
            obs = drive(launcher, task, world.sbox)
            cls, bad, r = judge(v, pl, obs, world.sbox, launcher)
            part.cover(configured_commands=1)
            feats = features(pl)
            new   = set(c for c, _ in bad)
            if new:
                # only what the method does not show on its own (that is
                # reported by the per-variant pass)
                world.clean(world.sbox)
                obs2 = drive(world.launcher(v), make_task(v, pl, world.sbox),
                             world.sbox)
                new -= set(c for c, _ in judge(v, pl, obs2, world.sbox,
                                               launcher)[1])
            for clause in CLAUSES:
                rec = records[(lname, clause)]
                if clause in new:
                    rec[0].append(feats)
                    if rec[2] is None:
                        rec[2] = (pl, '; '.join(t for c, t in bad
                                                if c == clause), obs)
                elif obs[0] == 'command':
                    rec[1].append(feats)
    for (lname, clause), (failing, passing, first) in sorted(records.items()):
        if not failing:
            continue
        pl, text, obs = first
        v = VAR_BY_ID[ORDER_VARIANT[lname]]
        part.violation('%s|%s|%s(order=%s)/%s'
                       % (clause, site_of(v, clause), lname, '>'.join(order),
                          minimal_trigger(failing, passing)),
                       {'what'     : text + (' -- the configuration hands '
                                     'resource sets (ContinuousJsrun) to %s'
                                     % lname if old else ''),
                        'order'    : list(order),
                        'placement': pl['ranks'][:6],
                        'command'  : obs[2],
                        'failing'  : len(failing)},
                       {'kind': 'find', 'order': list(order), 'placement': pl,
                        'task_kind': TASK_KINDS[0]})
    for lm in made:
        retire(lm)
    part.cover(evaluations=n, find_launcher=n)


# ------------------------------------------------------------------------------
# host names: single rank launchers and the agent's own node
#
HOST_VARIANTS = ['FORK{-}', 'SSH{ssh}', 'SSH{rsh-link}', 'RSH{-}']
SINGLE_RANK   = ('FORK', 'SSH', 'RSH')


class Hostname(object):
    '''the agent runs on `name`: ru.get_hostname() is an environment answer'''

    def __init__(self, name):
        self.name = name

    def __enter__(self):
        self.saved = ru.get_hostname
        ru.get_hostname = lambda *a, **kw: self.name
        return self

    def __exit__(self, *exc):
        ru.get_hostname = self.saved
        return False


def host_placements(names, node):
    '''tasks placed on `node` (and, for two ranks, on a second name)'''
    other = [x for x in names if x != node]
    out   = [{'ranks': [[node, [0], []]], 'c': 1, 'g': 0},
             {'ranks': [[node, [3, 5], [1]]], 'c': 2, 'g': 1},
             {'ranks': [[node, [0], []], [node, [1], []]], 'c': 1, 'g': 0}]
    if other:
        out.append({'ranks': [[node, [0], []], [other[0], [0], []]],
                    'c': 1, 'g': 0})
        out.append({'ranks': [[other[-1], [0], []], [node, [0], []]],
                    'c': 1, 'g': 0})
    for pl in out:
        pl.update({'pattern': [len(pl['ranks'])], 'style': 'low',
                   'order': 'grouped', 'hosts': True})
    return out


def host_cases():
    for names in NAME_SETS:
        for agent in names:
            for node in names + ['localhost']:
                for pl in host_placements(names, node):
                    yield names, agent, node, pl


def host_judge(part, v, pl, obs, lm, agent, node, sbox, via, replay):
    cls, bad, r = judge(v, pl, obs, sbox, lm)
    rel = name_relation(agent, node) if v['reader'] == 'fork' else \
          'task-node-vs-agent-node:any'
    part.outcome(('hosts', via, v['id'], len(pl['ranks']), pl['c'],
                  name_relation(agent, node), cls))
    for clause in sorted(set(c for c, _ in bad)):
        part.violation('%s|%s|%s%s/%s%s'
                       % (clause, site_of(v, clause), v['name'],
                          '(via find_launcher)' if via else '',
                          'multi-rank+' if len(pl['ranks']) > 1 else '', rel),
                       {'what'      : '; '.join(t for c, t in bad
                                                if c == clause),
                        'agent node': agent,
                        'placement' : pl['ranks'],
                        'order'     : list(via) if via else None,
                        'command'   : obs[2]}, replay)


def hosts_pass(world, part, order=None, only=None):
    '''
    every agent node of every name set x every task node: the single rank
    launchers alone (order None), or whatever find_launcher of the bare
    resource manager with the shipped `order` returns
    '''
    n = 0
    cases = list(host_cases()) if only is None else [only]
    rms   = dict()
    for names, agent, node, pl in cases:
        with Hostname(agent):
            if order is None:
                for vid in HOST_VARIANTS:
                    v  = VAR_BY_ID[vid]
                    lm = world.launcher(v)
                    world.clean(world.sbox)
                    obs = drive(lm, make_task(v, pl, world.sbox), world.sbox)
                    n  += 1
                    host_judge(part, v, pl, obs, lm, agent, node, world.sbox,
                               None, {'kind': 'hosts', 'order': None,
                                      'case': [names, agent, node, pl]})
                continue

            if agent not in rms:
                rms[agent] = bare_rm(world, order)
                refs = collections.OrderedDict()
                for name in order:
                    refs[name] = world.launcher(VAR_BY_ID[ORDER_VARIANT[name]])
                rms[agent] = (rms[agent], refs)
            rm, refs = rms[agent]
            old = any(VAR_BY_ID[ORDER_VARIANT[x]].get('slots') == 'old'
                      for x in order)
            for kind in TASK_KINDS:
                task = make_task({'slots': 'old' if old else None,
                                  'lm_info': {}}, pl, world.sbox, **kind)
                expect = None
                for name, lm in refs.items():
                    if lm.can_launch(copy.deepcopy(task))[0]:
                        expect = name
                        break
                launcher, lname = rm.find_launcher(task)
                n += 1
                replay = {'kind': 'hosts', 'order': list(order),
                          'case': [names, agent, node, pl], 'task_kind': kind}
                if lname != expect:
                    part.violation('first-accepting|ResourceManager.'
                                   'find_launcher|host-names',
                                   {'what': 'returned %s, first accepting in '
                                            '%s is %s' % (lname, list(order),
                                                          expect),
                                    'agent node': agent,
                                    'placement': pl['ranks']}, replay)
                    continue
                part.outcome(('hosts-find', order, name_relation(agent, node),
                              len(pl['ranks']), kind['mpi'],
                              bool(kind['exe']), lname))
                if lname not in SINGLE_RANK:
                    continue
                v = VAR_BY_ID[ORDER_VARIANT[lname]]
                world.clean(world.sbox)
                obs = drive(launcher, task, world.sbox)
                host_judge(part, v, pl, obs, launcher, agent, node,
                           world.sbox, order, replay)
    for rm, refs in rms.values():
        for lm in rm._launchers.values():
            retire(lm)
    part.cover(evaluations=n, **{'host_name_cases_find' if order
                                 else 'host_name_cases': n})


# ------------------------------------------------------------------------------
#
def merge_flavours(results):
    '''
    one key per root cause: variants which fail the same clause at the same
    site with the same trigger share a key; a launch method is named without
    flavours if all its flavours fail
    '''
    groups = collections.OrderedDict()
    others = list()
    for res in results:
        keep = list()
        for key, detail, replay in res.get('violations', []):
            m = re.match(r'^([^|]+)\|([^|]+)\|([A-Z_]+)\{([^}]*)\}/(.*)$', key)
            if not m:
                keep.append((key, detail, replay))
                continue
            clause, site, name, tag, trig = m.groups()
            groups.setdefault((clause, site, trig), list()).append(
                    (name, tag, detail, replay))
        res['violations'] = keep
        others.append(res)
    merged = list()
    for (clause, site, trig), items in groups.items():
        items.sort(key=lambda x: [v['id'] for v in VARIANTS]
                                 .index('%s{%s}' % (x[0], x[1])))
        labels = list()
        for name in sorted(set(x[0] for x in items)):
            tags = sorted(set(x[1] for x in items if x[0] == name))
            if set(tags) == set(TAGS_OF[name]):
                labels.append(name)
            else:
                labels.append('%s{%s}' % (name, ','.join(tags)))
        name, tag, detail, replay = items[0]
        detail = dict(detail, variants=['%s{%s}' % (x[0], x[1])
                                        for x in items])
        merged.append(('%s|%s|%s/%s' % (clause, site, '+'.join(labels), trig),
                       detail, replay))
    return others, merged


def run(ctx):

    global _placements, _scratch, _quick

    ctx.level   = 'exploration'
    _scratch    = ctx.scratch
    _quick      = ctx.quick
    _placements = gen_placements()

    jobs = list()
    for v in VARIANTS:
        jobs.append(('single', v['id'], None))
    n_hist = 0
    for v in VARIANTS:
        pls   = placements_for(v)
        hists = history_indices(pls, ctx.quick)
        n_hist = max(n_hist, len(hists))
        size  = 64 if ctx.quick else 52
        for lo in range(0, len(hists), size):
            jobs.append(('pairs', v['id'], hists[lo:lo + size]))
    n_rep = 0
    if not ctx.quick:
        for v in VARIANTS:
            pls   = placements_for(v)
            hq    = history_indices(pls, True)
            trips = [[a, b] for a in hq for b in hq]
            n_rep = max(n_rep, len(hq))
            size  = 181
            for lo in range(0, len(trips), size):
                jobs.append(('triples', v['id'], trips[lo:lo + size]))
    orders  = shipped_orders()
    skipped = list()
    for order in orders:
        if any(name not in ORDER_VARIANT for name in order):
            skipped.append(order)
            continue
        jobs.append(('find', order, None))
        if order[0] in SINGLE_RANK or order[-1] in SINGLE_RANK:
            jobs.append(('hosts', order, None))
    jobs.append(('hosts', None, None))

    # long jobs first
    jobs.sort(key=lambda j: {'triples': 0, 'pairs': 1, 'find': 2,
                             'single': 3, 'hosts': 4}[j[0]])
    results = list(seams.pmap(_job, jobs, ctx.workers))
    results, merged = merge_flavours(results)
    for res in results:
        ctx.merge(res)
    for key, detail, replay in merged:
        ctx.violation(key, detail, replay)

    n_pl = len(_placements)
    ctx.set(exhaustive=True,
            launcher_variants=len(VARIANTS),
            placements=n_pl,
            orders=len(orders) - len(skipped),
            rule='%d launcher variants (method x flavour x mpt/rsh/ccmrun/'
                 'dplace/omplace x rank file/host file forms x srun version/'
                 'exact/traverse x PRTE DVM counts) x %d placements: all '
                 'compositions of 1-4 ranks over 1-3 nodes x 2-3 node '
                 'choices/orders x 1-2 cores/rank x 0-2 GPUs/rank x '
                 '(contiguous | scattered, node dependent) indices, 4 '
                 'interleaved rank orders, 42x42 / 43x43 / 43x2 large '
                 'placements (+17 shared-GPU resource set placements for '
                 'JSRUN); each alone on a new launcher, and as last task '
                 'after %s on one launcher object%s; find_launcher: every '
                 'launch method order of the shipped resource configs x all '
                 'placements x 4 task kinds (MPI flag, executable or not), '
                 'and the command of the launcher found for the task as the '
                 'configuration presents it (resource sets if JSRUN is '
                 'configured); host names: %d name sets with proper-prefix '
                 'and FQDN/short names x agent on each name x task on each '
                 'name or localhost x 5 one- and two-rank placements, for '
                 'FORK/SSH/RSH alone and through find_launcher of every '
                 'shipped order which starts or ends with one of them.  '
                 'distinct = distinct (variant, placement shape, result '
                 'class)'
                 % (len(VARIANTS), n_pl,
                    'each of %d representative earlier placements (every '
                    'rank/node pattern once, cycling through all cores x '
                    'gpus x index style combinations and node choices, plus '
                    'all large, interleaved and shared-GPU ones)' % n_hist
                    if ctx.quick else 'every other placement (all ordered '
                    'pairs)',
                    '' if ctx.quick else ', and as last of every ordered '
                    'triple of the %d representative placements' % n_rep,
                    len(NAME_SETS)))
    if skipped:
        ctx.notes.append('orders with launch methods outside the anchors of '
                         'C09 are not run: %s' % [list(o) for o in skipped])
    ctx.set(distinct_nontrivial=len(ctx.outcomes))
    ctx.assume('the readers encode the launchers\' documented command line '
               'semantics (module docstring and Reader docstrings); no MPI '
               'or batch system is executed',
               'lm_info is what init_from_scratch stores for the flavour; '
               'launchers are created by the real factory from that registry '
               'entry',
               'MPT: only node set and total process count are read; IBRUN: '
               'only the node of the first host list entry; JSRUN without ERF'
               ' cannot name hosts: only counts are read')


# ------------------------------------------------------------------------------
#
def replay(ctx, data):

    global _placements, _scratch, _task_cache
    _task_cache = None
    r = data['replay']
    _scratch    = ctx.scratch
    _placements = gen_placements()
    world = World(ctx.scratch)
    part  = report.Part()
    rc    = 0
    try:
        if r['kind'] == 'hosts':
            names, agent, node, pl = r['case']
            if r.get('task_kind'):
                TASK_KINDS[:] = [r['task_kind']]
            print('agent node:', agent, ' (name set %s)' % names)
            print('placement :', pl['ranks'])
            print('order     :', r['order'] or 'single rank launchers alone')
            hosts_pass(world, part, tuple(r['order']) if r['order'] else None,
                       only=(names, agent, node, pl))
            for k, (d, _) in part.violations.items():
                print('command   :', d.get('command'))

        elif r['kind'] == 'find':
            pl = r['placement']
            TASK_KINDS[:] = [r['task_kind']]
            find_pass(world, part, tuple(r['order']), None, only=pl)
            print('order     :', r['order'])
            print('placement :', pl['ranks'])
            print('task kind :', r['task_kind'])

        else:
            v   = VAR_BY_ID[r['variant']]
            pl  = r['placement']
            pls = list(r.get('history', [])) + [pl]
            t   = len(pls) - 1
            print('variant   :', v['id'])
            print('lm_info   :', json.dumps(v['lm_info'], default=str))
            lm = world.launcher(v)
            world.clean(world.sbox)
            fresh = drive(lm, make_task(v, pl, world.sbox), world.sbox)
            print('placement :', pl['ranks'])
            print('-- on a new launcher')
            show(fresh)
            cls, bad, rd = judge(v, pl, fresh, world.sbox, lm)
            if rd is not None:
                print('reader    :', rd.as_dict())
            for clause, text in bad:
                part.violation('%s|%s' % (clause, site_of(v, clause)),
                               {'what': text})
            if r['kind'] == 'history':
                hist = list(range(t))
                for h in hist:
                    print('earlier   :', pls[h]['ranks'])
                obs = run_history(world, v, pls, hist, t)
                print('-- after the earlier tasks, same launcher')
                show(obs)
                what, text = obs_diff(fresh, obs)
                if what:
                    part.violation('history-dependence|%s'
                                   % site_of(v, 'history'), {'what': text})
    finally:
        world.close()
    for k, (d, _) in part.violations.items():
        print('VIOLATED', k, '::', d['what'])
        rc = 1
    if not rc:
        print('no clause violated')
    return rc


def show(obs):
    status, detail, cmd, files = obs
    if status != 'command':
        print('result    : %s %s %s' % (status, detail,
                                        files.get('error', '')))
        return
    print('command   :', cmd)
    for k, text in files.items():
        print('file %-18s: %r' % (k, text[:600]))
