'''
C20 part (c) -- the per-mode dispatchers of the raptor `Worker`.

Engine C: a bare `Worker` (no constructor: `_log/_prof` no-op, `_modes`
registered through the real `register_mode`, `_task_env` computed like the
constructor does) is handed every sequence of two requests from a bounded
alphabet:

  modes    : func (callable found on the worker, async callable, serialized
             PythonTask), meth, eval, exec, proc, shell
  payloads : return a value / print to stdout / print to stderr / raise /
             print then raise / set, change, delete an environment variable /
             request-level `environment` / replace sys.stdout, sys.stderr /
             leave the interpreter (sys.exit)

All requests of the python modes are generated from *one* payload table (a
list of expressions plus a value expression), so that the expectation is
written once and is independent of the mode.

Oracle (property text): `(out, err, ret, val, exc)` reports the value and the
captured output with `ret == 0` exactly when the call succeeded, a non-zero
code and the exception otherwise; before the next request runs the worker's
environment variables -- `os.environ` as a mapping and the environment of the
process itself, i.e. what libc `getenv` and every child process see -- and
`sys.stdout` / `sys.stderr` are what they were before the first request.
The process environment is read through libc's `environ`; a difference is
confirmed with a real child process (`/usr/bin/env`) before it is reported.
'''

import io
import os
import sys
import copy
import ctypes
import signal
import asyncio
import itertools
import subprocess

from rpmc import seams, report

rp = seams.import_rp()

import radical.utils as ru                                         # noqa: E402
from radical.pilot.raptor import worker as wk_mod                  # noqa: E402

# importing the raptor / agent code may install SIGTERM/SIGINT handlers which
# swallow the signal: pool workers must stay terminable
signal.signal(signal.SIGTERM, signal.SIG_DFL)
signal.signal(signal.SIGINT,  signal.default_int_handler)

Worker = wk_mod.Worker

MODES = {'func' : rp.TASK_FUNCTION,
         'meth' : rp.TASK_METHOD,
         'eval' : rp.TASK_EVAL,
         'exec' : rp.TASK_EXEC,
         'proc' : rp.TASK_PROC,
         'shell': rp.TASK_SHELL}

SITE  = {'func' : 'Worker._dispatch_func',
         'meth' : 'Worker._dispatch_func',
         'eval' : 'Worker._dispatch_eval',
         'exec' : 'Worker._dispatch_exec',
         'proc' : 'Worker._dispatch_proc',
         'shell': 'Worker._dispatch_shell'}

KEEP  = 'C20_KEEP'        # variable which exists in the worker's environment
NEW   = 'C20_NEW'         # variable a request creates
DVAR  = 'C20_DESCR'       # variable from the request's `environment`

RAISE = '(_ for _ in ()).throw(ValueError("boom"))'

# ------------------------------------------------------------------------------
# payload table for the python modes: name -> (expressions, value expression,
# expectation).  expectation: ok (True / False / 'escape'), val, out, err
#
PY_PAYLOADS = [
    ('ret',      [],                                          '6 * 7',
     dict(ok=True, val=42, out='', err='')),
    ('ret-str',  [],                                          '"a" + "b"',
     dict(ok=True, val='ab', out='', err='')),
    ('out',      ['print("hello-out")'],                      '"v"',
     dict(ok=True, val='v', out='hello-out\n', err='')),
    ('err',      ['print("hello-err", file=sys.stderr)'],     '7',
     dict(ok=True, val=7, out='', err='hello-err\n')),
    ('out+err',  ['print("o1")', 'print("e1", file=sys.stderr)',
                  'print("o2")'],                             'None',
     dict(ok=True, val=None, out='o1\no2\n', err='e1\n')),
    ('raise',    [RAISE],                                     '1',
     dict(ok=False, exc=('ValueError', 'boom'))),
    ('out-raise', ['print("partial")', RAISE],                '1',
     dict(ok=False, exc=('ValueError', 'boom'))),
    ('env-set',  ['os.environ.__setitem__("%s", "by-request")' % NEW],
                                                     'os.environ.get("%s")' % NEW,
     dict(ok=True, val='by-request', out='', err='')),
    ('env-mod',  ['os.environ.__setitem__("%s", "changed")' % KEEP], '0',
     dict(ok=True, val=0, out='', err='')),
    ('env-del',  ['os.environ.pop("%s", None)' % KEEP],          '0',
     dict(ok=True, val=0, out='', err='')),
    ('env-set-raise', ['os.environ.__setitem__("%s", "by-request")' % NEW,
                       RAISE],                                '1',
     dict(ok=False, exc=('ValueError', 'boom'))),
    ('descr-env', [],                               'os.environ.get("%s")' % DVAR,
     dict(ok=True, val=None, out='', err='', anyval=True,
          env={DVAR: 'from-description'})),
    ('stdout-repl', ['print("before")',
                     'setattr(sys, "stdout", open(os.devnull, "w"))'], '3',
     dict(ok=True, val=3, out='before\n', err='')),
    ('stderr-repl', ['setattr(sys, "stderr", open(os.devnull, "w"))'], '3',
     dict(ok=True, val=3, out='', err='')),
    ('stdout-repl-raise', ['setattr(sys, "stdout", open(os.devnull, "w"))',
                           RAISE],                            '1',
     dict(ok=False, exc=('ValueError', 'boom'))),
    ('sys-exit', ['sys.exit(3)'],                             '1',
     dict(ok='escape')),
]

# forms of the python modes
PY_FORMS = ['func/attr', 'func/async', 'func/pytask', 'meth', 'eval', 'exec']

# payloads for proc / shell: name -> (shell text, expectation)
SH_PAYLOADS = [
    ('ret',      'true',                  dict(ok=True,  out='', err='')),
    ('out',      'echo hello-out',        dict(ok=True,  out='hello-out\n',
                                               err='')),
    ('err',      'echo hello-err >&2',    dict(ok=True,  out='',
                                               err='hello-err\n')),
    ('fail',     'exit 3',                dict(ok=False)),
    ('out-fail', 'echo partial; exit 1',  dict(ok=False)),
    ('descr-env', 'echo "[$%s]"' % DVAR,  dict(ok=True,
                                               out='[from-description]\n',
                                               err='',
                                               env={DVAR: 'from-description'})),
    ('show-descr', 'echo "[$%s]"' % DVAR, dict(ok=True, out='[]\n', err='')),
    ('env-set',  'export %s=x; true' % NEW, dict(ok=True, out='', err='')),
    ('noexe',    None,                    dict(ok=False)),
]


def specs():
    out = list()
    for form in PY_FORMS:
        for name, exprs, val, exp in PY_PAYLOADS:
            out.append({'form': form, 'mode': form.split('/')[0],
                        'payload': name})
    for mode in ('proc', 'shell'):
        for name, text, exp in SH_PAYLOADS:
            out.append({'form': mode, 'mode': mode, 'payload': name})
    return out


def spec_name(spec):
    return '%s:%s' % (spec['form'], spec['payload'])


# ------------------------------------------------------------------------------
# views of the environment
#
_libc    = ctypes.CDLL(None)
_ORIG    = os.environ          # the one and only os._Environ of this process
_BASE    = None                # content of the worker's environment


def c_environ():
    '''the environment of this process as libc (and every child) sees it'''
    env = ctypes.POINTER(ctypes.c_char_p).in_dll(_libc, 'environ')
    out = dict()
    i   = 0
    while env[i] is not None:
        k, _, v = env[i].partition(b'=')
        out[k.decode('utf8', 'replace')] = v.decode('utf8', 'replace')
        i += 1
    return out


def child_environ():
    '''C20_* variables a child process of the worker inherits'''
    p = subprocess.run(['/usr/bin/env'], stdout=subprocess.PIPE,
                       stderr=subprocess.DEVNULL, close_fds=True)
    out = dict()
    for line in p.stdout.decode('utf8', 'replace').split('\n'):
        if line.startswith('C20_') and '=' in line:
            k, _, v = line.partition('=')
            out[k] = v
    return out


def reset_env():
    '''
    give the process the pristine worker environment again: the dispatchers
    rebind `os.environ`, so the original mapping object is put back first
    '''
    global _BASE
    os.environ = _ORIG
    if _BASE is None:
        for k in [k for k in _ORIG if k.startswith('C20_')]:
            del _ORIG[k]
        _ORIG[KEEP] = 'keep'
        _BASE = dict(_ORIG)
    for k in list(_ORIG.keys()):
        if k not in _BASE:
            del _ORIG[k]                        # unsetenv
    for k, v in _BASE.items():
        if _ORIG.get(k) != v:
            _ORIG[k] = v                        # putenv
    cenv = c_environ()
    for k in cenv:
        if k not in _BASE:
            os.unsetenv(k)
    assert dict(os.environ) == _BASE
    assert c_environ()      == _BASE, 'cannot reset the process environment'


class Views(object):

    def __init__(self):
        self.mapping = dict(os.environ)
        self.process = c_environ()
        self.stdout  = sys.stdout
        self.stderr  = sys.stderr


def env_diff(now, ref):
    d = dict()
    for k in sorted(set(now) | set(ref)):
        if now.get(k) != ref.get(k):
            d[k] = [ref.get(k), now.get(k)]
    return d


# ------------------------------------------------------------------------------
#
def make_worker():
    w = Worker.__new__(Worker)
    w._log   = seams.null()
    w._prof  = seams.null()
    w._uid   = 'worker.0000'
    w._rank  = 0
    w._sbox  = os.getcwd()
    w._modes = dict()
    # same registrations as the constructor
    w.register_mode(rp.TASK_FUNC,  w._dispatch_func)
    w.register_mode(rp.TASK_METH,  w._dispatch_meth)
    w.register_mode(rp.TASK_EVAL,  w._dispatch_eval)
    w.register_mode(rp.TASK_EXEC,  w._dispatch_exec)
    w.register_mode(rp.TASK_PROC,  w._dispatch_proc)
    w.register_mode(rp.TASK_SHELL, w._dispatch_shell)
    w._task_env = {k: v for k, v in os.environ.items()
                        if not k.startswith('RP_')}
    return w


_fn_cache = dict()


def _py_callable(name, is_async):
    key = (name, is_async)
    if key not in _fn_cache:
        exprs, val = [(e, v) for n, e, v, _ in PY_PAYLOADS if n == name][0]
        src = '%sdef c20_payload():\n' % ('async ' if is_async else '')
        for e in exprs:
            src += '    %s\n' % e
        src += '    return %s\n' % val
        ns = {'os': os, 'sys': sys, 'io': io}
        exec(src, ns)                                             # noqa: S102
        _fn_cache[key] = ns['c20_payload']
    return _fn_cache[key]


def _descr(d):
    td = rp.TaskDescription(d)
    td.verify()
    return td.as_dict()


def build_task(w, spec, idx):
    '''the request as the worker receives it (after msgpack)'''

    form, name = spec['form'], spec['payload']
    uid = 'req.%04d' % idx

    if spec['mode'] in ('proc', 'shell'):
        text, exp = [(t, e) for n, t, e in SH_PAYLOADS if n == name][0]
        env = dict(exp.get('env') or {})
        if spec['mode'] == 'proc':
            if text is None:
                d = {'mode': rp.TASK_PROC, 'executable': '/nonexistent/c20.exe',
                     'arguments': ['x y']}
            else:
                d = {'mode': rp.TASK_PROC, 'executable': '/bin/sh',
                     'arguments': ['-c', text]}
        else:
            d = {'mode': rp.TASK_SHELL,
                 'command': text if text is not None
                                 else '/nonexistent/c20.exe "x y"'}
        d['environment'] = env
        d['uid'] = uid
        return seams.wire({'uid': uid, 'description': _descr(d)}), exp

    exprs, val, exp = [(e, v, x) for n, e, v, x in PY_PAYLOADS
                                 if n == name][0]
    env = dict(exp.get('env') or {})

    if form == 'eval':
        code = '[%s][-1]' % ', '.join(list(exprs) + [val])
        d = {'mode': rp.TASK_EVAL, 'code': code}

    elif form == 'exec':
        code = '\n'.join(['import os, sys, io'] + list(exprs) +
                         ['return %s' % val])
        d = {'mode': rp.TASK_EXEC, 'code': code}

    elif form in ('func/attr', 'func/async', 'meth'):
        fn = _py_callable(name, form == 'func/async')
        setattr(w, 'c20_payload', fn)
        d = {'mode': rp.TASK_FUNCTION, 'function': 'c20_payload'}

    elif form == 'func/pytask':
        fn = _py_callable(name, False)
        d = {'mode': rp.TASK_FUNCTION, 'function': rp.PythonTask(fn)}

    else:
        raise ValueError(form)

    d['environment'] = env
    d['uid'] = uid
    dd = _descr(d)
    if form == 'meth':
        # the schema of TaskDescription has no `method` key (verify() asks
        # for `function` in TASK_METHOD mode); the dispatcher reads `method`
        dd['mode']   = rp.TASK_METHOD
        dd['method'] = dd['function']
        dd['function'] = None
    return seams.wire({'uid': uid, 'description': dd}), exp


def call(w, task):
    mode = task['description']['mode']
    disp = w.get_dispatcher(mode)
    try:
        if mode in (rp.TASK_FUNC, rp.TASK_METH):
            res = asyncio.run(disp(task))
        else:
            res = disp(task)
        return 'returned', res
    except Exception as e:
        return 'raised', e
    except SystemExit as e:
        return 'escaped', e


def _text(x):
    if isinstance(x, bytes):
        return x.decode('utf8', 'replace')
    return x


# ------------------------------------------------------------------------------
#
def run_seq(part, seq, verbose=False):

    reset_env()
    out0, err0 = sys.stdout, sys.stderr
    cwd0 = os.getcwd()
    w    = make_worker()
    ref  = Views()
    tenv0 = dict(w._task_env)     # what proc / shell requests start from
    replay = {'part': 'c', 'seq': seq}
    hist = list()
    obs  = list()
    prev = {'map': dict(), 'proc': dict(),   # differences already reported
            'stdout': sys.stdout, 'stderr': sys.stderr}

    def viol(clause, site, trigger, what):
        part.violation('%s|%s|%s' % (clause, site, trigger),
                       {'what': what, 'sequence': [spec_name(s) for s in seq],
                        'history': list(hist)}, replay)

    try:
        for idx, spec in enumerate(seq):
            task, exp = build_task(w, spec, idx)
            site = SITE[spec['mode']]
            name = spec['payload']
            pos  = 'first' if idx == 0 else 'after:%s' % seq[idx - 1]['payload']
            how, res = call(w, task)
            now  = Views()

            # -- the report --------------------------------------------------
            if how == 'escaped':
                o = 'escapes:%s' % type(res).__name__
            elif how == 'raised':
                o = 'refused:%s' % type(res).__name__
            else:
                try:
                    out, err, ret, val, exc = res
                except Exception:
                    viol('report-shape', site, 'any',
                         'dispatcher returned %r' % (res,))
                    out, err, ret, val, exc = None, None, None, None, (None,
                                                                      None)
                out, err = _text(out), _text(err)
                e0 = exc[0] if isinstance(exc, (list, tuple)) and exc else exc
                o  = 'ret=%s,exc=%s' % (ret, str(e0).split('(')[0]
                                             if e0 else None)
                if exp['ok'] is True:
                    if not (isinstance(ret, int) and ret == 0) or e0:
                        viol('exit-code', site, 'failure-reported-for-success',
                             '%s succeeded but reports ret=%r exc=%r err=%r'
                             % (spec_name(spec), ret, exc, err))
                    else:
                        if spec['mode'] not in ('proc', 'shell') and \
                           not exp.get('anyval') and val != exp['val']:
                            viol('return-value', site, 'value',
                                 '%s: value %r, expected %r'
                                 % (spec_name(spec), val, exp['val']))
                        if out != exp['out']:
                            viol('captured-stdout', site, 'printed',
                                 '%s: stdout %r, expected %r'
                                 % (spec_name(spec), out, exp['out']))
                        if err != exp['err']:
                            viol('captured-stderr', site, 'printed',
                                 '%s: stderr %r, expected %r'
                                 % (spec_name(spec), err, exp['err']))
                elif exp['ok'] is False:
                    if not isinstance(ret, int) or isinstance(ret, bool) \
                       or ret == 0:
                        viol('exit-code', site, 'success-reported-for-failure',
                             '%s failed but reports ret=%r (exc=%r)'
                             % (spec_name(spec), ret, exc))
                    if exp.get('exc'):
                        if not e0 or any(x not in str(e0) for x in exp['exc']):
                            viol('exception-reported', site, 'raises',
                                 '%s raised %s but reports exc=%r'
                                 % (spec_name(spec), exp['exc'], exc))
                else:
                    # the payload left the interpreter: whatever is reported,
                    # it must not look like success
                    if isinstance(ret, int) and ret == 0 and not e0:
                        viol('exit-code', site, 'success-reported-for-failure',
                             '%s did not complete but reports success'
                             % spec_name(spec))
            hist.append('%s -> %s' % (spec_name(spec), o))
            obs.append(o)

            # -- the base environment of proc / shell requests is the worker's
            d_tenv = env_diff(dict(w._task_env), tenv0)
            if d_tenv and not prev.get('tenv') == d_tenv:
                viol('env-restored', site, 'task-env',
                     'after %s the environment which proc/shell requests '
                     'start from differs from before the first request: %s'
                     % (spec_name(spec), d_tenv))
            prev['tenv'] = d_tenv

            # -- restoration before the next request runs ------------------------
            # (a difference is attributed to the request after which it shows
            # up first)
            d_map_all  = env_diff(now.mapping, ref.mapping)
            d_proc_all = env_diff(now.process, ref.process)
            d_map  = {k: v for k, v in d_map_all.items()
                           if prev['map'].get(k) != v}
            d_proc = {k: v for k, v in d_proc_all.items()
                           if prev['proc'].get(k) != v}
            prev['map'], prev['proc'] = d_map_all, d_proc_all
            if d_map:
                viol('env-restored', site, 'mapping',
                     'os.environ after %s differs from before the first '
                     'request: %s' % (spec_name(spec), d_map))
            if d_proc:
                seen = child_environ()
                conf = {k: seen.get(k) for k in d_proc}
                if all(seen.get(k) == v[1] for k, v in d_proc.items()):
                    viol('env-restored', site, 'process-env',
                         'after %s the environment of the worker process (libc '
                         'environ; confirmed by a child process running '
                         '`env`: %s) differs from before the first request: '
                         '{name: [before, after]} = %s (os.environ is now a %s)'
                         % (spec_name(spec), conf, d_proc,
                            type(os.environ).__name__))
                else:
                    raise RuntimeError('libc environ and child disagree: %s %s'
                                       % (d_proc, seen))
                obs[-1] += ',procenv:%s' % ','.join(sorted(d_proc))
            strig = 'stream-replaced-by-payload' if 'repl' in name else \
                    'payload-leaves-interpreter' if name == 'sys-exit' else \
                    'any-payload'
            if now.stdout is not ref.stdout and \
               now.stdout is not prev['stdout']:
                viol('stdout-restored', site, strig,
                     'sys.stdout after %s is %r' % (spec_name(spec),
                                                    now.stdout))
            if now.stderr is not ref.stderr and \
               now.stderr is not prev['stderr']:
                viol('stderr-restored', site, strig,
                     'sys.stderr after %s is %r' % (spec_name(spec),
                                                    now.stderr))
            prev['stdout'], prev['stderr'] = now.stdout, now.stderr
            if os.getcwd() != cwd0:
                os.chdir(cwd0)

            if verbose:
                print('  %-24s -> %s' % (spec_name(spec), o))
                if how == 'returned':
                    print('      out=%r err=%r ret=%r val=%r' %
                          (out, (err or '')[:80], ret, val))
                print('      os.environ: %s %s; process env diff: %s; stdout '
                      'restored: %s' % (type(os.environ).__name__, d_map or
                                        'restored', d_proc or 'none',
                                        now.stdout is ref.stdout))
    finally:
        sys.stdout, sys.stderr = out0, err0
        os.chdir(cwd0)
        reset_env()

    part.outcome(('c', tuple(spec_name(s) for s in seq), tuple(obs)))
    return obs


# ------------------------------------------------------------------------------
#
_seqs = None


def _job(rng):
    lo, hi = rng
    part = report.Part()
    n = 0
    for seq in _seqs[lo:hi]:
        run_seq(part, seq)
        n += 1
    part.cover(evaluations=n, dispatcher_sequences=n,
               dispatcher_calls=sum(len(s) for s in _seqs[lo:hi]))
    if lo == 0:
        for seq in _seqs[:1]:
            part.sample({'part': 'c', 'sequence': [spec_name(s) for s in seq]})
    return part.dump()


def sequences(quick):
    sp = specs()
    seqs = [[s] for s in sp]
    if quick:
        # second request: every mode, the payloads which observe or depend on
        # what the first left behind
        second = [s for s in sp
                  if s['payload'] in ('ret', 'out', 'raise', 'descr-env',
                                      'env-set', 'stdout-repl', 'fail')
                  and s['form'] not in ('func/async', 'func/pytask')]
    else:
        second = sp
    seqs += [[a, b] for a, b in itertools.product(sp, second)]
    return seqs


def run(ctx):
    global _seqs
    _seqs = sequences(ctx.quick)
    chunk = max(1, len(_seqs) // (ctx.workers * 6))
    jobs  = [(lo, min(lo + chunk, len(_seqs)))
             for lo in range(0, len(_seqs), chunk)]
    for res in seams.pmap(_job, jobs, ctx.workers):
        ctx.merge(res)
    ctx.set(dispatcher_request_alphabet=len(specs()))
    return len(_seqs)


def replay(ctx, r):
    part = report.Part()
    print('part (c): dispatcher sequence on a bare Worker')
    run_seq(part, r['seq'], verbose=True)
    for k, (d, _) in part.violations.items():
        print('VIOLATED', k, '::', d['what'])
    return 1 if part.violations else 0
