'''
C01 - C04 (and the scheduler part of C08): the agent scheduler.

Engine B' (rpmc.schedworld): the real `_schedule_tasks()` loop of a bare
`Continuous` scheduler, all environment choices (arrivals, completions,
cancel requests split into their three observable steps, named-env
registration) at all choice points, with state pruning at loop boundaries.
Plus engine C for the application-level slot finder (NodeList/Node).

One exploration, several oracles; each property reports only its own clauses.
'''

import copy
import itertools

from rpmc import seams, report, schedworld as sw

rp = seams.import_rp()

import radical.utils as ru                                         # noqa: E402
from radical.pilot import states    as rps                         # noqa: E402
from radical.pilot import constants as rpc                         # noqa: E402
from radical.pilot.agent.scheduler.continuous import Continuous    # noqa: E402

EPS = 1e-9


# ------------------------------------------------------------------------------
# reading slots (independent of rp's converters)
#
def read_ro(x):
    if isinstance(x, bool):
        raise ValueError(x)
    if isinstance(x, int):
        return (x, 1.0)
    if isinstance(x, dict):
        return (x['index'], x['occupation'])
    if isinstance(x, (list, tuple)) and len(x) == 2:
        return (x[0], x[1])
    raise ValueError('unreadable resource entry %r' % (x,))


def read_slots_jsrun(slots):
    '''ContinuousJsrun: one slot = one resource set; cores is a list of core
    lists (one per rank), gpus the set's GPU list repeated per rank'''
    out = list()
    for s in slots or []:
        cores = sorted(set(c for lst in s.get('cores') or [] for c in lst))
        gpus  = sorted(set(g for lst in s.get('gpus')  or [] for g in lst))
        out.append({'node_index': s['node_index'],
                    'node_name' : s['node_name'],
                    'cores'     : [(c, 1.0) for c in cores],
                    'gpus'      : [(g, 1.0) for g in gpus],
                    'lfs'       : s.get('lfs') or 0,
                    'mem'       : s.get('mem') or 0,
                    'n_ranks'   : len(s.get('cores') or [])})
    return out


def read_slots(slots):
    out = list()
    for s in slots or []:
        out.append({'node_index': s['node_index'],
                    'node_name' : s['node_name'],
                    'cores'     : [read_ro(c) for c in s.get('cores') or []],
                    'gpus'      : [read_ro(g) for g in s.get('gpus')  or []],
                    'lfs'       : s.get('lfs') or 0,
                    'mem'       : s.get('mem') or 0})
    return out


# ------------------------------------------------------------------------------
# A.2 fits(task, map): whole units only
#
def free_map(initial, held):
    '''per node free whole cores / gpus from the ledger'''
    m = dict()
    for n in initial:
        m[n['index']] = {
            'cores': set(i for i, c in enumerate(n['cores'])
                           if c is not rpc.DOWN),
            'gpus' : set(i for i, g in enumerate(n['gpus'])
                           if g is not rpc.DOWN)}
    for slots in held.values():
        for s in slots:
            node = m.get(s['node_index'])
            if node is None:
                continue
            for i, _ in s['cores']: node['cores'].discard(i)
            for i, _ in s['gpus'] : node['gpus'].discard(i)
    return m


def fits(td, fmap):
    r = td['ranks']
    k = td['cores_per_rank'] or 1
    g = td['gpus_per_rank']
    p = td['ranks_per_node'] or 10 ** 6
    if g != int(g):
        raise ValueError('fits() is defined for whole GPUs only')
    g = int(g)
    caps = list()
    for node in fmap.values():
        cap = len(node['cores']) // k
        if g:
            cap = min(cap, len(node['gpus']) // g)
        caps.append(min(cap, p))
    if r == 1:
        return max(caps or [0]) >= 1
    return sum(caps) >= r


def fits_idle(td, layout):
    '''
    does the request fit the *idle* pilot (scattered placement)?  Plain
    arithmetic on the layout; covers fractional GPUs, lfs and mem.
    '''
    r = td['ranks']
    if r < 1:
        return False
    k = max(td['cores_per_rank'] or 0, 1)
    g = td['gpus_per_rank']
    if g > 1 and g != int(g):
        return False                      # documented: cannot share GPUs > 1
    ucores = layout['cores'] - len(layout.get('blocked_cores', []))
    ugpus  = layout.get('gpus', 0) - len(layout.get('blocked_gpus', []))
    cap = ucores // k
    if g >= 1:
        cap = min(cap, ugpus // int(g))
    elif g > 0:
        cap = min(cap, ugpus * int(1.0 / g + EPS))
    if td['lfs_per_rank']:
        cap = min(cap, layout.get('lfs', 0) // td['lfs_per_rank'])
    if td['mem_per_rank']:
        cap = min(cap, layout.get('mem', 0) // td['mem_per_rank'])
    if td['ranks_per_node']:
        cap = min(cap, td['ranks_per_node'])
    if r == 1:
        return cap >= 1
    return cap * layout['nodes'] >= r


# ------------------------------------------------------------------------------
#
class SchedOracle(object):

    def __init__(self, scenario, part):
        self.scn       = scenario
        self.part      = part
        self.tasks     = dict()    # uid -> task dict as handed in
        self.status    = dict()    # uid -> set of reports
        self.reports   = dict()    # uid -> list of (what)
        self.held      = dict()    # uid -> slots (ledger), until completion
        self.unreleased = dict()   # uid -> slots, until scheduler saw release
        self.granted   = dict()    # uid -> slots ever granted
        self.app_slots = set()     # uids placed by the application
        self.cancel_req = set()
        self.envs      = set()
        self.colo      = dict()    # tag -> set(node index)
        self.completed = list()
        self.log       = list()    # observation log (for replay files)
        self.pending_release = list()

    # ----------------------------------------------------------------------
    def viol(self, prop, key, detail, w):
        self.part.violation('%s#%s' % (prop, key),
                            {'what': detail, 'scenario': self.scn.get('name'),
                             'events': [list(e) for e in w.events],
                             'log': self.log[-12:]},
                            {'scenario': self.scn.get('name'),
                             'family'  : self.scn.get('family'),
                             'choices' : list(w.choices)})

    def shape(self, uid):
        '''abstract task shape for finding keys (appendix B)'''
        td = self.tasks[uid]['description']
        g  = td['gpus_per_rank']
        gc = '0' if not g else ('int' if g == int(g) else 'frac')
        s  = 'r%s.c%s.g%s' % ('1' if td['ranks'] == 1 else
                              ('0' if td['ranks'] < 1 else 'n'),
                              '1' if (td['cores_per_rank'] or 1) == 1 else 'n',
                              gc)
        if td['lfs_per_rank']: s += '.lfs'
        if td['mem_per_rank']: s += '.mem'
        if td.get('slots')   : s += '.appslots'
        if td['tags'].get('colocate') is not None: s += '.colo'
        if td.get('named_env'): s += '.env'
        return s

    # ----------------------------------------------------------------------
    def start(self, w):
        self.w = w
        info = w.rm.info
        self.offered = {n['index']: n for n in w.initial}
        self.agent_names = set(n['name'] for n in info.agent_node_list)

        # the real RM code must have set aside the agent nodes
        lay = self.scn['layout']
        if len(info.agent_node_list) != lay.get('agent_nodes', 0) or \
           len(w.initial) != lay['nodes']:
            self.viol('C01', 'agent-nodes-offered|ResourceManager._filter_nodes|-',
                      'offered %d nodes, %d agent nodes for layout %s'
                      % (len(w.initial), len(info.agent_node_list), lay), w)
        if self.agent_names & set(n['name'] for n in w.initial):
            self.viol('C01', 'agent-nodes-offered|ResourceManager._filter_nodes|-',
                      'agent node is also offered for tasks', w)
        for n in w.initial:
            for kind, blocked in (('cores', lay.get('blocked_cores', [])),
                                  ('gpus',  lay.get('blocked_gpus',  []))):
                for i, v in enumerate(n[kind]):
                    if (i in blocked) != (v is rpc.DOWN):
                        self.viol('C01', 'blocked-marking|ResourceManager.'
                                  '_init_from_scratch|%s' % kind,
                                  'node %s %s[%d] = %r, blocked=%s'
                                  % (n['name'], kind, i, v, blocked), w)

    def running(self):
        return sorted(self.held.keys())

    def handed(self, w, bulk):
        for t in bulk:
            self.tasks[t['uid']] = t
            self.status[t['uid']] = set()
            self.reports[t['uid']] = list()
        self.log.append(('arrive', [t['uid'] for t in bulk]))

    def complete(self, w, uid):
        slots = self.held.pop(uid)
        self.completed.append(uid)
        self.pending_release.append(uid)
        self.log.append(('complete', uid))
        task = copy.deepcopy(self.granted_task[uid])
        return task

    def cancel_issued(self, w, uids):
        self.cancel_req.update(uids)
        self.log.append(('cancel', list(uids)))

    def env_registered(self, w, name):
        self.envs.add(name)
        self.log.append(('env', name))

    # ----------------------------------------------------------------------
    def published(self, w, msg):
        if msg.get('cmd') != 'update':
            return
        for thing in msg['arg']:
            uid, state = thing['uid'], thing['state']
            if uid not in self.tasks:
                self.viol('C04', 'unknown-uid|advance|-',
                          'state update for unknown uid %s' % uid, w)
                continue
            if state in (rps.FAILED, rps.CANCELED):
                self.report(w, uid, state, thing)

    def report(self, w, uid, what, thing=None):
        self.log.append((what, uid))
        self.reports[uid].append(what)
        if what in self.status[uid] or len(self.status[uid]) >= 1:
            self.viol('C04', 'reported-twice|AgentSchedulingComponent|%s+%s:%s'
                      % ('+'.join(sorted(self.status[uid])), what,
                         self.shape(uid)),
                      '%s reported %s after %s' % (uid, what,
                                                   sorted(self.status[uid])), w)
        self.status[uid].add(what)

        if what == rps.CANCELED and uid not in self.cancel_req:
            self.viol('C08', 'canceled-unrequested|AgentSchedulingComponent|-',
                      '%s CANCELED without a request' % uid, w)

        if what == rps.FAILED and thing is not None:
            exc = str(thing.get('exception'))
            td  = self.tasks[uid]['description']
            if self.scn.get('scattered', True) and not td['tags'] and \
               not td.get('slots') and fits_idle(td, self.scn['layout']):
                self.viol('C04', 'failed-but-fits-idle|%s|%s'
                          % ('_try_allocation'
                             if 'can never be scheduled' in exc or
                                'bisect failed' in exc else 'schedule_task',
                             self.shape(uid)),
                          '%s failed (%s) but fits the idle pilot'
                          % (uid, exc), w)

    granted_task = None

    def pushed(self, w, things):
        if self.granted_task is None:
            self.granted_task = dict()
        for task in things:
            uid = task['uid']
            if uid not in self.tasks:
                self.viol('C04', 'unknown-uid|advance|-',
                          'push of unknown uid %s' % uid, w)
                continue
            self.report(w, uid, 'started')
            try:
                if self.scn.get('jsrun'):
                    slots = read_slots_jsrun(task.get('slots'))
                else:
                    slots = read_slots(task.get('slots'))
            except Exception as e:
                self.viol('C02', 'unreadable-slots|_try_allocation|%s'
                          % self.shape(uid), '%s: %r' % (uid, e), w)
                slots = []
            td = self.tasks[uid]['description']
            self.granted_task[uid] = task
            self.granted[uid] = slots
            if td.get('slots'):
                self.app_slots.add(uid)
            self.check_grant(w, uid, td, slots)
            self.held[uid] = slots
            self.unreleased[uid] = slots
            self.check_disjoint(w, uid)

    # ----------------------------------------------------------------------
    def check_disjoint(self, w, new_uid):
        '''A.1 ledger invariant over everything currently held'''
        cores, gpus, lfs, mem = dict(), dict(), dict(), dict()
        who = dict()
        for uid, slots in self.held.items():
            for s in slots:
                n = s['node_index']
                for i, o in s['cores']:
                    cores[(n, i)] = cores.get((n, i), 0) + o
                    who.setdefault(('c', n, i), []).append(uid)
                for i, o in s['gpus']:
                    gpus[(n, i)] = gpus.get((n, i), 0) + o
                    who.setdefault(('g', n, i), []).append(uid)
                lfs[n] = lfs.get(n, 0) + s['lfs']
                mem[n] = mem.get(n, 0) + s['mem']

        sh   = self.shape(new_uid)
        site = 'app-slots' if new_uid in self.app_slots else 'scheduler'
        for (n, i), o in cores.items():
            if o > 1 + EPS:
                others = '+'.join(sorted(set(
                    'app' if u in self.app_slots else 'sched'
                    for u in who[('c', n, i)])))
                self.viol('C01', 'core-shared|%s|%s:%s' % (site, sh, others),
                          'core %d on node %d held %.2f times by %s'
                          % (i, n, o, who[('c', n, i)]), w)
        for (n, i), o in gpus.items():
            if o > 1 + EPS:
                holders = who[('g', n, i)]
                within  = len(set(holders)) == 1
                others = '+'.join(sorted(set(
                    'app' if u in self.app_slots else 'sched'
                    for u in holders)))
                self.viol('C01', 'gpu-share-sum|%s|%s:%s:%s'
                          % (site, sh, 'within-task' if within else 'across',
                             others),
                          'gpu %d on node %d: shares sum to %.2f (%s)'
                          % (i, n, o, holders), w)
        for n, v in lfs.items():
            if n in self.offered and v > (self.offered[n]['lfs'] or 0) + EPS:
                self.viol('C01', 'lfs-sum|%s|%s' % (site, sh),
                          'node %d: lfs held %s > %s'
                          % (n, v, self.offered[n]['lfs']), w)
        for n, v in mem.items():
            if n in self.offered and v > (self.offered[n]['mem'] or 0) + EPS:
                self.viol('C01', 'mem-sum|%s|%s' % (site, sh),
                          'node %d: mem held %s > %s'
                          % (n, v, self.offered[n]['mem']), w)

    # ----------------------------------------------------------------------
    def check_grant(self, w, uid, td, slots):

        sh   = self.shape(uid)
        app  = bool(td.get('slots'))
        site = 'app-slots' if app else 'scheduler'

        # C01: existence, blocked resources, agent nodes
        for s in slots:
            node = self.offered.get(s['node_index'])
            if s['node_name'] in self.agent_names or node is None:
                self.viol('C01', 'node-not-offered|%s|%s' % (site, sh),
                          '%s placed on node %s/%s which is not offered'
                          % (uid, s['node_index'], s['node_name']), w)
                continue
            if node['name'] != s['node_name']:
                self.viol('C02', 'node-name-index|%s|%s' % (site, sh),
                          '%s: slot names node %s but index %s is %s'
                          % (uid, s['node_name'], s['node_index'],
                             node['name']), w)
            for kind in ('cores', 'gpus'):
                for i, o in s[kind]:
                    if not (0 <= i < len(node[kind])):
                        self.viol('C01', 'index-range|%s|%s:%s'
                                  % (site, sh, kind),
                                  '%s: %s index %d out of range' % (uid, kind, i),
                                  w)
                    elif node[kind][i] is rpc.DOWN:
                        self.viol('C01', 'blocked-granted|%s|%s:%s'
                                  % (site, sh, kind),
                                  '%s: blocked %s %d on node %s handed out'
                                  % (uid, kind, i, node['name']), w)

        if app:
            return

        if self.scn.get('jsrun'):
            # resource sets: every rank of the task is covered, with its cores
            n_ranks = sum(x['n_ranks'] for x in slots)
            if n_ranks != td['ranks']:
                self.viol('C02', 'rank-count|jsrun-scheduler|%s' % sh,
                          '%s: resource sets cover %d ranks of %d'
                          % (uid, n_ranks, td['ranks']), w)
            n_cores = sum(len(x['cores']) for x in slots)
            if n_cores != td['ranks'] * max(td['cores_per_rank'] or 0, 1):
                self.viol('C02', 'core-count|jsrun-scheduler|%s' % sh,
                          '%s: %d cores for %d ranks x %s'
                          % (uid, n_cores, td['ranks'], td['cores_per_rank']),
                          w)
            return

        # C02: shape
        ranks = td['ranks']
        cpr   = max(td['cores_per_rank'] or 0, 1)
        gpr   = td['gpus_per_rank']
        if len(slots) != ranks:
            self.viol('C02', 'rank-count|scheduler|%s' % sh,
                      '%s: %d slots for %d ranks' % (uid, len(slots), ranks), w)
        per_node = dict()
        for s in slots:
            per_node[s['node_index']] = per_node.get(s['node_index'], 0) + 1
            cidx = [i for i, _ in s['cores']]
            if len(cidx) != cpr or len(set(cidx)) != cpr:
                self.viol('C02', 'core-count|scheduler|%s' % sh,
                          '%s: slot cores %s for cores_per_rank %s'
                          % (uid, cidx, td['cores_per_rank']), w)
            if any(abs(o - 1.0) > EPS for _, o in s['cores']):
                self.viol('C02', 'core-occupation|scheduler|%s' % sh,
                          '%s: core occupation %s' % (uid, s['cores']), w)
            gidx = [i for i, _ in s['gpus']]
            if gpr >= 1:
                ok = len(gidx) == int(gpr) and len(set(gidx)) == len(gidx) \
                     and all(abs(o - 1.0) < EPS for _, o in s['gpus']) \
                     and gpr == int(gpr)
            elif gpr > 0:
                ok = len(gidx) == 1 and abs(s['gpus'][0][1] - gpr) < EPS
            else:
                ok = not gidx
            if not ok:
                self.viol('C02', 'gpu-amount|scheduler|%s' % sh,
                          '%s: slot gpus %s for gpus_per_rank %s'
                          % (uid, s['gpus'], gpr), w)
            if s['lfs'] != td['lfs_per_rank'] or s['mem'] != td['mem_per_rank']:
                self.viol('C02', 'lfs-mem-amount|scheduler|%s' % sh,
                          '%s: slot lfs/mem %s/%s for request %s/%s'
                          % (uid, s['lfs'], s['mem'], td['lfs_per_rank'],
                             td['mem_per_rank']), w)
        # the ranks of one placement do not share cores or whole GPUs: the
        # task gets ranks x cores_per_rank cores, not fewer
        seen_c, seen_g = set(), set()
        for s in slots:
            cs = set((s['node_index'], i) for i, _ in s['cores'])
            gs = set((s['node_index'], i) for i, o in s['gpus']
                     if abs(o - 1.0) < EPS)
            if cs & seen_c or gs & seen_g:
                self.viol('C02', 'ranks-overlap|scheduler|%s' % sh,
                          '%s: ranks share %s' % (uid, sorted(cs & seen_c) +
                                                  sorted(gs & seen_g)), w)
            seen_c |= cs
            seen_g |= gs
        rpn = td['ranks_per_node']
        if rpn and any(v > rpn for v in per_node.values()):
            self.viol('C02', 'ranks-per-node|scheduler|%s' % sh,
                      '%s: %s ranks on a node, limit %s'
                      % (uid, per_node, rpn), w)

        tag = td['tags'].get('colocate')
        if tag is not None:
            tag = str(tag)
            nodes = set(per_node)
            if tag in self.colo and not nodes <= self.colo[tag]:
                self.viol('C02', 'colocate|scheduler|%s' % sh,
                          '%s: tag %s placed on %s, tag used on %s before'
                          % (uid, tag, sorted(nodes), sorted(self.colo[tag])), w)
            self.colo.setdefault(tag, set()).update(nodes)

        if self.oversize(td):
            self.viol('C02', 'oversize-granted|scheduler|%s' % sh,
                      '%s: per-rank needs exceed a node but placement granted'
                      % uid, w)

    def oversize(self, td):
        info = self.w.rm.info
        lay  = self.scn['layout']
        ucores = lay['cores'] - len(lay.get('blocked_cores', []))
        ugpus  = lay.get('gpus', 0) - len(lay.get('blocked_gpus', []))
        return max(td['cores_per_rank'] or 0, 1) > ucores          or \
               td['gpus_per_rank'] > ugpus                          or \
               (td['lfs_per_rank'] or 0) > lay.get('lfs', 0)        or \
               (td['mem_per_rank'] or 0) > lay.get('mem', 0)

    # ----------------------------------------------------------------------
    def at_boundary(self, w):
        '''loop top: both queues were drained in the previous iteration'''

        c = w.child

        # releases which the scheduler has processed by now
        if not w.q_unsched.items:
            for uid in self.pending_release:
                self.unreleased.pop(uid, None)
            self.pending_release = list()

        # C03: scheduler's map == initial - (granted and not yet released)
        if not w.q_unsched.items:
            exp_busy_c, exp_busy_g = set(), set()
            exp_lfs, exp_mem = dict(), dict()
            n_sched = 0
            for uid, slots in self.unreleased.items():
                n_sched += 1
                for s in slots:
                    n = s['node_index']
                    for i, _ in s['cores']: exp_busy_c.add((n, i))
                    for i, _ in s['gpus'] : exp_busy_g.add((n, i))
                    exp_lfs[n] = exp_lfs.get(n, 0) + s['lfs']
                    exp_mem[n] = exp_mem.get(n, 0) + s['mem']
            kind_app = any(u in self.app_slots for u in self.granted)
            trig = 'app-slots' if kind_app else 'scheduler-only'
            for node, ini in zip(c.nodes, w.initial):
                n = ini['index']
                for kind, busy in (('cores', exp_busy_c), ('gpus', exp_busy_g)):
                    for i, v in enumerate(node[kind]):
                        if ini[kind][i] is rpc.DOWN:
                            exp = rpc.DOWN
                        elif (n, i) in busy:
                            exp = rpc.BUSY
                        else:
                            exp = rpc.FREE
                        # (how a held resource is marked is the scheduler's
                        #  business - BUSY or a share - as long as it is not
                        #  offered as free)
                        ok = (v == exp) or (exp == rpc.BUSY and
                                            v not in (rpc.FREE, rpc.DOWN))
                        if not ok:
                            what = 'held-but-free' if exp == rpc.BUSY else \
                                   'free-but-busy' if exp == rpc.FREE else \
                                   'down-changed'
                            self.viol('C03', '%s|node-map|%s:%s'
                                      % (what, kind, trig),
                                      'node %s %s[%d] is %r, ledger says %r '
                                      '(holders %s)'
                                      % (ini['name'], kind, i, v, exp,
                                         sorted(self.unreleased)), w)
                for kind, exp in (('lfs', exp_lfs), ('mem', exp_mem)):
                    want = (ini[kind] or 0) - exp.get(n, 0)
                    if (node[kind] or 0) != want:
                        self.viol('C03', 'amount-drift|node-map|%s:%s'
                                  % (kind, trig),
                                  'node %s %s is %s, ledger says %s'
                                  % (ini['name'], kind, node[kind], want), w)
            if c._active_cnt != n_sched:
                self.viol('C03', 'active-count|_active_cnt|%s' % trig,
                          '_active_cnt=%d, ledger has %d holders'
                          % (c._active_cnt, n_sched), w)

        # C04 (i): partition
        waiting = dict()
        for x in w.q_sched.items:
            data, flag = x
            if flag == c._SCHEDULE:
                for t in data:
                    waiting[t['uid']] = waiting.get(t['uid'], 0) + 1
        for pool in c._waitpool.values():
            for uid in pool:
                waiting[uid] = waiting.get(uid, 0) + 1
        for lst in getattr(c, '_raptor_tasks', {}).values():
            for t in lst:
                waiting[t['uid']] = waiting.get(t['uid'], 0) + 1
        for uid in self.tasks:
            places = len(self.status[uid]) + waiting.get(uid, 0)
            if self.tasks[uid]['description'].get('raptor_id') and \
               uid in self.to_raptor:
                places += 1
            if places != 1:
                where = sorted(self.status[uid]) + \
                        ['waiting'] * waiting.get(uid, 0)
                self.viol('C04', '%s|AgentSchedulingComponent|%s'
                          % ('lost' if places == 0 else 'duplicated:' +
                             '+'.join(where), self.shape(uid)),
                          '%s is in %s' % (uid, where or 'no place'), w)

    to_raptor = ()

    # ----------------------------------------------------------------------
    def at_quiescence(self, w):
        '''the loop cycles without outside help'''

        c       = w.child
        whole   = lambda td: td['gpus_per_rank'] == int(td['gpus_per_rank']) \
                             and not td['lfs_per_rank'] and not td['mem_per_rank'] \
                             and not td['tags'] and td['ranks'] >= 1
        waiters = [t for pool in c._waitpool.values() for t in pool.values()]
        elig    = [t for t in waiters
                   if not t['description'].get('named_env') or
                      t['description']['named_env'] in self.envs]
        idle    = not self.unreleased
        cur     = free_map(w.initial, self.unreleased)
        idle_m  = free_map(w.initial, {})

        # C08/C04: a cancel request which reached the scheduler process
        # leaves no named task waiting
        if self.cancel_req and not w.c_child_b:
            for t in waiters:
                if t['uid'] in self.cancel_req:
                    self.viol('C08', 'canceled-still-waiting|_schedule_incoming|%s'
                              % self.shape(t['uid']),
                              '%s waits although its cancel request was '
                              'delivered' % t['uid'], w)

        # C02: oversize requests are rejected
        for t in waiters:
            if self.oversize(t['description']) and idle:
                self.viol('C02', 'oversize-not-rejected|_try_allocation|%s'
                          % self.shape(t['uid']),
                          '%s exceeds a node per rank but waits on an idle '
                          'pilot' % t['uid'], w)

        if not all(whole(t['description']) for t in waiters):
            return
        if any(u in self.app_slots for u in self.granted):
            return

        if len(waiters) == 1 and len(elig) == 1:
            t = elig[0]
            if fits(t['description'], cur):
                self.viol('C04', 'lone-waiter-fits|_schedule_waitpool|%s'
                          % self.shape(t['uid']),
                          '%s waits alone although it fits the free resources'
                          % t['uid'], w)
        if idle:
            for t in elig:
                if not fits(t['description'], idle_m):
                    self.viol('C04', 'waiter-never-fits|_try_allocation|%s'
                              % self.shape(t['uid']),
                              '%s waits on an idle pilot it can never fit'
                              % t['uid'], w)
            if elig and len(elig) == len(waiters) and \
               all(fits(t['description'], idle_m) for t in elig):
                self.viol('C04', 'idle-but-waiting|_schedule_waitpool|%s'
                          % '+'.join(sorted(self.shape(t['uid']) for t in elig)),
                          'idle pilot, waiting: %s' % [t['uid'] for t in elig],
                          w)

    def loop_crashed(self, w, exc, site):
        kinds = '+'.join(sorted(set(self.shape(u) for u in self.tasks)))
        for prop in ('C04', 'C03', 'C01'):
            self.viol(prop, 'scheduler-crash|%s|%s:%s'
                      % (site, type(exc).__name__, kinds),
                      'exception escapes _schedule_tasks (the scheduler '
                      'process dies, all waiting tasks are lost): %r' % exc, w)

    def horizon_hit(self, w):
        self.viol('C04', 'no-quiescence|_schedule_tasks|-',
                  'loop did not stabilise within %d iterations' % w.horizon, w)

    def canon(self):
        return (tuple(sorted((u, tuple(sorted(s)))
                             for u, s in self.status.items())),
                tuple(sorted(self.held)), tuple(sorted(self.unreleased)),
                tuple(sorted(self.cancel_req)),
                tuple(sorted((k, tuple(sorted(v)))
                             for k, v in self.colo.items())))

    def finish(self, w):
        self.part.outcome((self.scn.get('name'),
                           tuple(sorted((u, tuple(r))
                                        for u, r in self.reports.items())),
                           tuple(self.completed)))


# ------------------------------------------------------------------------------
# priority oracle (C04 last clause) as a subclass hook: evaluated at every
# grant made while higher-priority tasks wait
#
class PrioOracle(SchedOracle):

    def pushed(self, w, things):
        c = w.child
        for task in things:
            uid = task['uid']
            if uid in self.tasks:
                lo  = self.tasks[uid]['description']
                before = free_map(w.initial, self.unreleased)
                for pool in c._waitpool.values():
                    for h in pool.values():
                        hd = h['description']
                        if hd['priority'] > lo['priority'] and \
                           fits(hd, before) and fits(lo, before):
                            # both fit alone; do they fit together?
                            tmp = dict(self.unreleased)
                            tmp[uid] = read_slots(task.get('slots'))
                            if not fits(hd, free_map(w.initial, tmp)):
                                self.viol('C04', 'priority-inversion|'
                                          '_schedule_waitpool|-',
                                          '%s (prio %s) started while %s (prio '
                                          '%s) waits and only one fits'
                                          % (uid, lo['priority'], h['uid'],
                                             hd['priority']), w)
        super().pushed(w, things)


# ------------------------------------------------------------------------------
# scenarios
#
LAYOUTS = {
    'L1x4g2'   : dict(nodes=1, cores=4, gpus=2),
    'L2x2g1lm' : dict(nodes=2, cores=2, gpus=1, lfs=2, mem=2),
    'L3x2'     : dict(nodes=3, cores=2, gpus=0),
    'L2x4g2b'  : dict(nodes=2, cores=4, gpus=2, blocked_cores=[0],
                      blocked_gpus=[1]),
    'L3x2g1a'  : dict(nodes=2, cores=2, gpus=1, agent_nodes=1),
    'L1x4g3b0' : dict(nodes=1, cores=4, gpus=3, blocked_gpus=[0]),
    'L4x2'     : dict(nodes=4, cores=2, gpus=0),
    # all nodes carry the same name (the Fork resource manager's virtual
    # nodes are all `localhost`): the index identifies a node, not the name
    'L2x2g1loc': dict(nodes=2, cores=2, gpus=1, lfs=2, mem=2,
                      names=['localhost', 'localhost']),
    'L1x4lm'   : dict(nodes=1, cores=4, gpus=0, lfs=3, mem=3),
    'L1x2'     : dict(nodes=1, cores=2, gpus=0),
    'L1x4'     : dict(nodes=1, cores=4, gpus=0),
    'L2x2g1'   : dict(nodes=2, cores=2, gpus=1),
}

T = dict    # task shape shorthand

SHAPES = {
    'c1'    : T(ranks=1, cores_per_rank=1),
    'r2'    : T(ranks=2, cores_per_rank=1),
    'c2'    : T(ranks=1, cores_per_rank=2),
    'r3'    : T(ranks=3, cores_per_rank=1),
    'r4'    : T(ranks=4, cores_per_rank=1),
    'c4'    : T(ranks=1, cores_per_rank=4),
    'c0'    : T(ranks=1, cores_per_rank=0),
    'r3c0'  : T(ranks=3, cores_per_rank=0),
    'g1'    : T(ranks=1, cores_per_rank=1, gpus_per_rank=1),
    'r2g1'  : T(ranks=2, cores_per_rank=1, gpus_per_rank=1),
    'g2'    : T(ranks=1, cores_per_rank=1, gpus_per_rank=2),
    'gh'    : T(ranks=1, cores_per_rank=1, gpus_per_rank=0.5),
    'r2gh'  : T(ranks=2, cores_per_rank=1, gpus_per_rank=0.5),
    'r4gh'  : T(ranks=4, cores_per_rank=1, gpus_per_rank=0.5),
    'g1h'   : T(ranks=1, cores_per_rank=1, gpus_per_rank=1.5),
    'r3gh'  : T(ranks=3, cores_per_rank=1, gpus_per_rank=0.5),
    'r2g75' : T(ranks=2, cores_per_rank=1, gpus_per_rank=0.75),
    'ta2'   : T(ranks=2, cores_per_rank=1, tags={'colocate': 'a'}),
    'ta3'   : T(ranks=3, cores_per_rank=1, tags={'colocate': 'a'}),
    'r3g334': T(ranks=3, cores_per_rank=1, gpus_per_rank=0.334),
    'r4g251': T(ranks=4, cores_per_rank=1, gpus_per_rank=0.251),
    'l2'    : T(ranks=1, cores_per_rank=1, lfs_per_rank=2),
    'l1'    : T(ranks=1, cores_per_rank=1, lfs_per_rank=1),
    'r2l1'  : T(ranks=2, cores_per_rank=1, lfs_per_rank=1),
    'r3l1'  : T(ranks=3, cores_per_rank=1, lfs_per_rank=1),
    'r2m1'  : T(ranks=2, cores_per_rank=1, mem_per_rank=1),
    'm2'    : T(ranks=1, cores_per_rank=1, mem_per_rank=2),
    'm1'    : T(ranks=1, cores_per_rank=1, mem_per_rank=1),
    'l3'    : T(ranks=1, cores_per_rank=1, lfs_per_rank=3),
    'r2n1'  : T(ranks=2, cores_per_rank=1, ranks_per_node=1),
    'r3n1'  : T(ranks=3, cores_per_rank=1, ranks_per_node=1),
    'r3n2'  : T(ranks=3, cores_per_rank=1, ranks_per_node=2),
    'ta'    : T(ranks=1, cores_per_rank=1, tags={'colocate': 'a'}),
    'tb'    : T(ranks=1, cores_per_rank=1, tags={'colocate': 'b',
                                                 'exclusive': True}),
    'tax'   : T(ranks=1, cores_per_rank=1, tags={'colocate': 'a',
                                                 'exclusive': True}),
    't0'    : T(ranks=1, cores_per_rank=1, tags={'colocate': 0}),
    'p1'    : T(ranks=1, cores_per_rank=1, priority=1),
    'p1c2'  : T(ranks=1, cores_per_rank=2, priority=1),
    'c2p0'  : T(ranks=1, cores_per_rank=2, priority=0),
    'r0'    : T(ranks=0, cores_per_rank=1),
    'c9'    : T(ranks=1, cores_per_rank=9),
    'r9'    : T(ranks=9, cores_per_rank=1),
    'env'   : T(ranks=1, cores_per_rank=1, named_env='ve1'),
}


def app_slot(node, cores, gpus=(), index=None, lfs=0, mem=0):
    return {'node_name': node, 'node_index': int(node[1:]) if index is None
                                             else index,
            'cores': [{'index': c, 'occupation': 1.0} for c in cores],
            'gpus' : [{'index': g, 'occupation': 1.0} for g in gpus],
            'lfs': lfs, 'mem': mem, 'version': 1}


def mk_scenario(name, family, layout, shapes, bulks=None, cancel=None,
                envs=None, scattered=True, oracle='base', max_completes=None,
                sched=None, jsrun=False, cancel_split=False):
    '''shapes: list of shape names or (name, extra dict)'''
    tasks = list()
    for i, sh in enumerate(shapes):
        extra = {}
        if isinstance(sh, tuple):
            sh, extra = sh
        kw = dict(SHAPES[sh])
        kw.update(extra)
        tasks.append(sw.make_task('t%d' % i, **kw))
    if bulks is None:
        bulks = [[i] for i in range(len(tasks))]
    return {'name': name, 'family': family, 'layout': LAYOUTS[layout],
            'layout_name': layout,
            'bulks': [[tasks[i] for i in b] for b in bulks],
            'cancel': ['t%d' % i for i in cancel] if cancel else None,
            'envs': envs, 'scattered': scattered, 'oracle': oracle,
            'max_completes': max_completes, 'jsrun': jsrun,
            'cancel_split': cancel_split,
            **({'sched': sched} if sched else {})}


def mass_scenario(n):
    tasks = [sw.make_task('t%d' % i, ranks=1, cores_per_rank=1)
             for i in range(n)]
    return {'name': 'mass/L1x%d/%dxc1' % (n, n), 'family': 'mass',
            'layout': dict(nodes=1, cores=n, gpus=0), 'layout_name': 'mass',
            'bulks': [tasks], 'cancel': None, 'envs': None, 'scattered': True,
            'oracle': 'base', 'max_completes': None, 'mass': True}


def bulkings(n):
    '''all ways to cut a sequence of n tasks into consecutive bulks'''
    out = list()
    for cuts in itertools.product((0, 1), repeat=n - 1):
        cur, res = [0], list()
        for i, c in enumerate(cuts, 1):
            if c:
                res.append(cur)
                cur = [i]
            else:
                cur.append(i)
        res.append(cur)
        out.append(res)
    return sorted(out, key=lambda b: (-len(b), b))


def scenarios(ctx_pid, quick):

    out = list()

    def add(family, layout, shapes, **kw):
        kinds = kw.pop('bulk_kinds', None)
        for bi, b in enumerate(kinds or bulkings(len(shapes))):
            nm = '%s/%s/%s/b%d%s%s' % (
                family, layout,
                ','.join(s if isinstance(s, str) else s[0] + '*'
                         for s in shapes), bi,
                '/x' + ','.join(map(str, kw['cancel'])) +
                ('s' if kw.get('cancel_split') else '') if kw.get('cancel')
                else '', '' if kw.get('scattered', True) else '/cont')
            out.append(mk_scenario(nm, family, layout, shapes, bulks=b, **kw))

    # whole cores / gpus ------------------------------------------------------
    core = ['c1', 'r2', 'c2', 'r3']
    for lay in ('L1x4g2', 'L3x2'):
        for combo in itertools.product(core, repeat=3):
            add('core', lay, list(combo))
    if not quick:
        # four tasks over the basic alphabet; three over the extended one
        for lay in ('L1x4g2', 'L3x2'):
            for combo in itertools.product(core, repeat=4):
                add('core', lay, list(combo))
        for lay in ('L1x4g2', 'L3x2', 'L2x2g1lm'):
            for combo in itertools.product(core + ['c0', 'r4'], repeat=3):
                if set(combo) & {'c0', 'r4'}:
                    add('core', lay, list(combo))
    gpu = ['g1', 'r2g1', 'g2', 'c1']
    for lay in ('L1x4g2', 'L2x2g1'):
        for combo in itertools.product(gpu, repeat=3):
            add('gpu', lay, list(combo))

    # fractional gpus ---------------------------------------------------------
    frac = ['gh', 'r2gh', 'r4gh', 'g1', 'g1h']
    for lay in ('L1x4g2', 'L2x4g2b'):
        for combo in itertools.product(frac, repeat=2 if quick else 3):
            add('frac', lay, list(combo))

    if quick:
        # three overlapping GPU sharers: release of one while others hold
        for combo in itertools.product(['gh', 'r2gh', 'g1'], repeat=3):
            add('frac', 'L1x4g2', list(combo))

    # a blocked GPU below the usable ones, ranks sharing the GPUs behind it
    for combo in itertools.product(['r3gh', 'r2g75', 'gh', 'r4gh'], repeat=2):
        add('frac', 'L1x4g3b0', list(combo))

    # shares which do not divide a GPU: k of them exceed it by a hair
    for combo in itertools.product(['r3g334', 'r4g251', 'gh'], repeat=2):
        if combo != ('gh', 'gh'):
            add('frac', 'L1x4g2', list(combo))

    # lfs / mem -----------------------------------------------------------------
    lm = ['l2', 'l1', 'r2l1', 'm2', 'm1', 'l3']
    for combo in itertools.product(lm, repeat=2 if quick else 3):
        add('lfsmem', 'L2x2g1lm', list(combo))

    # more cores than storage: lfs/mem decide how many ranks fit a node
    lm2 = ['l2', 'l1', 'r2l1', 'r2m1', 'm2', 'r3l1']
    for combo in itertools.product(lm2, repeat=2):
        add('lfsmem', 'L1x4lm', list(combo))

    for combo in itertools.product(['c1', 'c2', 'r2', 'g1', 'l2'], repeat=2):
        add('core', 'L2x2g1loc', list(combo))

    # cores_per_rank = 0 ("at least one core") on a partly occupied node
    for combo in itertools.product(['c0', 'r3c0', 'c1'], repeat=2):
        if set(combo) & {'c0', 'r3c0'}:
            add('core', 'L1x4g2', list(combo))
            add('core', 'L3x2',   list(combo))

    # ranks per node, tags -------------------------------------------------------
    for combo in itertools.product(['r2n1', 'r3n1', 'r3n2', 'c1'], repeat=2):
        add('rpn', 'L3x2', list(combo))
    for combo in itertools.product(['ta', 'tb', 'tax', 'c2'], repeat=3):
        add('tags', 'L3x2', list(combo))
    # tagged tasks with several ranks: the tag's nodes are visited once
    for combo in itertools.product(['ta2', 'ta3', 'ta', 'c1'], repeat=2):
        if set(combo) & {'ta2', 'ta3'}:
            add('tags', 'L3x2', list(combo))
            add('tags', 'L1x4g2', list(combo))
    # a tag need not be a string (bag index 0)
    for combo in itertools.product(['t0', 'c2', 'ta'], repeat=3):
        if 't0' in combo:
            add('tags', 'L3x2', list(combo))

    # blocked resources, agent nodes ---------------------------------------------
    for combo in itertools.product(['c1', 'r3', 'g1', 'r4'], repeat=2):
        add('blocked', 'L2x4g2b', list(combo))
    for combo in itertools.product(['c1', 'r3', 'g1', 'r4'], repeat=2):
        add('agent', 'L3x2g1a', list(combo))

    # non-scattered mode -----------------------------------------------------------
    for combo in itertools.product(['c1', 'r2', 'r3', 'r4'], repeat=3):
        add('cont', 'L3x2', list(combo), scattered=False)

    # ... on four nodes: a partly free node, a full node, free nodes behind it
    for combo in itertools.product(['c1', 'c2', 'r3', 'r4'], repeat=3):
        if set(combo) & {'r3', 'r4'}:
            add('cont', 'L4x2', list(combo), scattered=False)

    # the jsrun flavour of the scheduler (resource sets) -------------------------------
    from radical.pilot.agent.scheduler.continuous_jsrun import ContinuousJsrun
    js = ['c1', 'r2', 'c2', 'g1', 'r2g1', 'r2gh', 'r4gh', 'l1', 'm2']
    for lay in ('L1x4g2', 'L2x2g1lm'):
        # triples on one layout only (2916 scenarios each)
        n = 2 if (quick or lay == 'L1x4g2') else 3
        for combo in itertools.product(js, repeat=n):
            add('jsrun', lay, list(combo), sched=ContinuousJsrun, jsrun=True,
                scattered=True)

    # application supplied slots -----------------------------------------------------
    s_dis  = [app_slot('n0', [3])]
    s_ovl  = [app_slot('n0', [0])]
    s_blk  = [app_slot('n0', [0], gpus=[1])]
    s_agt  = [app_slot('n2', [0])]
    for first in ('c1', 'r2'):
        add('app', 'L1x4g2', [first, ('c1', {'slots': s_dis})])
        add('app', 'L1x4g2', [first, ('c1', {'slots': s_ovl})])
        add('app', 'L1x4g2', [('c1', {'slots': s_ovl}), first])
        add('app', 'L1x4g2', [('c1', {'slots': s_dis}), first, 'c4'])
    # two application-placed ranks, one of which names a held core / GPU
    s_of   = [app_slot('n0', [0]), app_slot('n0', [3])]
    s_ol   = [app_slot('n0', [3]), app_slot('n0', [0])]
    s_gof  = [app_slot('n0', [2], gpus=[0]), app_slot('n0', [3], gpus=[1])]
    for first in ('c1', 'r2', 'g1'):
        for sl in (s_of, s_ol, s_gof):
            shp = 'r2g1' if sl is s_gof else 'r2'
            add('app', 'L1x4g2', [first, (shp, {'slots': sl})])
            add('app', 'L1x4g2', [first, (shp, {'slots': sl}), 'c1'])
    add('app', 'L2x4g2b', [('g1', {'slots': s_blk})])
    add('app', 'L3x2g1a', [('c1', {'slots': s_agt})])

    # many tasks ending together (release bookkeeping across bulk limits) --------------
    out.append(mass_scenario(700))

    # priorities ---------------------------------------------------------------------
    for combo in (['c2', 'c1', 'p1c2'], ['c2', 'p1c2', 'c1'],
                  ['c2', 'c2p0', 'p1c2'], ['c2', 'p1', 'c2p0'],
                  ['c1', 'c2p0', 'p1c2']):
        add('prio', 'L1x2', combo, oracle='prio')
    for combo in (['c4', 'c2', 'p1c2'], ['r4', 'p1c2', 'c2p0', 'c1']):
        add('prio', 'L1x4', combo, oracle='prio',
            bulk_kinds=[[[i] for i in range(len(combo))]])

    for combo in (['c4', 'c2', 'p1c2'], ['c4', 'p1c2', 'c2'],
                  ['c4', 'c1', 'p1']):
        add('prio', 'L1x4', combo, oracle='prio', bulk_kinds=[[[0], [1, 2]]])

    # invalid / oversize requests --------------------------------------------------------
    for combo in itertools.product(['r0', 'c9', 'r9', 'c1', 'c2'], repeat=2):
        if set(combo) & {'r0', 'c9', 'r9'}:
            add('invalid', 'L1x2', list(combo))

    # named environments -------------------------------------------------------------------
    for combo in (['env'], ['env', 'c1'], ['c2', 'env'], ['env', 'env']):
        add('env', 'L1x2', combo, envs=['ve1'])

    # cancel requests ------------------------------------------------------------------------
    for combo in (['c2', 'c1'], ['c1', 'c2'], ['c2', 'c2'], ['r2', 'c1'],
                  ['c2', 'c1', 'c1'], ['c2', 'c2', 'c1']):
        for x in range(len(combo)):
            add('cancel', 'L1x2', combo, cancel=[x])
    # cancel of a task which waits for its named environment, not resources
    for combo in (['env'], ['env', 'c1'], ['c2', 'env']):
        x = combo.index('env')
        add('cancel', 'L1x2', combo, cancel=[x], envs=['ve1'])
    # one request naming waiting tasks of different priorities
    add('cancel', 'L1x2', ['c2', 'c1', 'p1'],   cancel=[1, 2])
    add('cancel', 'L1x2', ['c2', 'p1', 'c1'],   cancel=[1, 2])
    add('cancel', 'L1x2', ['c2', 'p1c2', 'c1'], cancel=[1, 2])
    # two separate requests, one per waiting task, arriving back to back
    add('cancel', 'L1x2', ['c2', 'c2', 'c1'], cancel=[1, 2], cancel_split=True)
    add('cancel', 'L1x2', ['c2', 'c1', 'c1'], cancel=[1, 2], cancel_split=True)
    if not quick:
        add('cancel', 'L1x2', ['c2', 'c2', 'c2'], cancel=[1, 2])

    return out


FAMILIES = {
    'C01': ('core', 'gpu', 'frac', 'lfsmem', 'blocked', 'agent', 'app',
            'cont', 'tags', 'jsrun'),
    'C02': ('core', 'gpu', 'frac', 'lfsmem', 'rpn', 'tags', 'blocked',
            'cont', 'invalid', 'jsrun'),
    'C03': ('core', 'gpu', 'frac', 'lfsmem', 'app', 'cancel', 'cont',
            'blocked', 'mass', 'jsrun', 'prio'),
    'C04': ('core', 'gpu', 'prio', 'invalid', 'env', 'cancel', 'rpn', 'frac',
            'lfsmem', 'blocked'),
    'C08': ('cancel',),
}


# ------------------------------------------------------------------------------
#
_scn_table = None
_pid       = None


def _worker(idx):
    scn  = _scn_table[idx]
    part = report.Part()
    mk   = PrioOracle if scn.get('oracle') == 'prio' else SchedOracle
    try:
        n_exec, n_states, n_trans, stops = sw.explore(
                scn, mk, part, max_exec=scn.get('max_exec'))
    except sw.HarnessError as e:
        part.violation('HARNESS#error|%s' % scn['name'], repr(e), None)
        n_exec = n_states = n_trans = 0
        stops  = {}
    part.cover(executions=n_exec, states=n_states, transitions=n_trans,
               traces_validated_against_impl=n_exec, scenarios=1,
               quiescent=stops.get('quiescent', 0),
               pruned=stops.get('pruned', 0))
    if idx % 97 == 0:
        part.sample({'scenario': scn['name'], 'executions': n_exec,
                     'states': n_states, 'stops': stops})
    return part.dump()


def run_sched(ctx, pid, families=None):
    global _scn_table, _pid
    _pid = pid
    fams = families or FAMILIES[pid]
    scns = [s for s in scenarios(pid, ctx.quick) if s['family'] in fams]
    max_exec = 4000 if ctx.quick else 60000
    for s in scns:
        s['max_exec'] = max_exec
    # seed only permutes the visiting order
    import random
    order = list(range(len(scns)))
    random.Random(ctx.seed).shuffle(order)
    _scn_table = scns

    harness_errors = list()
    for res in seams.pmap(_worker, order, ctx.workers, chunksize=4):
        # keep only the clauses of this property
        keep = list()
        for key, detail, replay in res['violations']:
            prop, rest = key.split('#', 1)
            if prop == 'HARNESS':
                harness_errors.append((rest, detail))
            elif prop == pid:
                keep.append((rest, detail, replay))
        res['violations']  = keep
        res['nviol_extra'] = 0
        ctx.merge(res)
    if harness_errors:
        raise RuntimeError('harness errors: %s' % harness_errors[:3])
    ctx.set(families=list(fams))


def run(ctx):
    ctx.level = 'model_checking'
    ctx.assume(
        'line granularity is not needed here: the scheduler loop is single '
        'threaded; other threads/processes act only through _queue_sched, '
        '_queue_unsched, _cancel_list and _named_envs, and an event is offered '
        'at every point where the loop reads the structure it changes',
        'ZMQ/mp.Queue replaced by in-memory FIFOs with msgpack/pickle copies',
        'nodes come from the real ResourceManager._init_from_scratch/'
        '_filter_nodes on a synthetic raw node list')
    run_sched(ctx, ctx.pid)
    if ctx.pid in ('C01', 'C02', 'C03'):
        from checks import c01_nodelist
        c01_nodelist.run_nodelist(ctx, ctx.pid)
    if ctx.pid == 'C03':
        # part 2: the executors ask for the release exactly once per task
        from checks import c07_executor
        c07_executor.run_exec(ctx, 'C03')
    if ctx.pid == 'C01':
        # part 2: a second release request for a task frees cores, lfs and
        # mem which may by then be granted to someone else (the scheduler
        # does not recognise repeats): no task is released twice
        from checks import c07_executor
        c07_executor.run_exec(ctx, 'C01')
    ctx.set(rule='states = distinct (scheduler state, resources flag, '
                 'remaining events, oracle status) at loop boundaries; '
                 'transitions = loop iterations + injected events; every '
                 'execution is a run of the real _schedule_tasks()')
    ctx.set(distinct_nontrivial=len(ctx.outcomes))


def replay(ctx, data):
    r = data['replay']
    if r.get('kind') == 'nodelist':
        from checks import c01_nodelist
        return c01_nodelist.replay_nodelist(r)
    if 'schedule' in r:
        from checks import c07_executor
        return c07_executor.replay(ctx, data)
    scns = [s for s in scenarios(ctx.pid, True) + scenarios(ctx.pid, False)
            if s['name'] == r['scenario']]
    if not scns:
        print('scenario %s not found' % r['scenario'])
        return 2
    scn  = scns[0]
    part = report.Part()
    mk   = PrioOracle if scn.get('oracle') == 'prio' else SchedOracle
    orc  = mk(scn, part)
    w    = sw.World(scn, r['choices'], orc, visited=None)
    w.run()
    print('scenario :', scn['name'])
    print('events   :', w.events)
    print('log      :')
    for x in orc.log:
        print('    ', x)
    print('stopped  :', w.stopped)
    for k, (d, _) in part.violations.items():
        print('VIOLATED :', k, '--', d['what'])
    return 0 if not part.violations else 1
