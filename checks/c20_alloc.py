'''
C20 part (a) -- worker allotment of the raptor `DefaultWorker`.

Engine B (rpmc.sched): the real `_request_cb`, `_alloc`, `_dealloc`,
`_result_watcher`, `_result_cb`, `_dispatch` and the `_worker_proc` nested in
it run as real threads under the controlled scheduler.

  req.N     : `_request_cb([r1, r2, ...])`          (one per request stream)
  watcher   : `_result_watcher()`                   (polls the result queue)
  dispatch.U: fake process started by `_request_cb`: the real `_dispatch` on
              a deep copy of its arguments (fork semantics)
  wproc.U   : fake process started by `_dispatch`: the real `_worker_proc`
  clock     : virtual time passes (only while a `join(timeout)` is pending)

Seams: the module attributes `mp`, `time`, `os` of worker_default.py.
`mp.Process` is a controlled thread with its own pid, environment and cwd
(`os.getpid/environ/chdir` of the module resolve per fake process, so one
"process" cannot disturb another or the explorer); `terminate()` unwinds the
thread at its next scheduling point; `mp.Lock` / the worker's `mt.Lock`s are
controlled locks; `mp.Queue` is an in-process queue with pickled copies whose
`get(timeout)` is a poll point; `time.sleep` in the allocation wait loop is a
poll point; `setproctitle` is a no-op module.  The per-mode dispatcher is the
environment: it returns ok / returns a failure / raises / never returns (then
the request's timeout has to end it) / ends the process without a report.

Scheduling points: every synchronisation operation, every line of the
worker-side functions, and (scenario flag `lines=all`) every line of
`_dispatch` / `_worker_proc`.
'''

import os
import sys
import copy
import queue
import types
import time
import pickle
import _thread
import signal

from rpmc import seams, report, sched as rs

rp = seams.import_rp()

import radical.utils as ru                                         # noqa: E402
from radical.pilot.raptor import worker_default as wd              # noqa: E402

signal.signal(signal.SIGTERM, signal.SIG_DFL)
signal.signal(signal.SIGINT,  signal.default_int_handler)

DefaultWorker = wd.DefaultWorker

_dispatch_code = DefaultWorker._dispatch.__code__
_wproc_codes   = [c for c in _dispatch_code.co_consts
                  if isinstance(c, types.CodeType)]
WORKER_CODES = set(f.__code__ for f in (DefaultWorker._request_cb,
                                        DefaultWorker._alloc,
                                        DefaultWorker._dealloc,
                                        DefaultWorker._result_watcher,
                                        DefaultWorker._result_cb))
PROC_CODES   = set([_dispatch_code] + _wproc_codes)

TICK = 100.0
TOUT = 5.0


class Killed(BaseException):
    '''SIGTERM for a fake process'''


# ------------------------------------------------------------------------------
#
class FastSem(object):
    '''
    binary semaphore on a raw lock (the baton is handed over strictly
    alternately, so no counting is needed; threading.Semaphore costs ~10x)
    '''
    __slots__ = ('lock',)

    def __init__(self):
        self.lock = _thread.allocate_lock()
        self.lock.acquire()

    def acquire(self):
        self.lock.acquire()

    def release(self):
        try:
            self.lock.release()
        except RuntimeError:
            pass                     # second release while shutting down


class KSched(rs.Sched):
    '''
    The controlled scheduler of rpmc.sched with two additions: threads can be
    terminated (fake processes), and the scheduling decision is taken by the
    yielding thread itself -- the baton goes straight to the chosen thread
    (none at all if the thread continues) instead of via the explorer thread.
    Decisions, recorded choice points and step accounting are those of
    `Sched.run` / `Sched._choose`, so `rs.explore` works unchanged.
    '''

    def __init__(self, *a, **kw):
        rs.Sched.__init__(self, *a, **kw)
        self.ctrl  = FastSem()
        self.error = None

    def spawn(self, name, target, poller=False):
        # raw thread: threading.Thread.start() waits for a start handshake
        # which costs more than a whole execution step sequence
        t = rs.CThread(self, name, target, poller)
        t.sem = FastSem()
        t.fin = FastSem()

        def body():
            try:
                t._run()
            finally:
                t.fin.release()
        _thread.start_new_thread(body, ())
        return t

    def shutdown(self):
        self.aborting = True
        for t in self.threads:
            if t.state != rs.DONE:
                t.sem.release()
        for t in self.threads:
            if not t.fin.lock.acquire(timeout=5):
                sys.stderr.write('c20: thread %s not unwound (%s %s)\n'
                                 % (t.name, t.state, t.where))

    def yield_point(self, state=rs.READY, pred=None, step=True):
        me = self.me()
        if me is None:
            return
        if self.aborting:
            # the execution is over and this thread is unwinding (traced
            # lines of `except:` / `finally:` blocks still come here)
            return
        if getattr(me, 'killed', False):
            if not me.unwinding:
                me.unwinding = True
                raise Killed()
            return                       # unwinding is one atomic step
        if step:
            self.bump(me)
        me.state = state
        me.pred  = pred
        self._handoff(me)
        me.state = rs.READY
        if getattr(me, 'killed', False) and not me.unwinding:
            me.unwinding = True
            raise Killed()

    def _handoff(self, me):
        pick = None
        if self.error is None and self.n_steps < self.max_steps:
            enabled = [t for t in self.threads if t.enabled()]
            if enabled:
                try:
                    pick = enabled[0] if len(enabled) == 1 \
                           else self._choose(enabled)
                except rs.Divergence as e:
                    self.error = e
                    pick = None
                else:
                    self.running = pick
                    self.n_steps += 1
                    pick.steps   += 1
        if pick is me:
            return
        if pick is None:
            self.ctrl.release()          # quiescence, limits, errors
        else:
            pick.sem.release()
        me.sem.acquire()
        if self.aborting:
            raise rs.Abort()

    def run(self):
        try:
            while True:
                if self.error is not None:
                    raise self.error
                enabled = [t for t in self.threads if t.enabled()]
                if not enabled:
                    if self.on_quiescent and self.on_quiescent(self):
                        continue
                    live = [t for t in self.threads
                            if t.state != rs.DONE and not t.daemon]
                    return 'deadlock' if live else 'done'
                pick = enabled[0] if len(enabled) == 1 \
                       else self._choose(enabled)
                self.running = pick
                self.n_steps += 1
                pick.steps   += 1
                if self.n_steps > self.max_steps:
                    return 'steps'
                pick.sem.release()
                self.ctrl.acquire()
        finally:
            self.shutdown()

    def kill(self, t):
        t.killed    = True
        t.unwinding = getattr(t, 'unwinding', False)
        if t.state == rs.BLOCKED:
            t.pred = lambda: True
        self.bump(force=True)


class SLock(rs.CLock):
    '''lock shared between fake processes; a release wakes pollers'''

    def release(self):
        rs.CLock.release(self)
        if self.sched.me() is not None:
            self.sched.bump(force=True)

    def __deepcopy__(self, memo):
        return self

    def __exit__(self, *a):
        self.release()
        return False

    __enter__ = rs.CLock.acquire


class CQueue(object):
    '''mp.Queue: pickled copies; a blocking get with timeout is a poll point'''

    def __init__(self, world):
        self.world = world
        self.items = list()
        self.n_put = 0

    def put(self, x, *a, **kw):
        s = self.world.sched
        s.yield_point()
        self.items.append(pickle.loads(pickle.dumps(x)))
        self.n_put += 1
        try:
            uid = x[0]['uid']
            self.world.n_results[uid] = self.world.n_results.get(uid, 0) + 1
        except Exception:
            pass
        s.bump(force=True)

    def get(self, block=True, timeout=None):
        # the caller polls (`get(timeout=0.1)` in a loop whose Empty branch
        # does nothing): passes which find the queue empty are skipped
        s = self.world.sched
        s.yield_point()
        s.block_until(lambda: bool(self.items))
        s.bump(force=True)
        return self.items.pop(0)

    def close(self):
        pass

    def join_thread(self):
        pass

    def __deepcopy__(self, memo):
        return self


class FakeProcess(object):

    def __init__(self, world, target=None, args=(), kwargs=None, name=None,
                 group=None, daemon=None):
        self.world    = world
        self.target   = target
        self.args     = tuple(args)
        self.kwargs   = dict(kwargs or {})
        self.daemon   = bool(daemon)
        self.pid      = None
        self.exitcode = None
        self.started  = False
        self.ended    = False
        self.error    = None
        self.thread   = None
        self.parent   = world.cur_proc()
        self.children = list()
        if self.parent is None:
            self.uid  = self.args[0]['uid']          # _dispatch(task, env)
            self.kind = 'dispatch'
        else:
            self.uid  = self.parent.uid
            self.kind = 'wproc'

    def start(self):
        w, s = self.world, self.world.sched
        s.yield_point()
        if self.kind == 'dispatch':
            w.granted[self.uid] = copy.deepcopy(self.args[0].get('slots'))
            w.grant_order.append(self.uid)
            if w.payload(self.uid) == 'nofork':
                raise OSError(11, 'Resource temporarily unavailable (injected)')
        self.pid      = w.next_pid()
        w.pid_uid[self.pid] = self.uid
        self.args     = copy.deepcopy(self.args)       # fork: child has a copy
        self.environ  = dict(w.cur_env())
        self.cwd      = w.cur_cwd()
        self.started  = True
        if self.parent is not None:
            self.parent.children.append(self)
        w.procs.append(self)
        self.thread = s.spawn('%s.%s' % (self.kind, self.uid), self._main)
        w.proc_of[self.thread] = self
        s.bump(force=True)

    def _main(self):
        s  = self.world.sched
        me = s.me()
        try:
            if getattr(me, 'killed', False):
                me.unwinding = True
                raise Killed()
            self.target(*self.args, **self.kwargs)
            # the target has returned, the process is still there: interpreter
            # and queue feeder shut down before the parent sees it gone
            s.yield_point()
            self.exitcode = 0
        except SystemExit as e:
            self.exitcode = e.code if isinstance(e.code, int) else \
                            0 if e.code is None else 1
        except Killed:
            self.exitcode = -15
        except rs.Abort:
            raise
        except BaseException as e:                                # noqa: B902
            self.exitcode = 1
            self.error    = e
        finally:
            self.ended = True
            self.world.left(self)
            for c in self.children:
                if c.daemon and c.started and not c.ended:
                    s.kill(c.thread)

    def is_alive(self):
        self.world.sched.yield_point()
        return self.started and not self.ended

    def join(self, timeout=None):
        w, s = self.world, self.world.sched
        s.yield_point()
        if not self.started:
            raise AssertionError('can only join a started process')
        if timeout is None:
            s.block_until(lambda: self.ended)
            return
        rec = {'deadline': s.now + timeout, 'proc': self, 'active': True}
        w.timed.append(rec)
        try:
            s.block_until(lambda: self.ended or s.now >= rec['deadline'])
        finally:
            rec['active'] = False

    def terminate(self):
        s = self.world.sched
        s.yield_point()
        if self.started and not self.ended:
            s.kill(self.thread)

    kill = terminate


class FakeMP(object):

    def __init__(self, world):
        self.world = world

    def Process(self, *a, **kw):
        return FakeProcess(self.world, *a, **kw)

    def Lock(self):
        return SLock(self.world.sched, 'mp.lock')

    def Queue(self, *a, **kw):
        return CQueue(self.world)


class FakeTime(object):

    def __init__(self, world):
        self.world = world

    def time(self):
        return self.world.sched.now

    def sleep(self, dt):
        # the only sleep is the allocation retry loop of `_request_cb`:
        # `_alloc` is a function of `_resources`, so retries are skipped until
        # the occupancy has changed
        w   = self.world
        sig = lambda: repr(w.w._resources)
        old = sig()
        w.sched.yield_point()
        w.sched.block_until(lambda: sig() != old)


class FakeOS(object):
    '''`os` of worker_default.py: process-wide state is per fake process'''

    def __init__(self, world):
        self.__dict__['world'] = world

    def __getattr__(self, name):
        return getattr(os, name)

    @property
    def environ(self):
        return self.world.cur_env()

    def getenv(self, key, default=None):
        return self.world.cur_env().get(key, default)

    def getpid(self):
        p = self.world.cur_proc()
        return p.pid if p else self.world.main_pid

    def chdir(self, path):
        p = self.world.cur_proc()
        if p: p.cwd = path
        else: self.world.main_cwd = path

    def getcwd(self):
        return self.world.cur_cwd()


class FakeSetproctitle(types.ModuleType):

    def __init__(self):
        types.ModuleType.__init__(self, 'setproctitle')

    def setproctitle(self, title):
        pass


class Recorder(object):
    '''`_res_put`: the queue back to the master'''

    def __init__(self, world):
        self.world = world

    def put(self, task, qname=None):
        w = self.world
        w.sched.yield_point()
        for t in ru.as_list(task):
            w.results.append(seams.wire(t))
        w.sched.bump(force=True)


# ------------------------------------------------------------------------------
#
DEMANDS = {'1c'  : lambda c, g: (1, 0),
           '2c'  : lambda c, g: (2, 0),
           '1c1g': lambda c, g: (1, 1),
           'nc'  : lambda c, g: (c, 0),
           'ncng': lambda c, g: (c, g),
           'over': lambda c, g: (c + 1, 0)}

PAYLOADS = ['ok', 'fail', 'raise', 'hang/t', 'ok/t', 'dies', 'nofork']


def make_request(uid, scn, req, sbox):
    cores, gpus = DEMANDS[req['demand']](scn['cores'], scn['gpus'])
    timeout = TOUT if req['payload'].endswith('/t') else 0.0
    mode = rp.TASK_FUNCTION if req.get('async') else rp.TASK_EVAL
    return seams.wire({
        'uid'        : uid,
        'cores'      : cores,
        'gpus'       : gpus,
        'description': {'uid': uid, 'mode': mode, 'timeout': timeout,
                        'code': 'c20', 'function': 'c20',
                        'environment': {'C20_REQ': uid}},
        'task_sandbox_path': '%s/%s' % (sbox, uid)})


class World(object):

    def __init__(self, scn, prefix, sbox):
        self.scn   = scn
        self.sbox  = sbox
        traced     = set(WORKER_CODES)
        if scn.get('lines') == 'all':
            traced |= PROC_CODES
        self.sched = s = KSched(prefix, traced=traced, max_steps=6000)

        self.proc_of  = dict()          # CThread -> FakeProcess
        self.procs    = list()
        self.pid_uid  = dict()
        self.main_pid = 7000
        self.main_env = {'PATH': '/usr/bin:/bin'}
        self.main_cwd = sbox
        self._pid     = 7000
        self.timed    = list()          # pending join(timeout) records
        self.results  = list()          # what went back to the master
        self.granted  = dict()          # uid -> slots at dispatch start
        self.grant_order = list()
        self.n_results = dict()         # uid -> results put on the mp queue
        self.running  = dict()          # uid -> slots while the payload runs
        self.ran      = list()          # (uid, slots) of every payload start
        self.flaws    = list()          # in-flight violations
        self.end      = None

        self.reqs = dict()
        for i, r in enumerate(scn['reqs']):
            self.reqs['r%d' % (i + 1)] = r

        w = DefaultWorker.__new__(DefaultWorker)
        w._log      = seams.null()
        w._prof     = seams.null()
        w._uid      = 'worker.0000'
        w._sbox     = sbox
        w._n_cores  = scn['cores']
        w._n_gpus   = scn['gpus']
        w._rlock    = SLock(s, 'rlock')
        w._plock    = SLock(s, 'plock')
        w._resources = {'cores': [0] * w._n_cores, 'gpus': [0] * w._n_gpus}
        w._res_evt  = seams.null()
        w._pool     = dict()
        w._task_env = {'PATH': '/usr/bin:/bin'}
        w._result_queue = CQueue(self)
        w._res_put  = Recorder(self)
        w._modes    = dict()
        w.register_mode(rp.TASK_EVAL, self._seam_sync)
        w.register_mode(rp.TASK_FUNC, self._seam_async)
        self.w = w

    # -- per fake process state ------------------------------------------------
    def cur_proc(self):
        me = self.sched.me()
        return self.proc_of.get(me) if me is not None else None

    def cur_env(self):
        p = self.cur_proc()
        return p.environ if p else self.main_env

    def cur_cwd(self):
        p = self.cur_proc()
        return p.cwd if p else self.main_cwd

    def next_pid(self):
        self._pid += 1
        return self._pid

    def payload(self, uid):
        return self.reqs[uid]['payload']

    # -- the dispatcher seam ---------------------------------------------------
    def _enter(self, task):
        uid   = task['uid']
        slots = copy.deepcopy(task.get('slots'))
        n_c, n_g = self.scn['cores'], self.scn['gpus']
        want_c, want_g = DEMANDS[self.reqs[uid]['demand']](n_c, n_g)
        trig  = self.demand_trigger()
        try:
            cores = list(slots[0]['cores'])
            gpus  = list(slots[0]['gpus'])
        except Exception:
            self.flaws.append(('slot-shape', 'DefaultWorker._alloc', trig,
                               '%s runs with slots %r' % (uid, slots)))
            cores, gpus = [], []
        if any(c not in range(n_c) for c in cores) or \
           any(g not in range(n_g) for g in gpus) or \
           len(set(cores)) != len(cores) or len(set(gpus)) != len(gpus):
            self.flaws.append(('slot-outside-allotment', 'DefaultWorker._alloc',
                               trig, '%s runs on cores %s gpus %s of a worker '
                               'with %d cores %d gpus' % (uid, cores, gpus,
                                                          n_c, n_g)))
        if len(cores) != want_c or len(gpus) != want_g:
            self.flaws.append(('grant-size', 'DefaultWorker._alloc', trig,
                               '%s asked for %d cores %d gpus and runs on '
                               'cores %s gpus %s while %s are running'
                               % (uid, want_c, want_g, cores, gpus,
                                  dict(self.running))))
        for other, (oc, og) in self.running.items():
            if set(oc) & set(cores) or set(og) & set(gpus):
                self.flaws.append(('slot-overlap', 'DefaultWorker._alloc', trig,
                                   '%s runs on cores %s gpus %s while %s runs '
                                   'on cores %s gpus %s' % (uid, cores, gpus,
                                                            other, oc, og)))
        self.running[uid] = (cores, gpus)
        self.ran.append((uid, cores, gpus, sorted(self.running)))

    def left(self, proc):
        '''a fake process is gone: its payload does not run any more'''
        if proc.kind == 'wproc':
            self.running.pop(proc.uid, None)

    def _seam(self, task):
        s    = self.sched
        uid  = task['uid']
        kind = self.payload(uid)
        self._enter(task)
        try:
            s.yield_point()
            if kind in ('ok', 'ok/t'):
                return 'out', '', 0, 'val:%s' % uid, (None, None)
            if kind == 'fail':
                return '', 'call failed', 1, None, ('RuntimeError("x")', 'tb')
            if kind == 'raise':
                raise RuntimeError('dispatcher raises (injected)')
            if kind == 'dies':
                raise SystemExit(3)
            if kind == 'hang/t':
                s.block_until(lambda: False)
            raise AssertionError(kind)
        finally:
            self.running.pop(uid, None)

    def _seam_sync(self, task):
        return self._seam(task)

    async def _seam_async(self, task):
        return self._seam(task)

    def demand_trigger(self):
        return 'concurrent-streams' if len(self.scn['streams']) > 1 \
               else 'one-stream'

    # --------------------------------------------------------------------------
    def run(self):
        s, w, scn = self.sched, self.w, self.scn
        olds = (wd.mp, wd.time, wd.os, sys.modules.get('setproctitle'))
        wd.mp   = FakeMP(self)
        wd.time = FakeTime(self)
        wd.os   = FakeOS(self)
        sys.modules['setproctitle'] = FakeSetproctitle()

        def mk_stream(idx):
            tasks = [make_request('r%d' % (i + 1), scn, scn['reqs'][i],
                                  self.sbox) for i in idx]
            return lambda: w._request_cb(tasks)

        def t_clock():
            while True:
                s.block_until(lambda: any(r['active'] and not r['proc'].ended
                                          and s.now < r['deadline']
                                          for r in self.timed))
                s.yield_point()
                s.now += TICK
                s.bump(force=True)

        try:
            self.streams = list()
            for n, idx in enumerate(scn['streams']):
                self.streams.append(s.spawn('req.%d' % n, mk_stream(idx)))
            self.watcher = s.spawn('watcher', w._result_watcher, poller=True)
            self.watcher.daemon = True
            if any(r['payload'].endswith('/t') for r in scn['reqs']):
                t = s.spawn('clock', t_clock, poller=True)
                t.daemon = True
            def on_quiescent(sched):
                # liveness of the watcher is read before the threads are
                # unwound
                self.watcher_alive = self.watcher.state != rs.DONE
                return False
            s.on_quiescent = on_quiescent
            self.watcher_alive = None
            self.end = s.run()
            if self.watcher_alive is None:
                self.watcher_alive = self.watcher.exc is None
        finally:
            wd.mp, wd.time, wd.os = olds[:3]
            if olds[3] is None: sys.modules.pop('setproctitle', None)
            else              : sys.modules['setproctitle'] = olds[3]
        return self


# ------------------------------------------------------------------------------
#
def site_of(payload):
    return {'dies'  : 'DefaultWorker._dispatch',
            'nofork': 'DefaultWorker._request_cb',
            'hang/t': 'DefaultWorker._dispatch',
            'ok/t'  : 'DefaultWorker._dispatch'}.get(payload,
                                                    'DefaultWorker._result_cb')


def judge(part, world):
    scn, s, w = world.scn, world.sched, world.w
    replay = {'part': 'a', 'scenario': scn['name'], 'schedule': list(s.choices)}
    names  = {t.tid: t.name for t in s.threads}
    found  = list()
    out    = list()

    def viol(clause, site, trig, what):
        found.append(clause)
        out.append(('%s|%s|%s' % (clause, site, trig),
                       {'what': what, 'scenario': scn['name'],
                        'worker': '%d cores %d gpus' % (scn['cores'],
                                                        scn['gpus']),
                        'requests': scn['reqs'],
                        'schedule': [names.get(x, x) for x in s.choices][-40:],
                        'deviations': s.preemptions()}, replay))

    n_c, n_g = scn['cores'], scn['gpus']
    uids = sorted(world.reqs)

    def accepted(uid):
        c, g = DEMANDS[world.reqs[uid]['demand']](n_c, n_g)
        return 1 <= c <= n_c and 0 <= g <= n_g

    for f in world.flaws:
        viol(*f)

    if world.end == 'steps':
        viol('livelock', 'DefaultWorker', world.demand_trigger(),
             'step limit hit')

    # which requests were reached at all?  A stream ends at a request the
    # worker refuses (over-sized demand: outside the property's quantifier)
    refused, unreached = set(), set()
    for t, idx in zip(world.streams, scn['streams']):
        stream = ['r%d' % (i + 1) for i in idx]
        bad = [u for u in stream if not accepted(u)]
        if bad:
            k = stream.index(bad[0])
            refused.add(bad[0])
            if t.exc is not None:
                unreached.update(stream[k + 1:])
            else:
                refused.update(bad[1:])
        if t.exc is not None and not bad:
            viol('request-cb-dies', 'DefaultWorker._request_cb',
                 '%s:%s' % (type(t.exc).__name__,
                            '+'.join(world.payload(u) for u in stream)),
                 'the request callback ended with %r: requests %s'
                 % (t.exc, stream))

    watcher_dead = not world.watcher_alive or world.watcher.exc is not None
    if watcher_dead:
        e   = world.watcher.exc
        uid = None
        if isinstance(e, KeyError) and e.args:
            uid = world.pid_uid.get(e.args[0])
        n_put = sum(1 for p in world.procs if p.uid == uid) if uid else 0
        viol('watcher-alive',
             'DefaultWorker._dispatch' if uid else
             'DefaultWorker._result_watcher',
             '%s:%s' % ('second-result'
                        if world.n_results.get(uid, 0) > 1 else
                        'process-unknown', world.payload(uid)) if uid else
             type(e).__name__,
             'the result watcher thread died with %r%s; results of later '
             'requests are never collected'
             % (e, ' while handling a result for %s (%s), for which %d '
                   'results were put on the result queue'
                   % (uid, world.reqs[uid], world.n_results.get(uid, 0))
                   if uid else ''))

    per_uid = dict()
    starved = list()
    for uid in uids:
        res = [r for r in world.results if r['uid'] == uid]
        per_uid[uid] = res
        pl  = world.payload(uid)
        if uid in refused or uid in unreached:
            continue
        if watcher_dead:
            continue
        if uid not in world.granted:
            # never got its allocation: judged below (`stuck`)
            starved.append(uid)
            continue
        if len(res) != 1:
            viol('result-count', site_of(pl), '%s:n=%d' % (pl, len(res)),
                 'request %s (%s) produced %d results on the queue to the '
                 'master' % (uid, world.reqs[uid], len(res)))
            continue
        r  = res[0]
        ec = r.get('exit_code')
        ex = r.get('exception')
        if pl == 'ok':
            good = ec == 0 and not ex and r.get('return_value') == \
                   'val:%s' % uid
        elif pl == 'ok/t':
            good = (ec == 0 and not ex) or \
                   (isinstance(ec, int) and ec != 0 and 'Timeout' in str(ex))
        elif pl == 'hang/t':
            good = isinstance(ec, int) and ec != 0 and 'Timeout' in str(ex)
        elif pl == 'nofork':
            good = ec in (None,) or (isinstance(ec, int) and ec != 0)
            good = good and bool(ex)
        else:
            good = isinstance(ec, int) and ec != 0 and bool(ex)
        if not good:
            viol('result-truth', site_of(pl), pl,
                 'request %s (%s) reports exit_code=%r exception=%r '
                 'return_value=%r' % (uid, pl, ec, ex, r.get('return_value')))

    if not watcher_dead:
        busy_c = [i for i, x in enumerate(w._resources['cores']) if x]
        busy_g = [i for i, x in enumerate(w._resources['gpus'])  if x]
        if busy_c or busy_g:
            # whose are they?  the last request each one was granted to
            last = dict()
            for uid in world.grant_order:
                try:
                    for c in world.granted[uid][0]['cores']: last['c', c] = uid
                    for g in world.granted[uid][0]['gpus'] : last['g', g] = uid
                except Exception:
                    pass
            owners = sorted(set([last[k] for k in [('c', c) for c in busy_c] +
                                                  [('g', g) for g in busy_g]
                                         if k in last]))
            cls = sorted(set(world.payload(u) for u in owners)) or ['?']
            for c in cls:
                viol('resources-returned', site_of(c), c,
                     'at quiescence cores %s gpus %s are still marked busy '
                     '(last granted to %s)'
                     % (busy_c, busy_g, {u: world.reqs[u] for u in owners}))
        if w._pool:
            owners = sorted(set(world.payload(world.pid_uid[p])
                                for p in w._pool if p in world.pid_uid))
            for c in owners or ['?']:
                viol('pool-empty', site_of(c), c,
                     'at quiescence the process table still holds %s'
                     % {p: (world.pid_uid.get(p),
                            world.payload(world.pid_uid[p])
                            if p in world.pid_uid else None)
                        for p in w._pool})
        alive = [p for p in world.procs if not p.ended]
        if alive and world.end == 'done':
            viol('process-left', 'DefaultWorker._dispatch',
                 '+'.join(sorted(set(world.payload(p.uid) for p in alive))),
                 'processes still alive at quiescence: %s'
                 % [(p.kind, p.uid) for p in alive])
        for p in world.procs:
            if p.error is not None and p.kind == 'dispatch':
                viol('dispatch-crashed', 'DefaultWorker._dispatch',
                     '%s:%s' % (type(p.error).__name__, world.payload(p.uid)),
                     'dispatch process of %s ended with %r' % (p.uid, p.error))

    if (world.end == 'deadlock' or starved) and not found:
        # requests which wait for an allocation although nothing else went
        # wrong (otherwise they are a consequence of what is reported above)
        stuck = [(t.name, t.where) for t in s.threads
                 if t.state != rs.DONE and not t.daemon]
        viol('stuck', 'DefaultWorker._request_cb', world.demand_trigger(),
             'requests %s never got their allocation; threads which cannot '
             'proceed: %s' % (starved, stuck))

    obs = tuple((u, world.reqs[u]['demand'], world.payload(u),
                 'refused' if u in refused else
                 'unreached' if u in unreached else
                 tuple((r.get('exit_code'), bool(r.get('exception')))
                       for r in per_uid[u])) for u in uids)
    order = tuple(x[0] for x in world.ran)
    conc  = max([len(x[3]) for x in world.ran] or [0])
    part.outcome(('a', scn['name'], obs, order, conc, world.end))
    world.violations = out
    return found


# ------------------------------------------------------------------------------
#
def scenarios(quick):
    out = list()

    def add(fam, cores, gpus, reqs, streams=None, lines='worker', bound=None):
        reqs = [dict(r) for r in reqs]
        name = '%s/%dc%dg/%s%s/%s/b%d' % (
               fam, cores, gpus,
               ','.join('%s:%s%s' % (r['demand'], r['payload'],
                                     ':async' if r.get('async') else '')
                        for r in reqs),
               '' if not streams else '/streams=%s' % streams, lines, bound)
        if any(o['name'] == name for o in out):
            return
        out.append({'name': name, 'family': fam, 'cores': cores, 'gpus': gpus,
                    'reqs': reqs, 'lines': lines, 'bound': bound,
                    'streams': streams or [list(range(len(reqs)))]})

    R = lambda d, p, a=False: {'demand': d, 'payload': p, 'async': a}

    # F1: one request, every demand x every outcome, both dispatcher kinds;
    #     with line-level scheduling points in the fake processes as well
    for cores, gpus in ((2, 0), (2, 1)):
        for d in ('1c', '2c', '1c1g', 'ncng', 'over'):
            if gpus == 0 and d == 'ncng':
                continue
            for p in PAYLOADS:
                add('one', cores, gpus, [R(d, p)], lines='all',
                    bound=1 if quick else 2)
                deep = gpus == 1 and d == '1c' and \
                       p in ('ok', 'ok/t', 'hang/t', 'nofork')
                add('one', cores, gpus, [R(d, p)],
                    bound=(2 if deep else 1) if quick else 2)
        for p in PAYLOADS:
            add('one', cores, gpus, [R('1c', p, True)], lines='all', bound=1)
            add('one', cores, gpus, [R('1c', p, True)],
                bound=1 if quick else 2)

    # F2: two requests in one stream: every demand pair x every outcome pair
    dem2  = ('1c', '2c', '1c1g', 'over')
    core2 = ('ok', 'hang/t', 'ok/t')
    for d1 in dem2:
        for d2 in dem2:
            for p1 in PAYLOADS:
                for p2 in PAYLOADS:
                    if d1 == 'over' and p1 != 'ok':
                        continue      # a refused request never runs
                    if d2 == 'over' and p2 != 'ok':
                        continue
                    if quick and 'fail' in (p1, p2):
                        continue      # like `raise` for the worker side;
                                      # covered by the one-request family
                    deep = not quick and p1 in core2 and p2 in core2 \
                           and (d1, d2) in (('1c', '2c'), ('1c1g', '1c1g'))
                    add('two', 2, 1, [R(d1, p1), R(d2, p2)],
                        bound=2 if deep else 1)

    # F3: three requests
    dem3 = [('1c', '1c', '1c'), ('1c', '2c', '1c'), ('2c', '1c', '1c'),
            ('1c1g', '1c1g', '1c'), ('1c', '1c', '2c'), ('2c', '2c', '2c')]
    pay3 = ('ok', 'raise', 'hang/t') if quick else \
           ('ok', 'fail', 'hang/t', 'ok/t', 'dies', 'nofork')
    for ds in (dem3[:4] if quick else dem3):
        for p1 in pay3:
            for p2 in pay3:
                for p3 in pay3:
                    if quick and len(set((p1, p2, p3))) == 3:
                        continue
                    add('three', 2, 1, [R(ds[0], p1), R(ds[1], p2),
                                        R(ds[2], p3)], bound=1)
    for ds in (('1c', '1c', 'nc'), ('nc', '1c', '1c'), ('1c1g', 'ncng', '1c')):
        for p in ('ok', 'hang/t'):
            add('three', 3, 1, [R(ds[0], p), R(ds[1], 'ok'),
                                R(ds[2], 'ok')], bound=1)

    if not quick:
        # the DESIGN bound (3 requests, 2 deviations) for a few workloads
        for ds, ps in ((('1c', '1c', '1c'),     ('ok', 'ok', 'ok')),
                       (('1c', '2c', '1c'),     ('ok', 'ok', 'ok')),
                       (('2c', '1c', '1c'),     ('ok', 'ok', 'ok')),
                       (('1c1g', '1c1g', '1c'), ('ok', 'ok', 'ok')),
                       (('1c', '2c', '1c'),     ('hang/t', 'ok', 'ok')),
                       (('2c', '2c', '2c'),     ('ok', 'nofork', 'ok'))):
            add('three', 2, 1, [R(d, p) for d, p in zip(ds, ps)], bound=2)

    # F4: two concurrent request streams (the allocation must be atomic)
    for d1 in ('1c', '2c', '1c1g'):
        for d2 in ('1c', '2c', '1c1g'):
            for p in ('ok', 'hang/t'):
                add('streams', 2, 1, [R(d1, p), R(d2, 'ok')],
                    streams=[[0], [1]],
                    bound=2 if (not quick and p == 'ok') else 1)
    add('streams', 2, 1, [R('1c', 'ok'), R('1c', 'ok'), R('1c', 'ok')],
        streams=[[0, 1], [2]], bound=1)
    return out


_scns = None
_sbox = None
_slot = None
_deadline = None


def _pin():
    '''
    one CPU per pool worker: the baton hand-over between the threads of an
    execution is twice as fast when they share a CPU
    '''
    try:
        cpus = sorted(os.sched_getaffinity(0))
        with _slot.get_lock():
            idx = _slot.value
            _slot.value += 1
        os.sched_setaffinity(0, {cpus[idx % len(cpus)]})
    except Exception:
        pass


def run_one(scn, prefix):
    w = World(scn, prefix, _sbox)
    w.run()
    return w.sched, w


def _job(i):
    global _sbox
    part = report.Part()
    scn  = _scns[i]
    _sbox = os.path.join(os.environ.get('RPMC_SCRATCH', '/tmp'),
                         'c20.sbox.%d' % os.getpid())
    os.makedirs(_sbox, exist_ok=True)
    n = steps = 0
    best = dict()       # key -> (rank, detail, replay): fewest deviations first
    try:
        for sch, w in rs.explore(lambda p: run_one(scn, p), scn['bound'],
                                 max_exec=scn.get('max_exec')):
            if sch is not None and time.time() > _deadline:
                part.cap('scenario %s: wall-clock guard hit after %d '
                         'schedules at bound %d' % (scn['name'], n,
                                                    scn['bound']))
                break
            if sch is None:
                part.cap('scenario %s: execution cap hit, %d schedules left at '
                         'bound %d' % (scn['name'], w, scn['bound']))
                break
            n     += 1
            steps += sch.n_steps
            found = judge(part, w)
            if found:
                fresh = [v for v in w.violations
                         if v[0] not in best or
                         (v[1]['deviations'], len(sch.choices)) <
                         best[v[0]][0]]
                if fresh:
                    # determinism guard: the recorded schedule reproduces it
                    sch2, w2 = run_one(scn, list(sch.choices))
                    again = judge(report.Part(), w2)
                    if sorted(again) != sorted(found):
                        part.violation('HARNESS#divergence|%s' % scn['name'],
                                       '%s vs %s' % (found, again), None)
                for key, detail, rep in fresh:
                    best[key] = ((detail['deviations'], len(sch.choices)),
                                 detail, rep)
                part.nviol += len(w.violations)
    except rs.Divergence as e:
        part.violation('HARNESS#divergence|%s' % scn['name'], repr(e), None)
    for key, (rank, detail, rep) in best.items():
        detail['rank'] = [len(scn['reqs'])] + list(rank)
        part.violation(key, detail, rep)
    part.cover(evaluations=n, states=steps, transitions=steps,
               traces_validated_against_impl=n, allotment_scenarios=1,
               allotment_executions=n,
               **{'allotment_executions_%s' % scn['family']: n})
    if i in (0, len(_scns) // 2):
        part.sample({'part': 'a', 'scenario': scn['name'], 'schedules': n,
                     'deviation_bound': scn['bound']})
    return part.dump()


def run(ctx):
    global _scns, _slot, _deadline
    import multiprocessing
    _deadline = time.time() + (70 if ctx.quick else 1020)
    _slot = multiprocessing.get_context('fork').Value('i', 0)
    _scns = scenarios(ctx.quick)
    cap   = 20000 if ctx.quick else 100000
    for s in _scns:
        s['max_exec'] = cap
    errs = list()
    # largest scenarios first
    order = sorted(range(len(_scns)),
                   key=lambda i: (-_scns[i]['bound'], -len(_scns[i]['reqs']),
                                  _scns[i]['lines'] != 'all'))
    best = dict()
    for res in seams.pmap(_job, order, ctx.workers, init=_pin):
        for key, detail, rep in res['violations']:
            if key.startswith('HARNESS#'):
                errs.append((key, detail))
            elif key not in best or detail['rank'] < best[key][0]['rank']:
                best[key] = (detail, rep)
        res['violations']  = list()
        res['nviol_extra'] = 0
        ctx.merge(res)
    if errs:
        raise RuntimeError('harness errors: %s' % errs[:3])
    bounds = dict()
    for sc in _scns:
        bounds.setdefault(sc['family'], set()).add(sc['bound'])
    ctx.set(deviation_bound=max(sc['bound'] for sc in _scns),
            deviation_bounds_by_family={k: sorted(v)
                                        for k, v in sorted(bounds.items())})
    # per key the counterexample with the fewest requests / deviations
    for key, (detail, rep) in sorted(best.items()):
        ctx.violation(key, detail, rep)
    return len(_scns)


def replay(ctx, r):
    global _sbox
    scn = [s for s in scenarios(True) + scenarios(False)
           if s['name'] == r['scenario']][0]
    _sbox = os.path.join(ctx.scratch, 'c20.sbox')
    os.makedirs(_sbox, exist_ok=True)
    part = report.Part()
    sch, w = run_one(scn, r['schedule'])
    judge(part, w)
    for key, detail, rep in w.violations:
        part.violation(key, detail, rep)
    names = {t.tid: t.name for t in sch.threads}
    print('part (a): %s' % scn['name'])
    print('schedule :', [names.get(x, x) for x in sch.choices])
    print('end      :', w.end)
    print('payloads :', [(u, c, g, 'concurrent: %s' % r_)
                         for u, c, g, r_ in w.ran])
    print('results  :', [(t['uid'], t.get('exit_code'), t.get('exception'))
                         for t in w.results])
    print('resources:', w.w._resources, 'pool:', list(w.w._pool))
    print('watcher  :', 'alive' if w.watcher_alive and not w.watcher.exc
                        else 'died with %r' % (w.watcher.exc,))
    for k, (d, _) in part.violations.items():
        print('VIOLATED', k, '::', d['what'])
    return 1 if part.violations else 0
