'''
C11 -- Staging directives move the named data to the named place.

Engine C (DESIGN.md 3.3, section C11, appendix A.9): exhaustive enumeration of
a bounded alphabet of staging directives, real code, independent reference.

Harness
-------
Every case gets its own directory tree below the scratch dir:

    <root>/client                                   client sandbox (cwd of app)
    <root>/base/radical.pilot.sandbox               resource sandbox
    <root>/base/radical.pilot.sandbox/<sid>         session  sandbox
    <root>/base/radical.pilot.sandbox/<sid>/<pid>   pilot    sandbox
    .../<pid>/<task uid>                            task     sandboxes (A, B)
    <root>/abs                                      for absolute paths

and a chain of *real* components, constructed bare (`Cls.__new__`) and set up
by their own `initialize()` on the in-memory net (`rpmc.net`):

    TaskManager.submit_tasks -> Task.__init__ -> expand_description
      -> tmgr scheduler RoundRobin (work_cb; real `_assign_pilot`, sandboxes
         from the real `Session._get_*_sandbox` of a bare Session)
      -> tmgr  staging_input .Default (work_cb)     [Transfer, Tarball]
      -> (proxy queue, moved by the harness as Agent_0 does)
      -> agent staging_input .Default (work_cb)     [Copy, Link, Move, untar]
      -> harness stands for scheduler + executor: checks the input clauses,
         writes the task's output files, sets target_state DONE/FAILED/CANCELED
      -> agent staging_output.Default (work_cb)     [Copy, Link, Move]
      -> (collecting queue -> proxy queue, moved by the harness)
      -> tmgr  staging_output.Default (work_cb)     [Transfer]

The stager is the real `StagingHelper` (SAGA is not installed: its own
constructor falls back to `StagingHelper_Local`).  Every world holds the task
under test (A) and a bystander (B) whose directives are all good and use
schema-less relative sources and targets on the client and on the agent side.

History independence: the components of one world handle the tasks one after
the other, so whatever a component (or its module) keeps from one task to the
next is visible.  The `order` of a case says who comes first and how: `AB`
one submission (one bulk where the component keeps bulks together), `B,A`
separate submissions and bulks with the bystander first, a trailing `+`
forwards all pending bulks as one.  Part seq3 runs three tasks under test
through one world.  Every directive is labelled with the position (first /
later) its task had in the component which handles it, read from the order of
the state publications.

Existing targets: part `pre` writes other bytes to the target before staging;
in part `same` successive tasks (`A;C`: A is staged, run, staged out and
checked before C is submitted) name one target in the pilot / session /
resource sandbox or in a task sandbox they share via `description.sandbox`.
Whether a target exists before its directive is carried out is read from the
file system (attribute `pre`).  The code may refuse such a directive (task
FAILED, bystander unaffected) or replace the target; passing the task on with
the old bytes is `target-wrong-content|<backend>.<op>|...:target-preexists`
(the backend operation, run alone on an existing target, keeps it silently).

Targets which denote a directory: part `intodir` gives COPY and TRANSFER (dict,
`f > d/`, `d/ < f`; input and output, all four components) a target with a
trailing slash (directory new / existing), the name of an existing directory
(made by the harness, by an earlier directive of the list, by an earlier task),
a sandbox root (`task:///`) or the empty string.  The code under test gives
`cp file dir/` semantics for every one of them (observed on the clean tree for
all 502 cases, none is refused), so that is what the target clause asks for:
the bytes are at <directory>/<base name of the source>, the task is not FAILED.

Directories which come and go: part `dirs` lets a directive stage into a
directory D (created on the way), has D moved away -- by a MOVE directive whose
source is D (same list, or the other staging side of the task / of the next
task), by the task itself between input and output staging, or by the
application between two tasks -- and stages into D/... again, on the stager of
one component: within one list (agent side, in and out) and across two tasks
(`A;C`, all four components).  Judged by the clauses above: the later target
holds its bytes, no task with legal directives is FAILED.

Reference (A.9)
---------------
`schema:///p` -> sandbox(schema)/p for client, task, pilot, session, resource,
endpoint (= /); absolute p -> p; `file://localhost/p` -> /p; relative p ->
pwd/p with pwd = client (tmgr stage-in source, tmgr stage-out target) or task
sandbox (everything else); no target -> basename(source) in the target
context.  Sandboxes follow the documented hierarchy
<workdir>/radical.pilot.sandbox/<session>/<pilot>/<task>.  Transfer/Tarball
are client side actions, Copy/Link/Move agent side actions.

Oracle (clause names as they appear in violation keys)
------
target-<symptom>        a task passed input staging / a DONE task passed output
                        staging => the target of every directive holds the
                        bytes of its source; symptoms: missing, misplaced (the
                        bytes are elsewhere), wrong-content, not-a-link (Link:
                        same inode or symlink to it), source-not-removed (Move)
unstageable-not-failed  a directive whose source is missing => that task ends
                        FAILED (is not passed on / does not end DONE)
good-task-failed        a task whose directives can all be carried out is not
                        FAILED by a stager
bystander-failed,       the other task of the bulk is passed on, staged, DONE,
failed-and-passed/-done and never announced as FAILED
foreign-data            after input and after output staging every task sandbox
                        holds nothing but the sources and targets of its own
                        directives (and its own tarball)
failed-task-output-staged  FAILED / CANCELED without stage_on_error (or a task
                        which failed in input staging) => no output target
form-refused            a documented form is refused at submission

Not demanded (observed only): what happens to output directives of a failed
task *with* stage_on_error; whether an exception text is recorded.

Inputs which the code may legitimately refuse (the task is FAILED, nothing is
demanded; if it is passed on / DONE the data must be in place):  `client://`
in an agent side action (documented as unsupported in
Session._get_client_sandbox), source == target, `schema://p` with p parsed as
host (documented as invalid).

Keys
----
`clause|site|trigger`.  The site is diagnosed per failure: expansion differs
from the reference -> expand_staging_directives; the real complete_url(), run
alone, resolves the path differently -> complete_url; the stager's own copy()
run alone does not copy the file / does not report a missing file ->
<backend>.copy; tarball arrived intact in the task sandbox -> agent side; else
the component which handles the action.  For the target and good-task-failed
clauses the trigger is computed at the end of the run (`aggregate`): the
direction plus the smallest set of directive attributes (op, position in the
component, action, form, source / target location and shape, odd spelling) such that every evaluated
directive agreeing on them fails -- one cause, one key.
'''

import os
import glob
import pprint
import shutil
import tempfile
import itertools

from rpmc import seams, net, report, clientworld as cw

rp = seams.import_rp()

import radical.utils as ru                                         # noqa: E402

from radical.pilot import states    as rps                         # noqa: E402
from radical.pilot import constants as rpc                         # noqa: E402
from radical.pilot import utils     as rpu                         # noqa: E402

from radical.pilot.tmgr.scheduler.round_robin      import RoundRobin      # noqa
from radical.pilot.tmgr.staging_input.default      import Default as TmgrIn   # noqa
from radical.pilot.tmgr.staging_output.default     import Default as TmgrOut  # noqa
from radical.pilot.agent.staging_input.default     import Default as AgentIn  # noqa
from radical.pilot.agent.staging_output.default    import Default as AgentOut # noqa


SID = 'rp.session.verif'
PID = 'pilot.0000'
UIDS  = {'A': 'task.a', 'B': 'task.b', 'C': 'task.c', 'D': 'task.d'}
OFFS  = {'A': 0, 'B': 7, 'C': 20, 'D': 30}    # index range of file names
UID_A = UIDS['A']
UID_B = UIDS['B']

TRANSFER, COPY, LINK, MOVE, TARBALL = (rpc.TRANSFER, rpc.COPY, rpc.LINK,
                                       rpc.MOVE, rpc.TARBALL)
ACTIONS      = [TRANSFER, COPY, LINK, MOVE, TARBALL]
CLIENT_SIDE  = [TRANSFER, TARBALL]
AGENT_SIDE   = [COPY, LINK, MOVE]

SANDBOXES    = ['client', 'task', 'pilot', 'session', 'resource']
LOCS         = SANDBOXES + ['endpoint', 'file', 'abs', 'rel']
STR_FORMS    = ['>', '>>', '<', '<<']

SITE = {('in',  'client'): 'tmgr.staging_input.Default._handle_task',
        ('in',  'agent' ): 'agent.staging_input.Default._handle_task_staging',
        ('out', 'agent' ): 'agent.staging_output.Default._handle_task_staging',
        ('out', 'client'): 'tmgr.staging_output.Default._handle_task'}
SITE_EXPAND = 'staging_directives.expand_staging_directives'
SITE_RESOLVE = 'staging_directives.complete_url'

# state in which a component works on a task -> component
WORK_STATE = {rps.TMGR_SCHEDULING      : 'tmgr.scheduler.RoundRobin.work',
              rps.TMGR_STAGING_INPUT   : 'tmgr.staging_input.Default.work',
              rps.AGENT_STAGING_INPUT  : 'agent.staging_input.Default.work',
              rps.AGENT_STAGING_OUTPUT : 'agent.staging_output.Default.work',
              rps.TMGR_STAGING_OUTPUT  : 'tmgr.staging_output.Default.work'}

QUEUES  = [rpc.TMGR_SCHEDULING_QUEUE, rpc.TMGR_STAGING_INPUT_QUEUE,
           rpc.PROXY_TASK_QUEUE, rpc.AGENT_STAGING_INPUT_QUEUE,
           rpc.AGENT_SCHEDULING_QUEUE, rpc.AGENT_STAGING_OUTPUT_QUEUE,
           rpc.AGENT_COLLECTING_QUEUE, rpc.TMGR_STAGING_OUTPUT_QUEUE]
PUBSUBS = [rpc.STATE_PUBSUB, rpc.CONTROL_PUBSUB]


# ------------------------------------------------------------------------------
# reference: texts, resolver, expectations
#
def side_of(action):
    return 'client' if action in CLIENT_SIDE else 'agent'


def kind_of(loc):
    if loc is None                        : return 'default'
    if loc == 'rel'                       : return 'rel'
    if loc in ('abs', 'file', 'endpoint') : return 'abs'
    return 'sbx'


def rel_name(role, direction, idx, shape, odd, tok):
    '''file name (relative) of the source / target of directive `idx`.  Every
    path element carries the token of the case, so that whatever a (mutated)
    stager writes outside of the case directory can be recognised and removed,
    and nothing left behind by another run can be picked up.'''
    name = '%s_%s%d.%s.dat' % (role, direction, idx, tok)
    if odd == 'space' and role == 'src':
        name = '%s %s%d.%s.dat' % (role, direction, idx, tok)
    if shape == 'sub':
        if role == 'src': name = 'sd%d.%s/%s'    % (idx, tok, name)
        else            : name = 'td%d.%s/x/%s'  % (idx, tok, name)
    if odd == 'dotmid' and role == 'src':
        name = 'up%d.%s/../%s' % (idx, tok, name)
    if odd == 'dotdot' and role == 'src':
        name = '../up%d.%s/%s' % (idx, tok, name)
    return name


def text_for(loc, rel, absdir, odd=None):
    '''how the application writes down a location'''
    if loc in SANDBOXES:
        if odd == 'host': return '%s://%s'  % (loc, rel)
        return '%s:///%s' % (loc, rel)
    if loc == 'endpoint': return 'endpoint://%s/%s'      % (absdir, rel)
    if loc == 'file'    : return 'file://localhost%s/%s' % (absdir, rel)
    if loc == 'abs'     : return '%s/%s'                 % (absdir, rel)
    if loc == 'rel'     : return rel
    raise ValueError(loc)


def resolve(text, pwd, sbx):
    '''the independent resolver of appendix A.9'''
    if '://' in text:
        schema, rest = text.split('://', 1)
        if schema == 'file':
            path = '/' + rest.split('/', 1)[1]       # drop the host element
        else:
            path = '%s/%s' % (sbx[schema], rest)
    elif text.startswith('/'):
        path = text
    else:
        path = '%s/%s' % (pwd, text)
    return os.path.normpath(path)


def path_part(text):
    if '://' in text:
        return '/' + text.split('://', 1)[1].split('/', 1)[-1]
    return text


def pwd_of(direction, action, sbx):
    '''(source pwd, target pwd) per component (A.9)'''
    if side_of(action) == 'agent':
        return sbx['task'], sbx['task']
    if direction == 'in':
        return sbx['client'], sbx['task']
    return sbx['task'], sbx['client']


class Directive(object):
    '''one directive of a case, with everything the reference says about it'''

    def __init__(self, spec, direction, idx, sbx, absdir):

        self.spec      = spec
        self.direction = direction
        self.idx       = idx
        self.form      = spec['form']
        self.action    = spec.get('action', TRANSFER)
        self.present   = spec.get('present', True)
        self.odd       = spec.get('odd')
        self.src_loc, self.src_shape = spec['src']
        if spec.get('tgt'): self.tgt_loc, self.tgt_shape = spec['tgt']
        else              : self.tgt_loc, self.tgt_shape = None, None

        tok = os.path.basename(os.path.dirname(absdir))

        def named(name):
            # explicit name given by the case: `D/f1` -> D.<tok>/f1.<tok>
            return '/'.join('%s.%s' % (e, tok) for e in name.split('/'))

        # the source is a directory which an earlier directive created
        self.isdir = bool(spec.get('isdir'))
        src_rel = rel_name('src', direction, idx, self.src_shape, self.odd,
                           tok)
        if spec.get('src_name'):
            src_rel = named(spec['src_name'])
        self.src_text = text_for(self.src_loc, src_rel, absdir, self.odd)
        if self.tgt_loc:
            name = rel_name('tgt', direction, idx, self.tgt_shape, None, tok)
            if spec.get('share'):
                # several tasks name the same target
                name = 'shared_%s.%s.dat' % (direction, tok)
            if spec.get('tgt_name'):
                name = named(spec['tgt_name'])
            self.tgt_text = text_for(self.tgt_loc, name, absdir)
            self.exp_tgt_text = self.tgt_text
        else:
            self.tgt_text     = None
            self.exp_tgt_text = os.path.basename(path_part(self.src_text))

        # the target denotes a directory: the file goes into it, under the
        # base name of the source (`cp file dir/`)
        #   slash-new        `loc:///R/`, R does not exist
        #   slash-existing   `loc:///R/`, R exists
        #   noslash-existing `loc:///R`,  R exists (made by the harness)
        #   noslash-created  `loc:///R`,  R was created by an earlier directive
        #   root             `loc:///`    the sandbox itself
        #   empty            ''           (dictionary form)
        self.into_dir   = spec.get('tgt_dir')
        self.dir_before = None
        if self.into_dir:
            if   self.into_dir == 'root' : text = '%s:///' % self.tgt_loc
            elif self.into_dir == 'empty': text = ''
            else:
                text = text_for(self.tgt_loc, named('R'), absdir)
                if self.into_dir.startswith('slash'):
                    text += '/'
            self.tgt_text = self.exp_tgt_text = text

        spwd, tpwd    = pwd_of(direction, self.action, sbx)
        self.src_path = resolve(self.src_text,     spwd, sbx)
        self.tgt_path = resolve(self.exp_tgt_text, tpwd, sbx)
        if self.into_dir:
            if self.into_dir.endswith('existing'):
                self.dir_before = self.tgt_path
            self.tgt_path = os.path.join(self.tgt_path, os.path.basename(
                                         path_part(self.src_text)))
        self.content  = 'payload %s %d of %s via %s\n' % (direction, idx,
                                              self.src_text, self.action)
        # where the staged bytes are when the target clause is evaluated: a
        # later directive of the same list may move the directory D to Dm
        self.check_path = self.tgt_path
        if spec.get('follow'):
            a, b = spec['follow']
            self.check_path = self.tgt_path.replace('/%s/' % named(a),
                                                    '/%s/' % named(b))

        # classes of input
        self.side       = side_of(self.action)
        self.degenerate = self.src_path == self.tgt_path
        self.refusable  = None
        if self.side == 'agent' and 'client' in (self.src_loc, self.tgt_loc):
            self.refusable = 'client-schema-on-agent'
        elif self.odd == 'host':
            self.refusable = 'host-element'
        elif self.degenerate:
            self.refusable = 'source-is-target'
        self.carriable  = self.present
        # the target exists (with other bytes) before the directive is carried
        # out -- set by the harness when it looks at the file system.  The
        # code may refuse such a directive (FAILED) or replace the target.
        self.pre        = False
        self.stale      = 'stale bytes at the target of %s %d (%s)\n' \
                          % (direction, idx, self.action)
        if spec.get('pre') == 'samesize':
            # other bytes of the very same length, written after the source
            # (newer mtime): what a size/mtime "up to date" shortcut accepts
            self.stale  = self.content.swapcase()

    # what the application writes into the description
    def as_input(self):
        s, t = self.src_text, self.tgt_text
        if self.form == 'str' : return s
        if self.form == '>'   : return '%s > %s'  % (s, t)
        if self.form == '>>'  : return '%s >> %s' % (s, t)
        if self.form == '<'   : return '%s < %s'  % (t, s)
        if self.form == '<<'  : return '%s << %s' % (t, s)
        if self.form == '>t'  : return '%s>%s'    % (s, t)
        if self.form == 'dict':
            d = {'source': s, 'action': self.action}
            if t is not None:
                d['target'] = t
            if self.spec.get('noaction'):
                del d['action']
            return d
        raise ValueError(self.form)

    def cls(self):
        '''abstract input class (trigger part of violation keys)'''
        ret = '%s:%s:src=%s:tgt=%s' % (self.form, self.action,
                                      kind_of(self.src_loc),
                                      kind_of(self.tgt_loc))
        if self.odd:
            ret += ':' + self.odd
        if self.pre:
            ret += ':target-preexists'
        return ret

    def site(self):
        return SITE[(self.direction, self.side)]


# ------------------------------------------------------------------------------
#
class World(object):
    '''the sandboxes and the chain of components of one case'''

    def __init__(self, root):

        self.root = root
        net.install()
        self.net  = net.Net().activate()
        net.bridges(self.net.reg, queues=QUEUES, pubsubs=PUBSUBS)

        # reference sandboxes (documented hierarchy)
        base = '%s/base' % root
        res  = '%s/radical.pilot.sandbox' % base
        self.sbx = {'client'  : '%s/client' % root,
                    'resource': res,
                    'session' : '%s/%s' % (res, SID),
                    'pilot'   : '%s/%s/%s' % (res, SID, PID),
                    'endpoint': '/'}
        self.absdir = '%s/abs' % root
        for d in list(self.sbx.values()) + [self.absdir]:
            os.makedirs(d, exist_ok=True)

        # bare session with the real sandbox getters
        s = rp.Session.__new__(rp.Session)
        s._uid        = SID
        s._role       = 'primary'
        s._reg        = self.net.reg
        s._log        = seams.null()
        s._prof       = seams.null()
        s._rep        = seams.null()
        s._cfg        = ru.Config(from_dict={'heartbeat': {}, 'path': root,
                                             'client_sandbox':
                                                           self.sbx['client']})
        s._tmgrs      = dict()
        s._pmgrs      = dict()
        s._cache_lock = ru.RLock()
        s._cache      = {'endpoint_fs'      : dict(),
                         'resource_sandbox' : dict(),
                         'session_sandbox'  : dict(),
                         'pilot_sandbox'    : dict(),
                         'client_sandbox'   : self.sbx['client'],
                         'js_shells'        : dict(),
                         'fs_dirs'          : dict()}
        # the resource config is environment: a local file system, work dir
        # below the case root
        s.get_resource_config = lambda resource, schema=None: \
                ru.Config(from_dict={'filesystem_endpoint'   :
                                                        'file://localhost/',
                                     'default_remote_workdir': base})
        self.session = s
        self.net.reg['cfg.session_sandbox'] = self.sbx['session']

        # pilot dict as Pilot.__init__ / as_dict() build it
        pilot = {'uid': PID, 'type': 'pilot', 'state': rps.PMGR_ACTIVE,
                 'description': {'resource': 'local.localhost',
                                 'access_schema': 'local', 'sandbox': None},
                 'pilot_sandbox': '', 'js_hop': 'fork://localhost/'}
        pilot['endpoint_fs']      = str(s._get_endpoint_fs(pilot))
        pilot['resource_sandbox'] = str(s._get_resource_sandbox(pilot))
        pilot['session_sandbox']  = str(s._get_session_sandbox(pilot))
        pilot['pilot_sandbox']    = str(s._get_pilot_sandbox(pilot))
        pilot['client_sandbox']   = str(s._get_client_sandbox())
        self.pilot = pilot

        self.tm = cw.make_tmgr(s)

        def comp(cls, uid, **cfg):
            c = seams.bare(cls, uid=uid)
            c._session = s
            c._reg     = self.net.reg
            c._cfg     = ru.Config(from_dict=dict(cfg, owner=self.tm.uid,
                                                  sid=SID, pid=PID))
            c.register_publisher(rpc.STATE_PUBSUB)
            c.register_publisher(rpc.CONTROL_PUBSUB)
            return c

        # the scheduler subscribes to the state pubsub in initialize(): keep
        # its callbacks away from the staging chain (nothing to learn there)
        self.sched     = comp(RoundRobin, 'tmgr.0000.scheduling.0000')
        self.sched.register_subscriber = lambda *a, **kw: None
        self.tmgr_in   = comp(TmgrIn,   'tmgr.0000.staging.input.0000')
        self.agent_in  = comp(AgentIn,  'agent_staging_input.0000')
        self.agent_out = comp(AgentOut, 'agent_staging_output.0000')
        self.tmgr_out  = comp(TmgrOut,  'tmgr.0000.staging.output.0000')
        for c in (self.sched, self.tmgr_in, self.agent_in, self.agent_out,
                  self.tmgr_out):
            c.initialize()

        msg = {'cmd': 'add_pilots', 'arg': {'pilots': [seams.wire(pilot)],
                                            'tmgr'  : self.tm.uid}}
        self.sched  .control_cb(rpc.CONTROL_PUBSUB, seams.wire(msg))
        self.tmgr_in.control_cb(rpc.CONTROL_PUBSUB, seams.wire(msg))

    # --------------------------------------------------------------------------
    def task_sbx(self, uid, sandbox=None):
        '''a relative `sandbox` of the description is a directory in the pilot
        sandbox (documentation of TaskDescription.sandbox)'''
        return dict(self.sbx, task='%s/%s' % (self.sbx['pilot'],
                                              sandbox or uid))

    def move(self, src, tgt, merge=False):
        '''what Agent_0's proxy callbacks do: forward bulks between queues.
        The queue bridge may hand out several messages as one bulk (`merge`)
        or one by one.'''
        bulks = list()
        while True:
            bulk = self.net.q_get(src)
            if not bulk:
                break
            bulks.append(bulk)
        if merge and bulks:
            bulks = [[t for bulk in bulks for t in bulk]]
        for bulk in bulks:
            self.net.q_put(tgt, bulk)

    def pump(self, comp, qname):
        '''let a component work until its input queue is empty'''
        n = 0
        while self.net.queues.get(qname):
            comp.work_cb()
            n += 1
            assert n < 100, 'component does not consume %s' % qname

    def drain(self, qname):
        ret = list()
        while True:
            bulk = self.net.q_get(qname)
            if not bulk:
                break
            ret.extend(bulk)
        return ret

    def states(self):
        '''uid -> list of published states (with the full dict, if sent)'''
        ret = dict()
        for channel, pub_id, msg in self.net.pub_log:
            if channel != rpc.STATE_PUBSUB or msg.get('cmd') != 'update':
                continue
            for thing in ru.as_list(msg['arg']):
                ret.setdefault(thing['uid'], list()).append(thing)
        return ret


# ------------------------------------------------------------------------------
#
def write_file(path, content):
    os.makedirs(os.path.dirname(path), exist_ok=True)
    with open(path, 'w') as fout:
        fout.write(content)


def read_file(path):
    try:
        with open(path, 'r', errors='replace') as fin:
            return fin.read()
    except (IOError, OSError):
        return None


def find_content(root, content):
    '''where in the tree did these bytes end up'''
    ret = list()
    for dname, _, fnames in os.walk(root):
        for fname in fnames:
            path = os.path.join(dname, fname)
            if not fname.endswith('.tar') and read_file(path) == content:
                ret.append(path)
    return sorted(ret)


def tar_member(tar, path):
    import tarfile
    try:
        with tarfile.open(tar) as tf:
            for m in tf.getmembers():
                if os.path.normpath('/' + m.name) == path:
                    return tf.extractfile(m).read().decode()
    except Exception:
        pass
    return None


_copy_probe = dict()


def copy_ignores_errors(w):
    '''diagnosis: does the stager's own copy() report a missing source?'''
    if 'res' not in _copy_probe:
        stager = rpu.StagingHelper(seams.null())
        try:
            stager.copy('file://localhost%s/no/such/file' % w.absdir,
                        'file://localhost%s/probe.tgt'    % w.absdir)
            _copy_probe['res'] = (True, type(stager._backend).__name__)
        except Exception:
            _copy_probe['res'] = (False, type(stager._backend).__name__)
    return _copy_probe['res']


# ------------------------------------------------------------------------------
#
def bystander_spec():
    '''all good, and with schema-less relative sources and targets for the
    client side and for the agent side, in and out: a stale `pwd` (of either
    task) shows'''
    return {'in' : [{'form': '>',    'src': ['rel',   'flat'],
                     'tgt' : ['rel', 'flat']},
                    {'form': 'dict', 'action': LINK,
                     'src' : ['pilot', 'flat'], 'tgt': ['rel', 'sub']},
                    {'form': 'dict', 'action': MOVE,
                     'src' : ['rel', 'sub'],    'tgt': ['task', 'flat']}],
            'out': [{'form': '<',    'src': ['rel', 'flat'],
                     'tgt' : ['rel', 'sub']},
                    {'form': 'dict', 'action': LINK,
                     'src' : ['rel', 'sub'],  'tgt': ['pilot', 'sub']},
                    {'form': 'dict', 'action': MOVE,
                     'src' : ['task', 'flat'], 'tgt': ['rel', 'sub']}]}


class TaskModel(object):

    def __init__(self, w, letter, spec, pos='first'):
        self.letter  = letter
        self.uid     = UIDS[letter]
        self.test    = letter != 'B'       # task under test / bystander
        self.sandbox = spec.get('sandbox')
        self.sbx     = w.task_sbx(self.uid, self.sandbox)
        self.outcome = getattr(rps, spec.get('outcome', 'DONE'))
        self.soe     = spec.get('soe', False)
        self.spec    = spec
        self.pos     = pos                 # submitted first / later
        self.rank    = dict()              # working state -> first / later
        # every task's files get their own index range
        off = OFFS[letter]
        self.ins  = [Directive(s, 'in',  i + off, self.sbx, w.absdir)
                     for i, s in enumerate(spec.get('in',  []))]
        self.outs = [Directive(s, 'out', i + off, self.sbx, w.absdir)
                     for i, s in enumerate(spec.get('out', []))]
        for d in self.ins + self.outs:
            d.pos   = pos
            d.owner = self.uid

    def tag(self, text):
        '''observation label (the first task under test is not prefixed)'''
        return text if self.letter == 'A' else '%s.%s' % (self.letter, text)

    def description(self):
        d = {'uid': self.uid, 'executable': '/bin/true'}
        if self.ins : d['input_staging']  = [x.as_input() for x in self.ins]
        if self.outs: d['output_staging'] = [x.as_input() for x in self.outs]
        if self.soe : d['stage_on_error'] = True
        if self.sandbox: d['sandbox']     = self.sandbox
        return d


# ------------------------------------------------------------------------------
#
class Collector(report.Part):
    """
    Part which also keeps the target clause results per abstract directive
    class, so that the parent can name each failure by the smallest set of
    attributes which separates failing from passing directives (`aggregate`).
    """

    def __init__(self):
        super().__init__()
        self.evals = dict()     # attrs -> number of evaluated directives
        self.fails = dict()     # (what, site, attrs) -> (detail, replay)
        self.unst  = dict()     # (key, direction, action) -> (detail, replay)
        self.multi = dict()     # (site, attrs of all directives) -> ...

    def task_failed(self, site, dirs, detail, replay):
        """a task whose directives can all be carried out was FAILED"""
        combos = tuple(attrs_of(d) for d in dirs)
        if len(combos) == 1:
            self.evals[combos[0]] = self.evals.get(combos[0], 0) + 1
            key = ('task-failed', site, combos[0])
            if key not in self.fails:
                self.fails[key] = (detail, replay)
        else:
            key = (site, combos)
            if key not in self.multi:
                self.multi[key] = (detail, replay)

    def unstageable(self, d, key, detail, replay):
        """a directive which could not be carried out did not fail the task;
        subsumed (in `aggregate`) if directives of that kind are never carried
        out at all"""
        k = (key, d.direction, d.action)
        if k not in self.unst:
            self.unst[k] = (detail, replay)

    def dump(self):
        ret = super().dump()
        ret['c11'] = {'evals': list(self.evals.items()),
                      'fails': [(k, v) for k, v in self.fails.items()],
                      'unst' : [(k, v) for k, v in self.unst.items()],
                      'multi': [(k, v) for k, v in self.multi.items()]}
        return ret


ATTRS = ['direction', 'op', 'pre', 'pos', 'action', 'form', 'src', 'src_shape',
         'tgt', 'tgt_shape', 'odd']
OPS   = {TRANSFER: 'copy', COPY: 'copy', LINK: 'link', MOVE: 'move',
         TARBALL : 'tar'}


def attrs_of(d):
    return (d.direction, OPS[d.action],
            'target-preexists' if d.pre else '-', d.pos, d.action, d.form,
            d.src_loc,
            d.src_shape, d.tgt_loc or 'default', d.tgt_shape or '-',
            d.odd or '-')


def resolution_fault(d, sbx):
    """diagnosis: does the real complete_url(), called in isolation with the
    documented contexts, resolve this directive like the reference does?"""
    from radical.pilot.staging_directives import complete_url
    spwd, tpwd = pwd_of(d.direction, d.action, sbx)
    # (a target which denotes a directory resolves to that directory)
    tgt_path = os.path.dirname(d.tgt_path) if d.into_dir else d.tgt_path
    for side, text, pwd, want in (('source', d.src_text,     spwd, d.src_path),
                                  ('target', d.exp_tgt_text, tpwd, tgt_path)):
        ctx = dict(sbx, pwd=pwd)
        if d.side == 'agent':
            ctx.pop('client')
        try:
            got = os.path.normpath(ru.Url(complete_url(text, ctx)).path)
        except Exception:
            continue
        if got != want and not (d.side == 'agent' and
                                text.startswith('client:')):
            return side
    return None


def backend_copy_fails(w, d):
    """diagnosis: does the stager's own copy() copy this very file?"""
    stager = rpu.StagingHelper(seams.null())
    tgt    = '%s/probe/copy.%d' % (w.absdir, d.idx)
    try:
        stager.copy('file://localhost%s' % d.src_path,
                    'file://localhost%s' % tgt)
    except Exception:
        pass
    if read_file(tgt) != d.content:
        return type(stager._backend).__name__
    return None


def backend_keeps_stale(w, d):
    """diagnosis: does the stager's own copy / link / move, run alone, leave
    an existing target as it is without complaining?"""
    stager = rpu.StagingHelper(seams.null())
    src    = '%s/probe/stale.src.%d' % (w.absdir, d.idx)
    tgt    = '%s/probe/stale.tgt.%d' % (w.absdir, d.idx)
    write_file(src, 'new')
    write_file(tgt, 'old')
    op = OPS[d.action]
    try:
        getattr(stager, op)('file://localhost%s' % src,
                            'file://localhost%s' % tgt)
    except Exception:
        return None
    if read_file(tgt) != 'new':
        return '%s.%s' % (type(stager._backend).__name__, op)
    return None


def check_targets(part, w, tm, directives, replay, verbose, obs):
    """target clause for the directives of a task that was passed on"""

    for d in directives:

        if not d.carriable:
            continue

        got  = read_file(d.check_path)
        what = None
        if d.isdir:
            # a directory was moved: it is at the target, and gone at the
            # source unless a later directive staged into it again
            got = 'directory' if os.path.isdir(d.tgt_path) else None
            if got is None:
                what = 'missing'
            elif os.path.lexists(d.src_path) and not d.spec.get('recreated'):
                what = 'source-not-removed'
        elif got is None:
            what = 'missing'
        elif got != d.content:
            what = 'wrong-content'
        elif d.action == LINK and not d.degenerate:
            same = False
            try:
                same = os.path.samefile(d.src_path, d.check_path)
            except OSError:
                pass
            if not same:
                what = 'not-a-link'
        elif d.action == MOVE and not d.degenerate:
            if os.path.lexists(d.src_path):
                what = 'source-not-removed'

        if verbose:
            print('  %s %s-target %-8s %-40r -> %s : %s'
                  % (tm.uid, d.direction, d.action, d.as_input(), d.check_path,
                     what or 'ok'))

        if not d.refusable:
            attrs = attrs_of(d)
            part.evals[attrs] = part.evals.get(attrs, 0) + 1

        if not what:
            obs.append('%s:ok' % d.action)
            continue

        # diagnosis: where is the fault
        site  = d.site()
        where = find_content(w.root, d.content)
        where = [p for p in where if p != d.src_path]
        exp   = tm.expanded.get((d.direction, d.idx))
        if what == 'missing' and where:
            what = 'misplaced'
        if exp and (exp[0] != d.src_text or exp[1] != d.exp_tgt_text):
            site = SITE_EXPAND
        elif d.action == TARBALL and d.direction == 'out':
            site = 'agent.staging_output.Default.work+' \
                   'tmgr.staging_output.Default.work'
        elif resolution_fault(d, tm.sbx):
            site = SITE_RESOLVE
        elif d.action == TARBALL and d.direction == 'in':
            # the client side did its part if the tarball arrived in the task
            # sandbox and holds the bytes under the name of the target
            tar = '%s/%s.tar' % (tm.sbx['task'], tm.uid)
            if tar_member(tar, d.tgt_path) == d.content:
                site = SITE[('in', 'agent')]
        elif d.action in (COPY, TRANSFER) and what == 'missing' \
                and os.path.isfile(d.src_path):
            backend = backend_copy_fails(w, d)
            if backend:
                site = '%s.copy' % backend
        elif d.pre and d.action != TARBALL and \
                what in ('wrong-content', 'not-a-link'):
            fn = backend_keeps_stale(w, d)
            if fn:
                site = fn

        obs.append('%s:%s' % (d.action, what))

        if d.refusable:
            # an input the code may refuse; it was not refused
            if d.refusable == 'client-schema-on-agent' and what == 'missing' \
                    and d.action in (COPY, TRANSFER):
                ignores, backend = copy_ignores_errors(w)
                if ignores:
                    site = '%s.copy' % backend
            part.unstageable(d, 'unstageable-not-failed|%s|%s'
                             % (site, d.refusable),
                             {'what': '%s: %r (%s) was neither refused nor '
                                      'carried out: nothing valid at %s (%s), '
                                      'but the task was passed on'
                                      % (tm.uid, d.as_input(), d.refusable,
                                         d.tgt_path, what)},
                             replay)
            continue

        detail = {'what': '%s: %r: expected %s to hold the bytes of %s'
                          ' (%s); found: %s; expanded to %s'
                          % (tm.uid, d.as_input(), d.tgt_path,
                             d.src_path, what, where or
                             ('<nothing>' if got is None else repr(got)),
                             exp)}
        key = (what, site, attrs)
        if key not in part.fails:
            part.fails[key] = (detail, replay)


def aggregate(ctx, evals, fails, unst, multi):
    """
    name every target failure (symptom, site) by the smallest set S of
    directive attributes such that every evaluated directive which agrees with
    the failing one on S fails in the same way: failures with one cause share
    a key, whatever the other attributes of the directive are.
    """
    universe = set(evals.keys())

    # kinds of directives (direction, action) which are never carried out
    # (the target stays missing -- or, if it existed before, untouched)
    never = set()
    sites = set(k[1] for k in fails)
    for da in set((u[0], u[4]) for u in universe):
        members = [u for u in universe if (u[0], u[4]) == da]
        if all(any(('missing' if u[2] == '-' else 'wrong-content', site, u)
                   in fails for site in sites) for u in members):
            never.add(da)
    # ... for those the untouched existing target is the same symptom
    fails = {k: v for k, v in fails.items()
                  if not (k[0] == 'wrong-content' and k[2][2] != '-'
                          and (k[2][0], k[2][4]) in never)}
    evals = {k: v for k, v in evals.items()
                  if not (k[2] != '-' and (k[0], k[4]) in never)}
    universe = set(evals.keys())
    for (key, direction, action), (detail, replay) in sorted(unst.items()):
        if (direction, action) not in never:
            ctx.violation(key, detail, replay)

    groups   = dict()
    failing_any = set()
    for (what, site, attrs), val in fails.items():
        groups.setdefault((what, site), dict())[attrs] = val
        failing_any.add(attrs)

    # failed tasks with several directives: explained by a failing single one?
    for (site, combos), (detail, replay) in sorted(multi.items()):
        if not any(('task-failed', site, c) in fails for c in combos):
            if any(c[-1] != '-' for c in combos):
                # a history of directives: named by the roles they play
                trig = '%s:%s' % (combos[0][0], '+'.join(
                       c[-1] if c[-1] != '-' else c[4] for c in combos))
            else:
                trig = '+'.join('%s:%s:%s' % (c[0], c[4], c[5])
                                for c in combos)
            ctx.violation('good-task-failed|%s|%s' % (site, trig),
                          detail, replay)

    n        = len(ATTRS)
    # the direction is always part of the name (keys stay the same when a
    # defect of the other direction is repaired)
    subsets  = sorted(((0,) + c for c in itertools.chain.from_iterable(
                       itertools.combinations(range(1, n), k)
                       for k in range(n))), key=lambda s: (len(s), s))

    cnt_u = dict()    # S -> {value: evaluated classes}

    def count(S, combos):
        ret = dict()
        for c in combos:
            val = tuple(c[i] for i in S)
            ret[val] = ret.get(val, 0) + 1
        return ret

    for (what, site), failing in sorted(groups.items()):
        F     = set(failing.keys())
        keys  = dict()     # (S, value) -> members
        cnt_f = dict()

        def uniform(S, c):
            if S not in cnt_u: cnt_u[S] = count(S, universe)
            if S not in cnt_f: cnt_f[S] = count(S, failing_any)
            val = tuple(c[i] for i in S)
            return cnt_u[S][val] == cnt_f[S][val]

        # greedy cover: few attributes first, then most failures explained
        todo = set(F)
        for k in range(1, n + 1):
            while todo:
                best = None
                for S in subsets:
                    if len(S) != k:
                        continue
                    cov = [c for c in sorted(todo) if uniform(S, c)]
                    if cov and (best is None or len(cov) > len(best[1])):
                        best = (S, cov)
                if not best:
                    break
                S, cov = best
                for c in cov:
                    val = tuple(c[i] for i in S)
                    keys.setdefault((S, val), list()).append(c)
                todo -= set(cov)
        for (S, val), members in sorted(keys.items()):
            detail, replay = failing[members[0]]
            detail  = dict(detail, classes=len(members),
                           directives=sum(evals.get(c, 0) for c in members))
            trigger = ','.join('%s=%s' % (ATTRS[i], v)
                               for i, v in zip(S, val)
                               if v != 'target-preexists') or 'every-directive'
            if 'target-preexists' in val:
                trigger += ':target-preexists'
            clause  = 'good-task-failed' if what == 'task-failed' \
                                         else 'target-%s' % what
            ctx.violation('%s|%s|%s' % (clause, site, trigger),
                          detail, replay)


def fail_site(w, uid, states):
    '''the component which failed a task: the one whose working state was
    the last one published before FAILED'''
    seq = [t['state'] for t in states.get(uid, [])]
    if rps.FAILED in seq:
        seq = seq[:seq.index(rps.FAILED)]
    for s in reversed(seq):
        if s in WORK_STATE:
            return WORK_STATE[s]
    return 'unknown'


def good_failed(site, tm, dirs):
    '''site for a task which was failed although every directive can be
    carried out'''
    for d in dirs:
        if resolution_fault(d, tm.sbx):
            return SITE_RESOLVE
    for d in dirs:
        if d.into_dir and d.action in (COPY, TRANSFER):
            backend = backend_copy_into_dir_fails(tm, d)
            if backend:
                return '%s.copy' % backend
    return site


def backend_copy_into_dir_fails(tm, d):
    """diagnosis: does the stager's own copy(), run alone, put a file into a
    directory (existing, or named with a trailing slash)?"""
    stager = rpu.StagingHelper(seams.null())
    absdir = os.path.dirname(tm.sbx['client']) + '/abs'
    src    = '%s/probe/into.src.%d' % (absdir, d.idx)
    tgt    = '%s/probe/into.dir.%d' % (absdir, d.idx)
    write_file(src, 'new')
    if d.into_dir != 'slash-new':
        os.makedirs(tgt, exist_ok=True)
    try:
        stager.copy('file://localhost%s' % src,
                    'file://localhost%s%s' % (tgt, '/' if d.into_dir.startswith(
                                                       'slash') else ''))
    except Exception:
        return type(stager._backend).__name__
    if read_file('%s/%s' % (tgt, os.path.basename(src))) != 'new':
        return type(stager._backend).__name__
    return None


def unstageable_site(w, d):
    '''who is at fault if a directive with a missing source did not fail'''
    if d.action in (COPY, TRANSFER):
        ignores, backend = copy_ignores_errors(w)
        if ignores:
            return '%s.copy' % backend, 'missing-source'
    return d.site(), '%s:missing-source' % d.action


# ------------------------------------------------------------------------------
#
def check_case(part, case, scratch, verbose=False):
    '''run one case through the chain; returns the observation class'''

    root = tempfile.mkdtemp(prefix='c11.', dir=scratch)
    tok  = os.path.basename(root)
    cwd  = os.getcwd()
    # logging seam: agent staging_output formats every task dict for a debug
    # message (a fifth of the run time); the logger is a no-op anyway
    pformat = pprint.pformat
    pprint.pformat = lambda *args, **kwargs: ''
    try:
        return _check_case(part, case, root, verbose)
    finally:
        pprint.pformat = pformat
        os.chdir(cwd)
        shutil.rmtree(root, ignore_errors=True)
        # anything a (mutated) stager wrote elsewhere under this case's names
        for base in ('/', cwd, os.path.dirname(scratch.rstrip('/'))):
            for path in glob.glob('%s/*%s*' % (base.rstrip('/'), tok)):
                if os.path.isdir(path) and not os.path.islink(path):
                    shutil.rmtree(path, ignore_errors=True)
                else:
                    try   : os.unlink(path)
                    except OSError: pass


COMPONENT_STATE = {('in',  'client'): rps.TMGR_STAGING_INPUT,
                   ('in',  'agent' ): rps.AGENT_STAGING_INPUT,
                   ('out', 'agent' ): rps.AGENT_STAGING_OUTPUT,
                   ('out', 'client'): rps.TMGR_STAGING_OUTPUT}


def set_positions(w, models, direction):
    """
    label every directive with the position of its task in the component
    which handles it: `first` if that task was the first one to leave the
    component (next state published after the component's working state),
    `later` otherwise (among the tasks which have directives for that
    component).  Read from the log of state publications.
    """
    log = list()
    for channel, pub_id, msg in w.net.pub_log:
        if channel == rpc.STATE_PUBSUB and msg.get('cmd') == 'update':
            for thing in ru.as_list(msg['arg']):
                log.append((thing['uid'], thing['state']))

    for side in ('client', 'agent'):
        work  = COMPONENT_STATE[(direction, side)]
        leave = dict()
        for tm in models:
            # only tasks with work for this component count
            # (a tarball is packed on the client side, unpacked by the agent)
            if not [d for d in (tm.ins if direction == 'in' else tm.outs)
                      if d.side == side or (d.action == TARBALL and
                                            direction == 'in')]:
                continue
            idx = [i for i, (u, s) in enumerate(log) if u == tm.uid]
            at  = [i for i in idx if log[i][1] == work]
            if at:
                nxt = [i for i in idx if i > at[0]]
                leave[tm.uid] = nxt[0] if nxt else len(log)
        ranked = sorted(leave, key=lambda u: leave[u])
        for tm in models:
            pos = 'first' if not ranked or tm.uid == ranked[0] else 'later'
            tm.rank[work] = pos
            for d in (tm.ins if direction == 'in' else tm.outs):
                if d.side == side:
                    d.pos = pos


def parse_order(order):
    """'AB' one submission, one bulk; 'B,A' separate submissions and bulks
    (B first); 'A;C' A goes through input staging, execution and output
    staging (and is checked) before C is submitted; trailing '+': bulks are
    forwarded merged between components"""
    merge  = order.endswith('+')
    rounds = [[list(g) for g in rnd.split(',')]
              for rnd in order.rstrip('+').split(';')]
    return rounds, merge


def foreign_data(part, w, models, phase, replay, verbose):
    """no task sandbox holds anything but what its own directives put there"""

    every = [d for tm in models for d in tm.ins + tm.outs]
    for tm in models:
        own = set()
        for t2 in models:
            if t2.sbx['task'] == tm.sbx['task']:       # shared sandbox
                for d in t2.ins + t2.outs:
                    own.add(d.src_path)
                    own.add(d.tgt_path)
        for dname, _, fnames in os.walk(tm.sbx['task']):
            for fname in fnames:
                path = os.path.join(dname, fname)
                if path in own or fname.endswith('.tar'):
                    continue
                content = read_file(path)
                origin  = [d for d in every if d.content == content]
                if origin and [t2 for t2 in models
                               if t2.uid == origin[0].owner and
                                  t2.sbx['task'] == tm.sbx['task']]:
                    continue       # own data misplaced: the target clause
                if origin:
                    d    = origin[0]
                    site = d.site()
                    if resolution_fault(d, [m for m in models
                                            if m.uid == d.owner][0].sbx):
                        site = SITE_RESOLVE
                    rel  = [x for x, k in (('source', kind_of(d.src_loc)),
                                           ('target', kind_of(d.tgt_loc)))
                              if k in ('rel', 'default')]
                    trig = '%s:%s:schema-less=%s:handled-%s' % (
                           d.direction, OPS[d.action],
                           '+'.join(rel) or 'none', d.pos)
                    what = 'holds the data of %s of %s: %r' % (
                           'input directive' if d.direction == 'in'
                           else 'output directive', d.owner, d.as_input())
                else:
                    site = 'unknown'
                    trig = 'unknown-file'
                    what = 'is not the product of any directive'
                if verbose:
                    print('  foreign data in sandbox of %s: %s %s'
                          % (tm.uid, path, what))
                part.violation('foreign-data|%s|%s' % (site, trig),
                               {'what': 'after %s staging the sandbox of %s '
                                        'contains %s, which %s'
                                        % (phase, tm.uid, path, what)},
                               replay)


def _check_case(part, case, root, verbose):

    w      = World(root)
    replay = case
    obs    = list()

    rounds, merge = parse_order(case.get('order', 'AB'))
    flat   = [x for groups in rounds for g in groups for x in g]
    specs  = dict(case.get('more', {}), A=case, B=bystander_spec())
    models = dict()
    for i, letter in enumerate(flat):
        models[letter] = TaskModel(w, letter, specs[letter],
                                   'first' if i == 0 else 'later')
    order  = [models[x] for x in flat]
    by_uid = {tm.uid: tm for tm in order}
    tests  = [tm for tm in order if tm.test]
    A      = models['A']

    def preexisting(tms, direction):
        """write the stale targets the case asks for, then look which targets
        exist before staging (also: left there by an earlier task)"""
        for tm in tms:
            for d in (tm.ins if direction == 'in' else tm.outs):
                if d.spec.get('pre') and not d.degenerate \
                        and not os.path.lexists(d.tgt_path):
                    write_file(d.tgt_path, d.stale)
                d.pre = os.path.lexists(d.tgt_path) and not d.degenerate \
                        and d.present

    def app_moves(tm, when):
        """the task itself (`exec_moves`, between input and output staging) or
        the application (`after_moves`, after the task is final) renames a
        directory: [location, name, new name]"""
        tok = os.path.basename(root)
        for loc, a, b in tm.spec.get(when, []):
            src = '%s/%s.%s' % (tm.sbx[loc], a, tok)
            tgt = '%s/%s.%s' % (tm.sbx[loc], b, tok)
            if os.path.isdir(src) and not os.path.lexists(tgt):
                os.rename(src, tgt)
                if verbose:
                    print('  %s: %s -> %s' % (when, src, tgt))

    seen = list()

    def run_round(groups):
        """one or more submissions which go through the staging components
        together; returns False if the submission was refused"""
        tasks = [models[x] for g in groups for x in g]
        seen.extend(tasks)

        # -- input files -----------------------------------------------------------
        for tm in tasks:
            os.makedirs(tm.sbx['task'], exist_ok=True)
            for d in tm.ins:
                if d.present and not d.isdir:
                    write_file(d.src_path, d.content)
                if d.dir_before:
                    os.makedirs(d.dir_before, exist_ok=True)
        preexisting(tasks, 'in')

        # -- submission: real Task.__init__ -> expand_description ------------------
        refused = False
        try:
            for g in groups:
                tds = list()
                for letter in g:
                    models[letter].expanded = dict()
                    tds.append(rp.TaskDescription(models[letter].description()))
                w.tm.submit_tasks(tds)
        except Exception as e:
            refused = True
            dirs  = [d for tm in tests for d in tm.ins + tm.outs]
            forms = sorted(set(d.cls() for d in dirs))
            if any(d.odd for d in dirs):
                obs.append('refused-at-submit:%s' % type(e).__name__)
            else:
                part.violation('form-refused|%s|%s' % (SITE_EXPAND, forms[0]),
                               {'what': 'submission of %r raised %r'
                                        % ([tm.description() for tm in tests], e)},
                               replay)
                obs.append('refused-at-submit!')
            if verbose:
                print('  submit_tasks raised %r' % e)
        if refused:
            return False

        w.pump(w.sched, rpc.TMGR_SCHEDULING_QUEUE)
        pend = w.net.queues.get(rpc.TMGR_STAGING_INPUT_QUEUE) or []
        for bulk in pend:
            for t in bulk:
                tm = by_uid[t['uid']]
                for key, dirs in (('input_staging', tm.ins),
                                  ('output_staging', tm.outs)):
                    for d, sd in zip(dirs, t['description'].get(key) or []):
                        tm.expanded[(d.direction, d.idx)] = (sd['source'],
                                                             sd['target'],
                                                             sd['action'])
                if verbose:
                    print('  %s sandboxes: %s' % (t['uid'],
                          {k: t[k] for k in t if k.endswith('_sandbox')}))
                    print('  %s expanded : %s' % (t['uid'], tm.expanded))

        # the sandboxes the real getters assigned must be the documented ones
        for bulk in pend:
            for t in bulk:
                tm = by_uid[t['uid']]
                for k in ('client', 'resource', 'session', 'pilot', 'task'):
                    got = os.path.normpath(ru.Url(t['%s_sandbox' % k]).path)
                    if got != tm.sbx[k]:
                        part.violation('sandbox-location|Session._get_%s_sandbox|'
                                       'local' % k,
                                       {'what': '%s sandbox of %s is %s, documented'
                                                ' hierarchy gives %s'
                                                % (k, t['uid'], got, tm.sbx[k])},
                                       replay)

        # -- input staging ---------------------------------------------------------
        w.pump(w.tmgr_in, rpc.TMGR_STAGING_INPUT_QUEUE)
        w.move('%s/%s' % (rpc.PROXY_TASK_QUEUE, PID), rpc.AGENT_STAGING_INPUT_QUEUE,
               merge)
        w.pump(w.agent_in, rpc.AGENT_STAGING_INPUT_QUEUE)

        passed = {t['uid']: t for t in w.drain(rpc.AGENT_SCHEDULING_QUEUE)}
        states = w.states()
        last   = {uid: seq[-1] for uid, seq in states.items()}
        set_positions(w, seen, 'in')

        def sibling_trigger(tm, direction, site):
            bad = [d for t2 in tests if t2 is not tm
                     for d in (t2.ins if direction == 'in' else t2.outs)
                     if not d.carriable or d.refusable or d.pre]
            pos = [p for s, p in tm.rank.items() if WORK_STATE.get(s) == site]
            return 'sibling-%s:handled-%s' % (
                   ((bad[0].refusable or 'target-preexists')
                    if bad[0].carriable else 'missing-source')
                   if bad else 'good', pos[0] if pos else '?')

        for tm in tasks:

            uid  = tm.uid
            bad  = [d for d in tm.ins if not d.carriable]
            ref  = [d for d in tm.ins if d.refusable or d.pre]
            st   = last.get(uid, {}).get('state')
            role = 'task-under-test' if tm.test else 'bystander'

            if uid in passed:
                tm.status = 'passed'
                seq = [t['state'] for t in states.get(uid, [])]
                if st != rps.AGENT_SCHEDULING_PENDING or rps.FAILED in seq:
                    part.violation('failed-and-passed|%s|%s'
                                   % (fail_site(w, uid, states), role),
                                   {'what': '%s was passed on to the agent '
                                            'scheduler but was also announced as '
                                            'FAILED: published states %s'
                                            % (uid, seq)}, replay)
            elif st == rps.FAILED:
                tm.status = 'failed'
            else:
                tm.status = 'lost'
                part.violation('neither-passed-nor-failed|%s|%s'
                               % (fail_site(w, uid, states),
                                  tm.ins[0].cls() if tm.ins else 'none'),
                               {'what': '%s left input staging neither passed on '
                                        'nor FAILED (last state %s)' % (uid, st)},
                               replay)

            if verbose:
                print('  %s after input staging: %s (published: %s)%s'
                      % (uid, tm.status, [t['state'] for t in states.get(uid, [])],
                         ' exception=%s' % last[uid].get('exception')
                         if tm.status == 'failed' else ''))

            tobs = list()
            if tm.test:
                tobs.append('in:%s' % tm.status)
                if tm.status == 'failed':
                    tobs.append('exception-recorded=%s'
                                % bool(last[uid].get('exception')))

            if tm.status == 'passed':
                for d in bad:
                    part.unstageable(d, 'unstageable-not-failed|%s|%s'
                                     % unstageable_site(w, d),
                                     {'what': '%s: source %s of input directive %r'
                                              ' does not exist, but the task was '
                                              'passed on to the agent scheduler'
                                              % (uid, d.src_path, d.as_input())},
                                     replay)
                    tobs.append('%s:missing-ignored' % d.action)
                check_targets(part, w, tm, tm.ins, replay, verbose, tobs)

            elif tm.status == 'failed':
                if not bad and not ref:
                    site = fail_site(w, uid, states)
                    detail = {'what': '%s (submitted %s): every input directive (%s)'
                                      ' can be carried out, but the task was '
                                      'FAILED: %s'
                                      % (uid, tm.pos,
                                         [d.as_input() for d in tm.ins],
                                         last[uid].get('exception'))}
                    if tm.test:
                        part.task_failed(good_failed(site, tm, tm.ins), tm.ins,
                                         detail, replay)
                    else:
                        part.violation('bystander-failed|%s|%s'
                                       % (site, sibling_trigger(tm, 'in', site)),
                                       detail, replay)
                elif not bad:
                    tobs.append('refused:%s' % (ref[0].refusable or
                                                 'target-preexists'))

            if tm.test:
                obs.extend(tm.tag(x) for x in tobs)

        foreign_data(part, w, seen, 'input', replay, verbose)

        # -- execution (harness) ---------------------------------------------------
        running = list()
        for tm in tasks:
            if tm.status != 'passed':
                continue
            task = passed[tm.uid]
            for d in tm.outs:
                if d.present and not d.isdir:
                    write_file(d.src_path, d.content)
                if d.dir_before:
                    os.makedirs(d.dir_before, exist_ok=True)
            preexisting([tm], 'out')
            app_moves(tm, 'exec_moves')
            task['state']        = rps.AGENT_STAGING_OUTPUT_PENDING
            task['target_state'] = tm.outcome
            if tm.outcome == rps.DONE:
                task['exit_code'] = 0
            elif tm.outcome == rps.FAILED:
                task['exit_code']        = 1
                task['exception']        = 'RuntimeError("task failed")'
                task['exception_detail'] = 'exit code: 1'
            else:
                task['exit_code'] = None
            running.append(task)

        if running:
            if len(groups) > 1:
                # tasks finish one after the other
                for task in running:
                    w.net.q_put(rpc.AGENT_STAGING_OUTPUT_QUEUE, [task])
            else:
                w.net.q_put(rpc.AGENT_STAGING_OUTPUT_QUEUE, running)

        # -- output staging --------------------------------------------------------
        w.pump(w.agent_out, rpc.AGENT_STAGING_OUTPUT_QUEUE)
        w.move(rpc.AGENT_COLLECTING_QUEUE, '%s/%s' % (rpc.PROXY_TASK_QUEUE, SID),
               merge)
        w.pump(w.tmgr_out, '%s/%s' % (rpc.PROXY_TASK_QUEUE, SID))

        states = w.states()
        last   = {uid: seq[-1] for uid, seq in states.items()}
        set_positions(w, seen, 'out')

        for tm in tasks:

            uid  = tm.uid
            st   = last.get(uid, {}).get('state')
            role = 'task-under-test' if tm.test else 'bystander'
            tm.final = st

            if verbose:
                print('  %s final: %s (published: %s) exception=%s'
                      % (uid, st, [t['state'] for t in states.get(uid, [])],
                         last.get(uid, {}).get('exception')))

            if tm.status != 'passed':
                # never ran: none of its output directives may be carried out
                for d in tm.outs:
                    if os.path.lexists(d.tgt_path) and not d.degenerate:
                        part.violation('failed-task-output-staged|%s|'
                                       'failed-at-input:%s' % (d.site(), d.action),
                                       {'what': '%s failed in input staging, but '
                                                '%s exists' % (uid, d.tgt_path)},
                                       replay)
                continue

            bad  = [d for d in tm.outs if not d.carriable]
            ref  = [d for d in tm.outs if d.refusable or d.pre]
            tobs = ['out:%s->%s' % (tm.outcome, st)]
            if st == rps.FAILED and tm.outcome == rps.DONE:
                tobs.append('exception-recorded=%s'
                            % bool(last[uid].get('exception')))

            if st not in rps.FINAL:
                part.violation('not-final|%s|%s' % (fail_site(w, uid, states),
                               tm.outs[0].cls() if tm.outs else 'none'),
                               {'what': '%s: last published state after output '
                                        'staging is %s' % (uid, st)}, replay)

            elif tm.outcome == rps.DONE:

                if st == rps.DONE:
                    seq = [t['state'] for t in states.get(uid, [])]
                    if rps.FAILED in seq:
                        part.violation('failed-and-done|%s|%s'
                                       % (fail_site(w, uid, states), role),
                                       {'what': '%s is DONE but was also announced'
                                                ' as FAILED: published states %s'
                                                % (uid, seq)}, replay)
                    for d in bad:
                        part.unstageable(d, 'unstageable-not-failed|%s|%s'
                                         % unstageable_site(w, d),
                                         {'what': '%s: source %s of output '
                                                  'directive %r does not exist, '
                                                  'but the task is DONE'
                                                  % (uid, d.src_path,
                                                     d.as_input())},
                                         replay)
                        tobs.append('%s:missing-ignored' % d.action)
                    check_targets(part, w, tm, tm.outs, replay, verbose, tobs)

                elif st == rps.FAILED:
                    ibad = [d for d in tm.ins if not d.carriable]
                    if not bad and not ref and not ibad:
                        site = fail_site(w, uid, states)
                        detail = {'what': '%s (submitted %s) ran successfully and '
                                          'every output directive (%s) can be '
                                          'carried out, but it is FAILED: %s'
                                          % (uid, tm.pos,
                                             [d.as_input() for d in tm.outs],
                                             last[uid].get('exception'))}
                        if tm.test:
                            part.task_failed(good_failed(site, tm, tm.outs),
                                             tm.outs, detail, replay)
                        else:
                            part.violation('bystander-failed|%s|%s'
                                           % (site, sibling_trigger(tm, 'out',
                                                                    site)),
                                           detail, replay)
                    elif not bad and not ibad:
                        tobs.append('refused:%s' % (ref[0].refusable or
                                                 'target-preexists'))
                else:
                    part.violation('done-task-canceled|%s|%s'
                                   % (fail_site(w, uid, states),
                                      tm.outs[0].cls() if tm.outs else 'none'),
                                   {'what': '%s ran successfully, final state %s'
                                            % (uid, st)}, replay)

            else:
                # task failed / was canceled
                staged = [d for d in tm.outs
                            if os.path.lexists(d.tgt_path) and not d.degenerate]
                if not tm.soe:
                    for d in staged:
                        part.violation('failed-task-output-staged|%s|%s:%s'
                                       % (d.site(), tm.outcome, d.action),
                                       {'what': '%s ended %s without '
                                                'stage_on_error, but output '
                                                'directive %r was carried out: %s '
                                                'exists' % (uid, tm.outcome,
                                                            d.as_input(),
                                                            d.tgt_path)}, replay)
                tobs.append('soe=%s:staged=%s' % (tm.soe, ','.join(
                            '%s' % d.action for d in staged) or '-'))
                if st == rps.DONE:
                    part.violation('failed-task-done|%s|%s'
                                   % (fail_site(w, uid, states), tm.outcome),
                                   {'what': '%s ended %s in execution but its '
                                            'final state is DONE' % (uid,
                                                                     tm.outcome)},
                                   replay)

            if tm.test:
                obs.extend(tm.tag(x) for x in tobs)

        foreign_data(part, w, seen, 'output', replay, verbose)

        for tm in tasks:
            app_moves(tm, 'after_moves')

        return True

    for groups in rounds:
        if not run_round(groups):
            break

    return tuple(obs)


# ------------------------------------------------------------------------------
# enumeration
#
def loc_shapes(full):
    if full:
        return [[loc, shape] for loc in LOCS for shape in ('flat', 'sub')]
    return [[loc, 'sub' if loc in ('client', 'pilot', 'abs', 'rel') else 'flat']
            for loc in LOCS] + [['task', 'sub']]


def single_directives(direction, full):
    '''every directive form x action x source location x target location'''
    out   = list()
    srcs  = loc_shapes(full)
    tgts  = loc_shapes(full)
    for src in srcs:
        # no target
        out.append({'form': 'str', 'src': src})
        for action in ACTIONS:
            out.append({'form': 'dict', 'action': action, 'src': src})
        for tgt in tgts:
            for form in STR_FORMS:
                out.append({'form': form, 'src': src, 'tgt': tgt})
            for action in ACTIONS:
                out.append({'form': 'dict', 'action': action, 'src': src,
                            'tgt': tgt})
    return out


def reduced_directives():
    '''one representative per (form/action, default/explicit target)'''
    out = list()
    out.append({'form': 'str', 'src': ['rel', 'sub']})
    out.append({'form': '>',   'src': ['rel', 'flat'], 'tgt': ['rel', 'sub']})
    out.append({'form': '<<',  'src': ['client', 'sub'],
                               'tgt': ['task', 'flat']})
    for action in ACTIONS:
        out.append({'form': 'dict', 'action': action, 'src': ['pilot', 'sub']})
        out.append({'form': 'dict', 'action': action, 'src': ['rel', 'flat'],
                    'tgt': ['session', 'sub']})
    return out


def medium_directives():
    '''alphabet for the complete product of pairs (thorough tier)'''
    out  = list()
    srcs = [['rel', 'flat'], ['client', 'sub'], ['pilot', 'sub'],
            ['abs', 'flat']]
    tgts = [['rel', 'sub'], ['session', 'sub']]
    for src in srcs:
        out.append({'form': 'str', 'src': src})
        for action in ACTIONS:
            out.append({'form': 'dict', 'action': action, 'src': src})
        for tgt in tgts:
            out.append({'form': '>',  'src': src, 'tgt': tgt})
            out.append({'form': '<<', 'src': src, 'tgt': tgt})
            for action in ACTIONS:
                out.append({'form': 'dict', 'action': action, 'src': src,
                            'tgt': tgt})
    return out


def gen_cases(quick):

    cases = list()

    # part in1 / out1: every single directive, source present or missing
    for direction in ('in', 'out'):
        for d in single_directives(direction, full=not quick):
            for present in (True, False):
                # the task under test is handled first; second after the
                # bystander in an earlier bulk of its own; second in one bulk
                if   present and quick: orders = ['AB', 'B,A', 'BA+']
                elif present          : orders = ['AB', 'B,A', 'BA', 'BA+']
                elif quick            : orders = ['AB+', 'BA+']
                else                  : orders = ['AB', 'BA', 'AB+', 'BA+']
                for order in orders:
                    cases.append({'part' : '%s1' % direction,
                                  direction: [dict(d, present=present)],
                                  'order': order})

    # part outcome: task outcome x stage_on_error x output directive
    outs = reduced_directives() if quick else \
           single_directives('out', full=False)
    for d in outs:
        for outcome in ('FAILED', 'CANCELED'):
            for soe in (False, True):
                cases.append({'part': 'outcome', 'out': [dict(d)],
                              'outcome': outcome, 'soe': soe})

    # part pairs: lists of two directives (order matters), present / missing
    red = reduced_directives()
    med = red if quick else medium_directives()
    for direction in ('in', 'out'):
        for d1, d2 in itertools.product(med, med):
            for p1, p2 in ((True, True), (True, False), (False, True)):
                if quick and not (p1 and p2) and \
                   (d1['form'] != 'dict' or d2['form'] != 'dict'):
                    continue
                cases.append({'part' : '%s2' % direction,
                              direction: [dict(d1, present=p1),
                                          dict(d2, present=p2)]})

    # part both: input and output directives on one task
    for d1, d2 in itertools.product(red, red):
        if quick and d1.get('tgt') and d2.get('tgt'):
            continue
        cases.append({'part': 'both', 'in': [dict(d1)], 'out': [dict(d2)]})
        cases.append({'part': 'both', 'in': [dict(d1, present=False)],
                      'out': [dict(d2)]})

    # part pre: the target exists before staging, with other bytes
    for direction in ('in', 'out'):
        for d in single_directives(direction, full=not quick):
            # (quick: a bystander only where the directive gets refused)
            if not quick                : orders = ['AB', 'B,A']
            elif d.get('action') == LINK: orders = ['AB']
            else                        : orders = ['A']
            for order in orders:
                cases.append({'part': 'pre', direction: [dict(d, pre=True)],
                              'order': order})
                if order == orders[0]:
                    cases.append({'part': 'pre', 'order': order,
                                  direction: [dict(d, pre='samesize')]})

    # part same: successive tasks name the same target (pilot, session,
    # resource sandbox, a task sandbox shared via `description.sandbox`);
    # each task is staged and checked before the next one is submitted
    for direction in ('in', 'out'):
        for tgt in ('pilot', 'session', 'resource', 'task'):
            def spec(action, form='dict'):
                d = {'form': form, 'src': ['pilot', 'sub'],
                     'tgt': [tgt, 'flat'], 'share': True}
                if form == 'dict':
                    d['action'] = action
                ret = {direction: [d]}
                if tgt == 'task':
                    ret['sandbox'] = 'shared_sandbox'
                return ret
            acts = [(a, 'dict') for a in ACTIONS] + [(TRANSFER, '>')]
            for (a1, f1), (a2, f2) in itertools.product(acts, acts):
                cases.append(dict(spec(a1, f1), part='same', order='A;C',
                                  more={'C': spec(a2, f2)}))
                if not quick:
                    for a3, f3 in acts:
                        cases.append(dict(spec(a1, f1), part='same',
                                          order='A;C;D',
                                          more={'C': spec(a2, f2),
                                                'D': spec(a3, f3)}))

    # part dirs: a directory D is created by staging, moved away, and staged
    # into again -- on the stager of one component
    def into_d(action, loc, name, odd, form='dict', **kw):
        d = dict(kw, form=form, src=['pilot', 'sub'], tgt=[loc, 'flat'],
                 tgt_name=name, odd=odd)
        if form == 'dict':
            d['action'] = action
        return d

    def move_d(loc, **kw):
        return dict(kw, form='dict', action=MOVE, isdir=True, odd='dir-move',
                    src=[loc, 'flat'], src_name='D',
                    tgt=[loc, 'flat'], tgt_name='Dm')

    def shared(spec, loc):
        if loc == 'task':
            spec['sandbox'] = 'shared_sandbox'
        return spec

    # ... within one list of directives (agent side stagers)
    for direction in ('in', 'out'):
        for loc in ('pilot', 'session', 'task'):
            for op1, op3 in itertools.product(AGENT_SIDE, AGENT_SIDE):
                cases.append({'part': 'dirs', 'order': 'AB', direction: [
                    into_d(op1, loc, 'D/f1', 'dir-first', follow=['D', 'Dm']),
                    move_d(loc, recreated=True),
                    into_d(op3, loc, 'D/f3', 'dir-again')]})

    # ... across two tasks, input side: A stages into D; D is moved away by
    # A's output directive / by A itself while it runs / by the application
    # after A is done; C stages into D
    for loc in ('pilot', 'session', 'task'):
        for op1, op3 in itertools.product(ACTIONS, ACTIONS):
            for mover in ('directive', 'task', 'app'):
                a = {'in': [into_d(op1, loc, 'D/f1', 'dir-first')]}
                if   mover == 'directive': a['out'] = [move_d(loc)]
                elif mover == 'task'     : a['exec_moves']  = [[loc, 'D', 'Dm']]
                else                     : a['after_moves'] = [[loc, 'D', 'Dm']]
                c = {'in': [into_d(op3, loc, 'D/f3', 'dir-again')]}
                cases.append(dict(shared(a, loc), part='dirs', order='A;C',
                                  more={'C': shared(c, loc)}))

    # ... across two tasks, output side: A stages out into D; D is moved away
    # by C's input directive / by C itself while it runs / by the application
    # before C is submitted; C stages out into D
    for loc in ('pilot', 'session', 'task', 'client'):
        if loc == 'client':
            ops    = [(TRANSFER, 'dict'), (TRANSFER, '<')]
            movers = ['app']
        else:
            ops    = [(a, 'dict') for a in AGENT_SIDE + [TRANSFER]]
            movers = ['directive', 'task', 'app']
        for (op1, f1), (op3, f3) in itertools.product(ops, ops):
            for mover in movers:
                a = {'out': [into_d(op1, loc, 'D/f1', 'dir-first', f1)]}
                c = {'out': [into_d(op3, loc, 'D/f3', 'dir-again', f3)]}
                if   mover == 'directive': c['in'] = [move_d(loc)]
                elif mover == 'task'     : c['exec_moves']  = [[loc, 'D', 'Dm']]
                else                     : a['after_moves'] = [[loc, 'D', 'Dm']]
                cases.append(dict(shared(a, loc), part='dirs', order='A;C',
                                  more={'C': shared(c, loc)}))

    # part intodir: the target of a COPY / TRANSFER denotes a directory
    for direction in ('in', 'out'):
        for action, form in ((COPY, 'dict'), (TRANSFER, 'dict'),
                             (TRANSFER, '>'), (TRANSFER, '<')):
            agent = action == COPY
            srcs  = [['pilot', 'sub'], ['rel', 'sub']]
            if not agent:
                srcs.append(['client', 'sub'])
            for src in srcs:
                for mode in ('slash-new', 'slash-existing',
                             'noslash-existing', 'root', 'empty'):
                    locs = ['task', 'pilot', 'session', 'rel', 'abs']
                    if not agent      : locs.append('client')
                    if mode == 'root' : locs = [x for x in locs
                                                  if x in SANDBOXES]
                    if mode == 'empty': locs = ['task']
                    if mode == 'empty' and form != 'dict':
                        continue
                    for loc in locs:
                        d = {'form': form, 'src': src, 'tgt': [loc, 'flat'],
                             'tgt_dir': mode, 'odd': 'into-dir'}
                        if form == 'dict':
                            d['action'] = action
                        cases.append({'part': 'intodir', 'order': 'A',
                                      direction: [d]})
        # ... a name which an earlier directive / task created as a directory
        for action, loc in itertools.product((COPY, TRANSFER),
                                             ('task', 'pilot', 'session')):
            first = {'form': 'dict', 'action': action, 'src': ['pilot', 'sub'],
                     'tgt': [loc, 'flat'], 'tgt_name': 'R/f1',
                     'odd': 'dir-first'}
            again = {'form': 'dict', 'action': action, 'src': ['pilot', 'sub'],
                     'tgt': [loc, 'flat'], 'tgt_dir': 'noslash-created',
                     'odd': 'into-dir'}
            cases.append({'part': 'intodir', 'order': 'A',
                          direction: [dict(first), dict(again)]})
            a = {direction: [dict(first)]}
            c = {direction: [dict(again)]}
            if loc == 'task':
                a['sandbox'] = c['sandbox'] = 'shared_sandbox'
            cases.append(dict(a, part='intodir', order='A;C', more={'C': c}))

    # part seq3: three tasks one after the other through one world
    for direction in ('in', 'out'):
        if quick:
            triples = [(d1, d2, d1) for d1, d2 in itertools.product(red, red)]
        else:
            triples = list(itertools.product(red, red, red))
        for d1, d2, d3 in triples:
            cases.append({'part': 'seq3', direction: [dict(d1)],
                          'more': {'C': {direction: [dict(d2)]},
                                   'D': {direction: [dict(d3)]}},
                          'order': 'A,C,D'})
        if not quick:
            for d1, d2 in itertools.product(red, red):
                cases.append({'part': 'seq3', direction: [dict(d1)],
                              'more': {'C': {direction: [dict(d2)]},
                                       'D': {direction: [dict(d1)]}},
                              'order': 'ACD+'})

    # part odd: spellings at the edge of the documented forms
    for direction in ('in', 'out'):
        for action in ACTIONS:
            for odd in ('space', 'dotmid', 'dotdot', 'host'):
                for src in (['client', 'flat'], ['pilot', 'flat'],
                            ['rel', 'flat']):
                    if odd == 'host' and src[0] == 'rel':
                        continue
                    if odd == 'dotdot' and src[0] != 'rel':
                        continue
                    cases.append({'part': 'odd', direction: [
                                  {'form': 'dict', 'action': action,
                                   'src': src, 'tgt': ['task', 'sub'],
                                   'odd': odd}]})
        cases.append({'part': 'odd', direction: [
                      {'form': '>t', 'src': ['rel', 'flat'],
                       'tgt': ['rel', 'flat']}]})
        cases.append({'part': 'odd', direction: [
                      {'form': 'dict', 'noaction': True,
                       'src': ['rel', 'flat'], 'tgt': ['rel', 'flat']}]})

    return cases


# ------------------------------------------------------------------------------
#
_cases   = None
_scratch = None


class scratch_tmp(object):
    '''temp files of the code under test (tarballs) go below the scratch dir'''

    def __init__(self, scratch):
        self.tmp = '%s/tmp.%d' % (scratch, os.getpid())

    def __enter__(self):
        self.old = tempfile.tempdir
        os.makedirs(self.tmp, exist_ok=True)
        tempfile.tempdir = self.tmp

    def __exit__(self, *args):
        tempfile.tempdir = self.old
        return False


def _job(idx):
    lo, hi = idx
    part   = Collector()
    counts = dict()
    with scratch_tmp(_scratch):
        for i in range(lo, hi):
            case = _cases[i]
            obs  = check_case(part, case, _scratch)
            dirs = case.get('in', []) + case.get('out', [])
            for spec in case.get('more', {}).values():
                dirs = dirs + spec.get('in', []) + spec.get('out', [])
            part.outcome((case['part'],) + tuple(
                         d.get('action', TRANSFER) + ':' + d['form']
                         for d in dirs) + obs)
            k = 'cases_%s' % case['part']
            counts[k] = counts.get(k, 0) + 1
    part.cover(evaluations=hi - lo, **counts)
    return part.dump()


def run(ctx):

    global _cases, _scratch

    ctx.level = 'exploration'
    _scratch  = ctx.scratch
    _cases    = gen_cases(ctx.quick)

    chunk = max(1, min(200, len(_cases) // (ctx.workers * 8)))
    jobs  = [(lo, min(lo + chunk, len(_cases)))
             for lo in range(0, len(_cases), chunk)]

    evals = dict()
    fails = dict()
    unst  = dict()
    multi = dict()
    for res in seams.pmap(_job, jobs, ctx.workers):
        ctx.merge(res)
        for k, v in res['c11']['evals']:
            evals[k] = evals.get(k, 0) + v
        for k, v in res['c11']['fails']:
            fails.setdefault(k, v)
        for k, v in res['c11']['unst']:
            unst.setdefault(k, v)
        for k, v in res['c11']['multi']:
            multi.setdefault(k, v)
    aggregate(ctx, evals, fails, unst, multi)
    ctx.cover(directives_target_checked=sum(evals.values()),
              directive_classes=len(evals))

    for pick in (lambda c: c['part'] == 'in1' and c['in'][0]['form'] == '>>'
                           and c['in'][0]['src'][0] == 'rel'
                           and c['in'][0]['tgt'][0] == 'rel',
                 lambda c: c['part'] == 'outcome' and c['soe'] is False
                           and c['out'][0].get('action') == COPY,
                 lambda c: c['part'] == 'in2' and
                           not c['in'][1]['present']):
        for case in _cases:
            if pick(case):
                with scratch_tmp(_scratch):
                    obs = check_case(Collector(), case, _scratch)
                ctx.sample({'case': case, 'observed': obs})
                break

    ctx.set(exhaustive=True,
            rule='complete products: (in1/out1) every single input / output '
                 'directive = {string `f`, `f > g`, `f >> g`, `g < f`, '
                 '`g << f`, dict x 5 actions with and without target} x source'
                 ' location x target location (client, task, pilot, session, '
                 'resource, endpoint, file://, absolute, relative; %s) x '
                 'source present / missing x handling order (task under test '
                 'first; second after the bystander, in an earlier bulk of its'
                 ' own or in the same bulk%s); '
                 '(outcome) FAILED / CANCELED x stage_on_error x output '
                 'directives; (in2/out2) all ordered pairs over %d '
                 'representative directives x which source is missing; (both) '
                 'input x output directive on one task; (pre) every single '
                 'directive with the target existing beforehand (other bytes);'
                 ' (same) 2%s tasks, staged and checked one after the other, '
                 'whose directives (5 actions + `f > g`) name the same target '
                 'in the pilot / session / resource sandbox or in a task '
                 'sandbox shared via description.sandbox; (intodir) COPY / '
                 'TRANSFER whose target denotes a directory: trailing slash on '
                 'a new / existing directory, name of an existing directory '
                 '(harness, earlier directive, earlier task), sandbox root, '
                 'empty target, x target location x source location; (dirs) a directory '
                 'is created by a directive, moved away (by a MOVE directive of'
                 ' the same list / of the other staging side, by the task '
                 'itself, by the application) and staged into again, in one '
                 'list and across two tasks, input and output; (seq3) three tasks '
                 'with one directive each through one world, one after the '
                 'other; (odd) file name with '
                 'space, `d/../f`, `../d/f`, host element, `f>g`, dict without '
                 'action.  Every bulk = task under test + bystander.  '
                 'distinct = distinct (part, forms, observed behaviour) '
                 'classes'
                 % ('flat and sub-directory paths' if not ctx.quick else
                    'one path shape per location',
                    '; missing sources: bulks forwarded merged' if ctx.quick
                    else '; missing sources: merged / one by one',
                    len(reduced_directives() if ctx.quick
                        else medium_directives()),
                    '' if ctx.quick else ' and 3'))
    ctx.set(distinct_nontrivial=len(ctx.outcomes))
    ctx.assume('scheduler and executor of the agent are played by the harness:'
               ' it creates the output files and sets target_state',
               'the proxy queues are forwarded as Agent_0 does',
               'resource config (local file system, work dir) is environment; '
               'SAGA is absent, so StagingHelper selects its local backend',
               'reference resolver: DESIGN.md appendix A.9')


def replay(ctx, data):
    case = data['replay']
    part = Collector()
    print('case:', case)
    with scratch_tmp(ctx.scratch):
        obs = check_case(part, case, ctx.scratch, verbose=True)
    print('observed:', obs)
    for k, (d, _) in part.violations.items():
        print('VIOLATED', k, '::', d['what'])
    for (what, site, attrs), (d, _) in part.fails.items():
        print('VIOLATED', '%s|%s|%s' % ('good-task-failed'
              if what == 'task-failed' else 'target-%s' % what, site, ','.join(
              '%s=%s' % kv for kv in zip(ATTRS, attrs))), '::', d['what'])
    for (key, _, _), (d, _) in part.unst.items():
        print('VIOLATED', key, '::', d['what'])
    for (site, combos), (d, _) in part.multi.items():
        print('VIOLATED', 'good-task-failed|%s' % site, '::', d['what'])
    bad = part.violations or part.fails or part.unst or part.multi
    if not bad:
        print('no clause violated')
    return 1 if bad else 0
