'''
C20 part (d) -- the MPI raptor worker's rank allocator.

`worker_mpi._Resources` is shared by two threads of rank 0: the task puller
allocates ranks for each request (`_alloc`, blocking until enough are free),
the result pusher frees them when all ranks of a request have reported
(`_dealloc`).  Engine B: both run as controlled threads on the real object
(`_res_lock` -> controlled lock, `_res_evt` -> controlled event whose timed
wait is a poll point); every schedule within the delay bound is executed for
each workload.

Oracle: ranks held by requests at the same time are disjoint and exist; every
request is allocated and freed (no schedule leaves the puller waiting although
the ranks it needs are free: a lost wake-up is a deadlock here); at the end all
ranks are free.
'''

import itertools

from rpmc import seams, report, sched as rs

seams.import_rp()

from radical.pilot.raptor import worker_mpi as wm                  # noqa: E402


class _PollEvent(rs.CEvent):
    '''threading.Event whose timed wait is a poll point'''

    def is_set(self):
        return self.flag

    def wait(self, timeout=None):
        if timeout is None:
            self.sched.block_until(lambda: self.flag)
        elif not self.flag:
            self.sched.poll_point()
        return self.flag

    def clear(self):
        self.flag = False
        self.sched.bump(force=True)


def workloads(quick):
    out = list()
    for n_ranks in (2, 3):
        sizes = range(1, n_ranks + 1)
        for n in (2, 3):
            for demand in itertools.product(sizes, repeat=n):
                if sum(demand) <= n_ranks:
                    continue                 # nobody ever waits
                if n == 3 and quick and n_ranks == 3:
                    continue
                for order in ('fifo', 'lifo'):
                    out.append((n_ranks, demand, order))
    return out


def run_one(wl, prefix):
    n_ranks, demand, order = wl
    s = rs.Sched(prefix=prefix,
                 traced={wm._Resources._alloc.__code__,
                         wm._Resources._dealloc.__code__}, max_steps=4000)
    r = wm._Resources(seams.null(), seams.null(), n_ranks)
    r._res_lock = rs.CLock(s, 'res')
    r._res_evt  = _PollEvent(s)
    r._res_evt.flag = True
    w = {'held': dict(), 'running': list(), 'errors': list(), 'freed': 0,
         'allocated': 0}

    def puller():
        for i, d in enumerate(demand):
            task  = {'uid': 'req.%d' % i, 'description': {'ranks': d}}
            ranks = r._alloc(task)
            mine  = set(ranks)
            for uid, other in w['held'].items():
                if mine & other:
                    w['errors'].append('%s gets ranks %s, %s holds %s'
                                       % (task['uid'], sorted(mine), uid,
                                          sorted(other)))
            if len(mine) != d or not mine <= set(range(n_ranks)):
                w['errors'].append('%s asked for %d ranks, got %s'
                                   % (task['uid'], d, ranks))
            w['held'][task['uid']] = mine
            task['ranks'], task['rank'] = ranks, ranks[0]
            w['running'].append(task)
            w['allocated'] += 1
            s.bump(force=True)

    def pusher():
        for _ in demand:
            s.block_until(lambda: w['running'])
            s.yield_point()
            task = w['running'].pop(0 if order == 'fifo' else -1)
            del w['held'][task['uid']]
            r._dealloc(task)
            w['freed'] += 1

    t = s.spawn('puller', puller, poller=True)
    s.spawn('pusher', pusher)
    res = s.run()
    return s, (w, r, res)


def _job(wl_bound):
    wl, bound = wl_bound
    part = report.Part()
    n_ranks, demand, order = wl
    trig = 'ranks=%d:demand=%s:%s' % (n_ranks, '+'.join(map(str, demand)),
                                      order)
    n = 0
    for s, out in rs.explore(lambda p: run_one(wl, p), bound, max_exec=60000):
        if s is None:
            part.cap('mpi allocator %s: %d schedules left' % (trig, out))
            break
        n += 1
        w, r, res = out
        replay = {'part': 'mpi-alloc', 'workload': [n_ranks, list(demand),
                                                    order],
                  'schedule': list(s.choices)}
        for e in w['errors']:
            part.violation('mpi-ranks-disjoint|_Resources._alloc|%s' % trig,
                           {'what': e}, replay)
        for t in s.threads:
            if t.exc is not None:
                part.violation('mpi-alloc-raises|_Resources|%s' % trig,
                               {'what': '%s raised %r' % (t.name, t.exc)},
                               replay)
        if res != 'done' or w['allocated'] != len(demand) or \
           w['freed'] != len(demand):
            part.violation('mpi-alloc-stuck|_Resources._alloc|%s' % trig,
                           {'what': '%s: %d of %d requests allocated, %d '
                                    'freed; ranks now %s, event set: %s; '
                                    'stuck: %s'
                                    % (res, w['allocated'], len(demand),
                                       w['freed'], r._resources['cores'],
                                       r._res_evt.flag, s.stuck)}, replay)
        elif any(x != wm.FREE for x in r._resources['cores']):
            part.violation('mpi-ranks-restored|_Resources._dealloc|%s' % trig,
                           {'what': 'all requests freed, ranks %s'
                                    % r._resources['cores']}, replay)
        part.outcome(('mpi-alloc', wl, res, w['allocated'], w['freed']))
    part.cover(executions=n, mpi_alloc_workloads=1,
               traces_validated_against_impl=n)
    return part.dump()


def run(ctx):
    bound = 1 if ctx.quick else 2
    jobs  = [(wl, bound) for wl in workloads(ctx.quick)]
    for res in seams.pmap(_job, jobs, ctx.workers):
        ctx.merge(res)
    return len(jobs)


def replay(ctx, r):
    wl = (r['workload'][0], tuple(r['workload'][1]), r['workload'][2])
    s, (w, res_, res) = run_one(wl, r['schedule'])
    print('workload', wl, 'result', res, 'allocated', w['allocated'], 'freed',
          w['freed'], 'errors', w['errors'], 'stuck', s.stuck)
    return 1 if (res != 'done' or w['errors']) else 0
