'''
C19 -- Descriptions and payloads survive normalisation and transport.

Engine C (DESIGN.md 3.3): exhaustive enumeration of a bounded input alphabet,
real functions, independent reference.
'''

import copy
import asyncio
import functools
import itertools

from rpmc import seams

rp = seams.import_rp()

import radical.utils as ru                                        # noqa: E402

from radical.pilot import task_description as rptd                # noqa: E402
from radical.pilot.pytask          import PythonTask              # noqa: E402
from radical.pilot.utils           import serializer as rpser     # noqa: E402
from radical.pilot.utils.misc      import convert_slots_to_new, \
                                          convert_slots_to_old    # noqa: E402
from radical.pilot.resource_config import Slot, RO                # noqa: E402


# ------------------------------------------------------------------------------
# reference tables (written from the TaskDescription documentation)
#
# deprecated name -> (replacement, distinguishing value, converter)
DEPRECATED = [
    ('cpu_processes'   , 'ranks'         , 3        , int),
    ('cpu_threads'     , 'cores_per_rank', 2        , int),
    ('cpu_thread_type' , 'threading_type', 'OpenMP' , str),
    ('gpu_processes'   , 'gpus_per_rank' , 2        , float),
    ('gpu_process_type', 'gpu_type'      , 'CUDA'   , str),
    ('lfs_per_process' , 'lfs_per_rank'  , 5        , int),
    ('mem_per_process' , 'mem_per_rank'  , 7        , int),
    ('scheduler'       , 'raptor_id'     , 'master.0', str),
    ('worker_file'     , 'raptor_file'   , 'w.py'   , str),
    ('worker_class'    , 'raptor_class'  , 'MyWorker', str),
    # deprecated and ignored
    ('cpu_process_type', None            , 'MPI'    , str),
    ('gpu_threads'     , None            , 4        , int),
    ('gpu_thread_type' , None            , 'CUDA'   , str),
]

# value given to the replacement attribute when it is set explicitly
REPLACEMENT_SET = {'ranks': 4, 'cores_per_rank': 6, 'threading_type': 'POSIX',
                   'gpus_per_rank': 0.5, 'gpu_type': 'ROCm', 'lfs_per_rank': 11,
                   'mem_per_rank': 13, 'raptor_id': 'master.9',
                   'raptor_file': 'x.py', 'raptor_class': 'XWorker'}

# mode -> required attribute (documentation of TaskDescription.mode)
REQUIRED = {
    rptd.TASK_EXECUTABLE: 'executable',
    rptd.TASK_SERVICE   : 'executable',
    rptd.AGENT_SERVICE  : 'executable',
    rptd.TASK_FUNCTION  : 'function',
    rptd.TASK_METHOD    : 'function',   # schema has no `method` attribute
    rptd.TASK_EVAL      : 'code',
    rptd.TASK_EXEC      : 'code',
    rptd.TASK_PROC      : 'executable',
    rptd.TASK_SHELL     : 'command',
    rptd.RAPTOR_MASTER  : None,
    rptd.RAPTOR_WORKER  : None,
}


# ------------------------------------------------------------------------------
#
def _td_case(ctx, mode, required_present, dep_subset, repl_set):

    d = {'mode': mode}
    req = REQUIRED[mode]
    if req and required_present:
        d[req] = 'x'

    for name, repl, val, conv in DEPRECATED:
        if name in dep_subset:
            d[name] = val
    if repl_set:
        d.update(REPLACEMENT_SET)

    trig = 'mode=%s,req=%s,dep=%s,repl=%s' % (mode, required_present,
                                             '+'.join(sorted(dep_subset)) or '-',
                                             repl_set)
    replay = {'kind': 'td', 'from_dict': d}

    td = rp.TaskDescription(copy.deepcopy(d))

    raised = None
    try:
        td.verify()
    except Exception as e:
        raised = e

    must_raise = bool(req) and not required_present
    if must_raise:
        if not isinstance(raised, ValueError):
            ctx.violation('required-not-enforced|TaskDescription._verify|'
                          'mode=%s' % mode,
                          'verify() accepted a %s description without %s (%r)'
                          % (mode, req, raised), replay)
        return 'raise'

    if raised is not None:
        ctx.violation('spurious-reject|TaskDescription._verify|mode=%s' % mode,
                      'verify() raised %r for %s' % (raised, trig), replay)
        return 'raise!'

    # alias mapping
    for name, repl, val, conv in DEPRECATED:
        if not repl:
            continue
        if name in dep_subset:
            expect = conv(val)
        elif repl_set:
            expect = REPLACEMENT_SET[repl]
        else:
            expect = rp.TaskDescription._defaults[repl]
        got = td[repl]
        if got != expect:
            ctx.violation('alias-value|TaskDescription._verify|%s->%s'
                          % (name, repl),
                          '%s: expected %s=%r after verify, got %r'
                          % (trig, repl, expect, got), replay)

    once = td.as_dict()

    # differential: the same description written with the current attribute
    # names must verify to the same result (derived defaults such as use_mpi
    # included)
    d_cur = {'mode': mode}
    if req and required_present:
        d_cur[req] = 'x'
    if repl_set:
        d_cur.update(REPLACEMENT_SET)
    for name, repl, val, conv in DEPRECATED:
        if repl and name in dep_subset:
            d_cur[repl] = conv(val)
    td_cur = rp.TaskDescription(copy.deepcopy(d_cur))
    try:
        td_cur.verify()
        cur = td_cur.as_dict()
        dep_names = set(x[0] for x in DEPRECATED)
        diff = sorted(k for k in cur if k not in dep_names
                                     and cur[k] != once.get(k))
        if diff:
            ctx.violation('alias-differs-from-current-name|'
                          'TaskDescription._verify|%s' % '+'.join(diff),
                          '%s: deprecated spelling gives %s, current spelling '
                          'gives %s' % (trig, {k: once.get(k) for k in diff},
                                        {k: cur[k] for k in diff}), replay)
    except Exception as e:
        ctx.violation('alias-differs-from-current-name|TaskDescription._verify|'
                      'raises', '%s: current spelling raised %r' % (trig, e),
                      replay)

    # idempotence
    try:
        td.verify()
        twice = td.as_dict()
    except Exception as e:
        twice = repr(e)
    if once != twice:
        diff = {k: (once.get(k), twice.get(k) if isinstance(twice, dict)
                    else twice) for k in once
                if not isinstance(twice, dict) or once[k] != twice.get(k)}
        ctx.violation('verify-not-idempotent|TaskDescription._verify|%s'
                      % '+'.join(sorted(diff)),
                      '%s: second verify() changed %s' % (trig, diff), replay)

    # dict round trip
    td2   = rp.TaskDescription(copy.deepcopy(once))
    back  = td2.as_dict()
    if back != once:
        diff = [k for k in set(once) | set(back) if once.get(k) != back.get(k)]
        ctx.violation('dict-roundtrip|TaskDescription.__init__|%s'
                      % '+'.join(sorted(diff)),
                      '%s: as_dict -> TaskDescription -> as_dict differs in %s'
                      % (trig, diff), replay)
    else:
        # verifying the restored description must not change it either
        try:
            td2.verify()
            back2 = td2.as_dict()
        except Exception as e:
            back2 = repr(e)
        if back2 != once:
            ctx.violation('dict-roundtrip-verify|TaskDescription._verify|-',
                          '%s: restored description changes on verify: %s'
                          % (trig, back2), replay)

    # wire round trip
    wired = seams.wire(once)
    if rp.TaskDescription(wired).as_dict() != once:
        ctx.violation('wire-roundtrip|TaskDescription.__init__|-',
                      '%s: msgpack round trip differs' % trig, replay)

    return tuple(sorted((k, repr(v)) for k, v in once.items()
                        if v != rp.TaskDescription._defaults.get(k)))


# legal values per attribute (of the documented type, so that no cast is due):
# verify() must hand each of them back unchanged
SD_IN  = {'source': 'client:///in.dat', 'target': 'task:///in.dat',
          'action': 'Transfer', 'flags': 0, 'priority': 0}
PRESERVE = {
    'executable'     : ['/bin/x', 'x y'],
    'arguments'      : [['a', 'b c', '', '$X', '1']],
    'environment'    : [{'A': '1', 'B': 'x y'}],
    'pre_exec'       : [['echo a'], ['echo a', {'0': ['echo r0'],
                                                '1': 'echo r1'}],
                        [{'0': 'echo only'}]],
    'post_exec'      : [['echo a'], [{'1': ['echo r1', 'echo r1b']}, 'echo z']],
    'pre_launch'     : [['module load x']],
    'post_launch'    : [['echo done']],
    'pre_exec_sync'  : [True, False],
    'stdout'         : ['out.txt'],
    'stderr'         : ['err.txt'],
    'input_staging'  : [['a.dat', 'b.dat > c.dat'], [dict(SD_IN)],
                        [dict(SD_IN), 'x.dat']],
    'output_staging' : [['o.dat'], [dict(SD_IN, source='task:///o',
                                         target='client:///o')]],
    'tags'           : [{'colocate': 'a'}, {'colocate': 0, 'exclusive': True}],
    'metadata'       : [{'k': [1, {'a': 2.5}], 'l': None}],
    'named_env'      : ['ve1'],
    'sandbox'        : ['sb', 'task:///x'],
    'services'       : [['s1', 's2']],
    'timeout'        : [1.5, 0.0],
    'startup_timeout': [2.0],
    'priority'       : [1, -1],
    'partition'      : [2],
    'pilot'          : ['pilot.0001'],
    'name'           : ['n 1'],
    'uid'            : ['task.x'],
    'ranks'          : [2],
    'ranks_per_node' : [2],
    'cores_per_rank' : [3],
    'gpus_per_rank'  : [0.5, 2.0],
    'gpu_type'       : ['CUDA'],
    'threading_type' : ['OpenMP'],
    'lfs_per_rank'   : [5],
    'mem_per_rank'   : [7],
    'restartable'    : [True],
    'cleanup'        : [True],
    'stage_on_error' : [True],
    'info_pattern'   : ['stdout:ready'],
    'raptor_id'      : ['master.0'],
    'kwargs'         : [{'a': [1, 2], 'func': 'x'}],
    'args'           : [[1, 'a', {'k': None}]],
}


def check_values_preserved(ctx):
    n = 0
    base = {'executable': '/bin/true'}
    cases = [(k, v) for k, vals in sorted(PRESERVE.items()) for v in vals]
    # each value alone, and all attributes at once (first value of each)
    descrs = [dict(base, **{k: copy.deepcopy(v)}) for k, v in cases]
    descrs.append(dict(base, **{k: copy.deepcopy(vals[0])
                                for k, vals in PRESERVE.items()}))
    for d in descrs:
        replay = {'kind': 'td', 'from_dict': d}
        td = rp.TaskDescription(copy.deepcopy(d))
        n += 1
        try:
            td.verify()
        except Exception as e:
            ctx.violation('spurious-reject|TaskDescription._verify|value',
                          'verify() raised %r for %s' % (e, d), replay)
            continue
        after = td.as_dict()
        for k, v in d.items():
            if after.get(k) != v or type(after.get(k)) is not type(v):
                ctx.violation('value-changed|TaskDescription._verify|%s' % k,
                              'verify() changed %s: %r -> %r'
                              % (k, v, after.get(k)), replay)
        again = rp.TaskDescription(seams.wire(after)).as_dict()
        if again != after:
            diff = sorted(k for k in after if again.get(k) != after[k])
            ctx.violation('wire-roundtrip|TaskDescription.__init__|%s'
                          % '+'.join(diff),
                          'msgpack round trip changes %s of %s' % (diff, d),
                          replay)
        ctx.outcome(('tdv', repr(sorted((k, repr(after.get(k))) for k in d))))
    ctx.cover(evaluations=n, td_value_cases=n)


def check_task_descriptions(ctx):

    names = [d[0] for d in DEPRECATED]
    n     = 0
    check_values_preserved(ctx)
    check_reverify(ctx)

    # (i) complete product of deprecated subsets x replacement set/unset, for
    #     the default mode
    for r in range(len(names) + 1):
        for subset in itertools.combinations(names, r):
            for repl_set in (False, True):
                out = _td_case(ctx, rptd.TASK_EXECUTABLE, True,
                               frozenset(subset), repl_set)
                ctx.outcome(('td', out))
                n += 1
                if n in (1, 4000, 12000):
                    ctx.sample({'mode': rptd.TASK_EXECUTABLE,
                                'deprecated': sorted(subset),
                                'replacement_set': repl_set})

    # (ii) every mode x required present/absent x subsets of size <= 2
    small = [frozenset(s) for r in range(3)
                          for s in itertools.combinations(names, r)]
    if not ctx.quick:
        small += [frozenset(s) for s in itertools.combinations(names, 3)]
    for mode in REQUIRED:
        for present in (True, False):
            for subset in small:
                for repl_set in (False, True):
                    out = _td_case(ctx, mode, present, subset, repl_set)
                    ctx.outcome(('td', mode, out))
                    n += 1

    ctx.cover(evaluations=n, td_cases=n)


# ------------------------------------------------------------------------------
#
def check_pilot_descriptions(ctx):

    n = 0
    base  = {'resource': 'local.localhost'}
    alpha = {'cores'       : [0, 1, 8],
             'gpus'        : [0, 2],
             'nodes'       : [0, 3],
             'runtime'     : [10],
             'backup_nodes': [0, 1],
             'queue'       : [None, 'debug'],
             'project'     : [None, 'p1'],
             'access_schema': [None, 'ssh'],
             'exit_on_error': [True, False],
             'input_staging': [[], ['a.dat']],
             'cleanup'     : [False, True],
             'services'    : [[], [{'executable': 'svc', 'ranks': 2}]]}
    for combo in seams.product_dicts(**alpha):
        d = dict(base)
        d.update({k: v for k, v in combo.items() if v is not None})
        replay = {'kind': 'pd', 'from_dict': d}
        pd = rp.PilotDescription(copy.deepcopy(d))
        try:
            pd.verify()
        except Exception as e:
            # documented rejections: no size at all; nodes together with
            # cores/gpus; backup nodes without nodes
            if (not d['cores'] and not d['nodes'])          or \
               (d['nodes'] and (d['cores'] or d['gpus']))   or \
               (d['backup_nodes'] and not d['nodes']):
                if isinstance(e, ValueError):
                    ctx.outcome(('pd', 'reject', str(e)))
                    n += 1
                    continue
            ctx.violation('spurious-reject|PilotDescription._verify|-',
                          'verify() raised %r for %s' % (e, d), replay)
            continue
        once = pd.as_dict()
        for k, v in d.items():
            if k == 'services':
                # sub-descriptions are completed with defaults; the given
                # keys must survive
                ok = len(once[k]) == len(v) and all(
                     all(o.get(kk) == vv for kk, vv in g.items())
                     for o, g in zip(once[k], v))
                if ok:
                    continue
            if once.get(k) != v:
                ctx.violation('value-lost|PilotDescription|%s' % k,
                              '%s: %r became %r' % (k, v, once.get(k)), replay)
        pd.verify()
        if pd.as_dict() != once:
            ctx.violation('verify-not-idempotent|PilotDescription._verify|-',
                          'second verify changes %s' % d, replay)
        back = rp.PilotDescription(seams.wire(once)).as_dict()
        if back != once:
            ctx.violation('dict-roundtrip|PilotDescription.__init__|-',
                          'round trip differs for %s' % d, replay)
        ctx.outcome(('pd', tuple(sorted((k, repr(v)) for k, v in d.items()))))
        n += 1

    ctx.cover(evaluations=n, pd_cases=n)


# ------------------------------------------------------------------------------
# function tasks
#
def f_module(*args, **kwargs):
    return ('f_module', args, sorted(kwargs.items()))


def f_two(a, b=7, *rest, **kw):
    return ('f_two', a, b, rest, sorted(kw.items()))


async def f_async(*args, **kwargs):
    return ('f_async', args, sorted(kwargs.items()))


def _make_closure():
    captured = {'k': [1, 2, 3]}

    def closure(*args, **kwargs):
        return ('closure', captured['k'], args, sorted(kwargs.items()))
    return closure


FUNCS = {
    'module' : f_module,
    'lambda' : lambda *a, **k: ('lambda', a, sorted(k.items())),
    'closure': _make_closure(),
    'partial': functools.partial(f_module, 'bound', z=26),
    'async'  : f_async,
}

ARGS   = [(), (1,), ('a b', [1, {'k': 2}]), (None, 0)]
KWARGS = ['<omitted>', None, {}, {'x': 1}, {'comm': None, 'y': 'a b'},
          # keyword names an encoder or decoder is likely to use itself
          {'func': 'f', 'args': 1, 'kwargs': 2, 'self': 3, 'cls': 4,
           'function': 5}]


def _call(f, args, kwargs):
    # how the raptor worker calls it: f(*args, **kwargs)
    if asyncio.iscoroutinefunction(f):
        return asyncio.run(f(*args, **kwargs))
    return f(*args, **kwargs)


def check_function_tasks(ctx):

    n = 0
    for (fname, f), args, kwargs, via in itertools.product(
            FUNCS.items(), ARGS, KWARGS, ('PythonTask', 'pythontask')):

        if via == 'pythontask' and kwargs in ('<omitted>', None):
            if kwargs is None:
                continue
            kw_eff = {}
            enc    = lambda: PythonTask.pythontask(f)(*args)           # noqa
        elif via == 'pythontask':
            kw_eff = kwargs
            enc    = lambda: PythonTask.pythontask(f)(*args, **kwargs)  # noqa
        elif kwargs == '<omitted>':
            kw_eff = {}
            enc    = lambda: PythonTask(f, args)                        # noqa
        elif kwargs is None:
            kw_eff = {}
            enc    = lambda: PythonTask(f, args, None)                  # noqa
        else:
            kw_eff = kwargs
            enc    = lambda: PythonTask(f, args, kwargs)                # noqa

        trig   = 'func=%s,args=%d,kwargs=%s,via=%s' % (
                 fname, len(args),
                 kwargs if isinstance(kwargs, str) else
                 ('None' if kwargs is None else
                  'empty' if not kwargs else
                  'reserved-names' if 'func' in kwargs else 'given'), via)
        replay = {'kind': 'func', 'func': fname, 'args': list(args),
                  'kwargs': kwargs, 'via': via}
        n += 1

        expect = _call(f, args, kw_eff)
        try:
            blob = enc()
            # the encoded function travels in td.function (a str) via msgpack
            blob = seams.wire({'function': blob})['function']
            g, a, k = PythonTask.get_func_attr(blob)
        except Exception as e:
            ctx.violation('func-transport|PythonTask|%s' % trig.split(',')[0],
                          '%s: encode/decode raised %r' % (trig, e), replay)
            continue

        if not callable(g):
            ctx.violation('func-not-callable|PythonTask.get_func_attr|-',
                          '%s: decoded %r' % (trig, g), replay)
            continue
        try:
            got = _call(g, a, k)
        except Exception as e:
            key = 'kwargs=%s,via=%s' % (trig.split(',')[2].split('=')[1], via)
            ctx.violation('func-call|PythonTask.get_func_attr|%s' % key,
                          '%s: decoded call f(*%r, **%r) raised %r'
                          % (trig, a, k, e), replay)
            continue
        if got != expect:
            ctx.violation('func-result|PythonTask|%s' % trig,
                          '%s: %r != %r' % (trig, got, expect), replay)
        ctx.outcome(('func', repr(got)))

        # decoding is a pure function of the payload: what a consumer does to
        # the decoded arguments (the raptor worker injects a communicator into
        # them) must not show in a later decode of the same payload
        try:
            if isinstance(a, list):
                a.append('poison')
                if a and a[0] is None:
                    a[0] = 'comm'
            if isinstance(k, dict):
                k['poison'] = True
            g2, a2, k2 = PythonTask.get_func_attr(blob)
            got2 = _call(g2, a2, k2)
            if got2 != expect:
                ctx.violation('decode-not-independent|PythonTask.get_func_attr|'
                              '%s' % via,
                              '%s: second decode of the same payload gives '
                              'f(*%r, **%r) = %r, expected %r'
                              % (trig, a2, k2, got2, expect), replay)
        except Exception as e:
            ctx.violation('decode-not-independent|PythonTask.get_func_attr|%s'
                          % via, '%s: second decode raised %r' % (trig, e),
                          replay)

    # plain object serialisers
    import os
    objs = [0, 'a b', [1, {'k': (2, 3)}], {'x': None}, b'\x00\xff',
            f_module, FUNCS['partial']]
    for i, o in enumerate(objs):
        n += 1
        for name, ser, de in (
                ('obj',  rpser.serialize_obj,  rpser.deserialize_obj),
                ('bson', rpser.serialize_bson, rpser.deserialize_bson)):
            try:
                back = de(ser(o))
                same = (back(5) == o(5)) if callable(o) else (back == o)
            except Exception as e:
                same = False
                back = repr(e)
            if not same:
                ctx.violation('serializer-roundtrip|serialize_%s|obj%d'
                              % (name, i), '%r -> %r' % (o, back),
                              {'kind': 'ser', 'obj': repr(o)})
        fname = os.path.join(ctx.scratch, 'obj.%d.pkl' % i)
        try:
            back = rpser.deserialize_file(rpser.serialize_file(o, fname))
            same = (back(5) == o(5)) if callable(o) else (back == o)
        except Exception as e:
            same = False
            back = repr(e)
        if not same:
            ctx.violation('serializer-roundtrip|serialize_file|obj%d' % i,
                          '%r -> %r' % (o, back), {'kind': 'ser'})

    ctx.cover(evaluations=n, func_cases=n)


# ------------------------------------------------------------------------------
# slots
#
def check_function_late_binding(ctx):
    '''
    a function task carries the callable as it is when the task is encoded
    (the decorated function is called / PythonTask(...) is built), not as it
    was when it was decorated: state captured by the callable may change in
    between
    '''
    def make_counter():
        n = 5
        def get(x=0):
            return ('counter', n + x)
        def bump(by):
            nonlocal n
            n += by
        return get, bump

    class Scaler(object):
        def __init__(self): self.factor = 2
        def __call__(self, x=1): return ('scaled', self.factor * x)

    def make_late_helper():
        def outer(x=1):
            return ('late', helper(x))
        return outer, (lambda h: None)

    cases = list()
    get, bump = make_counter()
    cases.append(('closure-rebound', get, lambda: bump(10)))
    sc = Scaler()
    cases.append(('object-attribute', sc, lambda: setattr(sc, 'factor', 7)))
    box = {'v': 1}
    def boxed(x=0): return ('boxed', box['v'] + x)
    cases.append(('captured-dict', boxed, lambda: box.update(v=41)))

    n = 0
    for name, f, change in cases:
        for via in ('pythontask', 'PythonTask'):
            n += 1
            replay = {'kind': 'func-late', 'case': name, 'via': via}
            try:
                dec = PythonTask.pythontask(f) if via == 'pythontask' else None
                change()
                expect = f(3)
                blob = dec(3) if dec else PythonTask(f, (3,))
                blob = seams.wire({'function': blob})['function']
                g, a, k = PythonTask.get_func_attr(blob)
                got = _call(g, a, k)
            except Exception as e:
                ctx.violation('func-transport|PythonTask|late-binding:%s'
                              % name, '%s via %s raised %r' % (name, via, e),
                              replay)
                continue
            if got != expect:
                ctx.violation('func-snapshot-stale|PythonTask.pythontask|%s'
                              % name,
                              '%s via %s: the decoded function gives %r, the '
                              'function gave %r when the task was encoded'
                              % (name, via, got, expect), replay)
            ctx.outcome(('func-late', name, via, repr(got)))
    ctx.cover(evaluations=n, func_late_cases=n)


def check_reverify(ctx):
    '''
    a description may be verified, changed and verified again (it is a long
    lived object in application code): the second verify() gives what a
    fresh description with the same content gives
    '''
    base = {'executable': '/bin/x'}
    changes = [{'cpu_processes': 4}, {'gpu_processes': 2},
               {'mem_per_process': 9}, {'ranks': '8'},
               {'mode': rptd.TASK_FUNCTION}, {'cpu_threads': 3, 'ranks': 2},
               {'executable': None, 'mode': rptd.TASK_EXECUTABLE}]
    n = 0
    for first in ({}, {'ranks': 2}, {'cpu_processes': 3}):
        for ch in changes:
            n += 1
            replay = {'kind': 'td-reverify', 'first': first, 'change': ch}
            td = rp.TaskDescription(dict(base, **first))
            try:
                td.verify()
            except Exception as e:
                continue
            for k, v in ch.items():
                td[k] = v
            fresh = rp.TaskDescription(td.as_dict())
            res = list()
            for d in (td, fresh):
                try:
                    d.verify()
                    res.append(d.as_dict())
                except Exception as e:
                    res.append('raises %s' % type(e).__name__)
            if res[0] != res[1]:
                diff = res if not all(isinstance(r, dict) for r in res) else \
                       {k: (res[0].get(k), res[1].get(k)) for k in res[1]
                        if res[0].get(k) != res[1].get(k)}
                ctx.violation('reverify-differs-from-fresh|'
                              'TaskDescription.verify|%s'
                              % '+'.join(sorted(ch)),
                              'verified %s, then set %s, verified again: %s '
                              '(same object, fresh object)'
                              % (dict(base, **first), ch, diff), replay)
            ctx.outcome(('td-reverify', repr(first), repr(ch),
                         repr(res[1])[:80]))
    ctx.cover(evaluations=n, td_reverify_cases=n)


def _ref_ro(x):
    '''reference reading of a resource entry: (index, occupation or 1.0)'''
    if isinstance(x, int):
        return (x, 1.0)
    if isinstance(x, dict):          # includes RO
        return (x['index'], x['occupation'])
    i, o = x
    return (i, o)


def _got_ro(x):
    if isinstance(x, int):
        return (x, 1.0)
    if isinstance(x, dict):
        return (x['index'], x['occupation'])
    if isinstance(x, (list, tuple)) and len(x) == 1:
        return (x[0], None)
    return tuple(x)


RES_FORMS = {
    'int' : lambda idx, occ: idx,
    'dict': lambda idx, occ: {'index': idx, 'occupation': occ},
    'RO'  : lambda idx, occ: RO(index=idx, occupation=occ),
    'pair': lambda idx, occ: (idx, occ),
}


def check_slots(ctx):

    n = 0
    core_sets = [[], [0], [3, 1], [0, 1, 5]]
    gpu_sets  = [[], [1], [0, 2]]
    nodes     = [('n0', 0), ('node-b', 7)]

    singles = list()
    for cform, gform, cores, gpus, (nname, nidx), gocc in itertools.product(
            RES_FORMS, RES_FORMS, core_sets, gpu_sets, nodes, (1.0, 0.5)):
        singles.append((cform, gform, cores, gpus, nname, nidx, gocc))

    def build(s):
        cform, gform, cores, gpus, nname, nidx, gocc = s
        g_occ = 1.0 if gform == 'int' else gocc
        return {'cores'     : [RES_FORMS[cform](i, 1.0)   for i in cores],
                'gpus'      : [RES_FORMS[gform](i, g_occ) for i in gpus],
                'lfs'       : 3,
                'mem'       : 4,
                'node_index': nidx,
                'node_name' : nname}

    def ref(slot):
        return (slot['node_name'], slot['node_index'],
                sorted(_ref_ro(c) for c in slot['cores']),
                sorted(_ref_ro(g) for g in slot['gpus']))

    def got(slot, occ=True):
        c = sorted(_got_ro(c) for c in slot['cores'])
        g = sorted(_got_ro(g) for g in slot['gpus'])
        if not occ:
            c = [x[0] for x in c]
            g = [x[0] for x in g]
        return (slot['node_name'], slot['node_index'], c, g)

    # lists of 1..2 slots (pairs drawn from a reduced set to keep it finite)
    lists = [[s] for s in singles]
    red   = [s for s in singles if s[2] and s[4] == 'n0'][::7]
    lists += [[a, b] for a in red for b in red]

    for lst in lists:
        n += 1
        old   = [build(s) for s in lst]
        refs  = [ref(s) for s in old]
        forms = '%s/%s' % (lst[0][0], lst[0][1])
        replay = {'kind': 'slots', 'slots': ru.as_dict(copy.deepcopy(old))}

        # old -> new
        try:
            new = convert_slots_to_new(copy.deepcopy(old))
        except Exception as e:
            ctx.violation('slot-convert-raises|convert_slots_to_new|%s' % forms,
                          '%r for %s' % (e, old), replay)
            continue
        if [got(s) for s in new] != refs:
            ctx.violation('slot-indices|convert_slots_to_new|%s' % forms,
                          '%s -> %s' % (refs, [got(s) for s in new]), replay)
            continue

        # a list which mixes converted and unconverted slots (a task whose
        # slots were partly set by the application) is converted slot by slot
        if len(old) == 2:
            for mixed in ([new[0], copy.deepcopy(old[1])],
                          [copy.deepcopy(old[0]), new[1]]):
                try:
                    res = convert_slots_to_new(mixed)
                    if not all(isinstance(s, Slot) and s.get('version', 0) >= 1
                               for s in res):
                        ctx.violation('slot-not-converted|convert_slots_to_new|'
                                      'mixed:%s' % forms, 'mixed list %s -> %s'
                                      % ([type(x).__name__ for x in mixed],
                                         [type(x).__name__ for x in res]),
                                      replay)
                    elif [got(s) for s in res] != refs:
                        ctx.violation('slot-indices|convert_slots_to_new|'
                                      'mixed:%s' % forms, '%s -> %s' % (refs,
                                      [got(s) for s in res]), replay)
                except Exception as e:
                    ctx.violation('slot-indices|convert_slots_to_new|mixed:%s'
                                  % forms, 'mixed list: %r' % e, replay)

        # new is stable
        again = convert_slots_to_new(new)
        if [got(s) for s in again] != refs or \
           any(a is not b for a, b in zip(again, new)):
            ctx.violation('slot-reconvert|convert_slots_to_new|%s' % forms,
                          'already converted slots changed', replay)

        # new -> wire -> Slot(...)
        for s, r in zip(seams.wire(ru.as_dict(new)), refs):
            if got(Slot(s)) != r:
                ctx.violation('slot-ctor|Slot.__init__|wire',
                              '%s -> %s' % (r, got(Slot(s))), replay)

        # new -> old keeps node and indices
        try:
            back = convert_slots_to_old(new)
            nref = [(r[0], r[1], [c[0] for c in r[2]], [g[0] for g in r[3]])
                    for r in refs]
            if [got(s, occ=False) for s in back] != nref:
                ctx.violation('slot-indices|convert_slots_to_old|%s' % forms,
                              '%s -> %s' % (nref, back), replay)
            # the new form as it arrives in another component: plain dicts
            # (as_dict / msgpack), still marked as new-format slots
            wired = seams.wire(ru.as_dict(new))
            back_w = convert_slots_to_old(copy.deepcopy(wired))
            if [got(s, occ=False) for s in back_w] != nref:
                ctx.violation('slot-indices|convert_slots_to_old|wire:%s'
                              % forms, 'new slots after as_dict/msgpack %s -> '
                              '%s, expected %s' % (wired, back_w, nref),
                              replay)
            # old input to to_old is returned unchanged
            same = convert_slots_to_old(back)
            if same != back:
                ctx.violation('slot-reconvert|convert_slots_to_old|%s' % forms,
                              'old slots changed', replay)
        except Exception as e:
            ctx.violation('slot-convert-raises|convert_slots_to_old|%s' % forms,
                          '%r for %s' % (e, new), replay)

        # Slot() from ints / dicts directly
        if lst[0][0] in ('int', 'dict') and lst[0][1] in ('int', 'dict'):
            for o, r in zip(old, refs):
                try:
                    if got(Slot(copy.deepcopy(o))) != r:
                        ctx.violation('slot-ctor|Slot.__init__|%s' % forms,
                                      '%s -> %s' % (r, got(Slot(o))), replay)
                except Exception as e:
                    ctx.violation('slot-ctor-raises|Slot.__init__|%s' % forms,
                                  '%r for %s' % (e, o), replay)

        ctx.outcome(('slots', repr(refs)))
        if n in (5, 300):
            ctx.sample({'slots': ru.as_dict(old)})

    ctx.cover(evaluations=n, slot_cases=n)


# ------------------------------------------------------------------------------
#
def run(ctx):

    ctx.level = 'exploration'
    ctx.assume('equality of descriptions is equality of as_dict() (TypedDict '
               'defines no __eq__ of its own)',
               'reference tables DEPRECATED/REQUIRED are read off the '
               'TaskDescription documentation')

    check_task_descriptions(ctx)
    check_pilot_descriptions(ctx)
    check_function_tasks(ctx)
    check_function_late_binding(ctx)
    check_slots(ctx)

    ctx.set(rule='complete product: 2^13 subsets of deprecated attributes x '
                 'replacement set/unset (default mode); every mode x required '
                 'attribute present/absent x small subsets; pilot description '
                 'attribute product; 5 function kinds x 4 arg tuples x 5 '
                 'kwargs forms x 2 encoders; slot lists over 4 resource forms '
                 'x core/gpu index sets x nodes.  distinct = distinct '
                 'normalised results', exhaustive=True)
    ctx.set(distinct_nontrivial=len(ctx.outcomes))


def replay(ctx, data):
    r = data['replay']
    print('replaying', r)
    if r['kind'] == 'td':
        td = rp.TaskDescription(r['from_dict'])
        try:
            td.verify()
            print('verify ok:', {k: v for k, v in td.as_dict().items()
                                 if v != rp.TaskDescription._defaults.get(k)})
        except Exception as e:
            print('verify raised', repr(e))
    elif r['kind'] == 'func':
        f = FUNCS[r['func']]
        kw = r['kwargs']
        blob = PythonTask(f, tuple(r['args'])) if kw == '<omitted>' else \
               PythonTask(f, tuple(r['args']), kw)
        g, a, k = PythonTask.get_func_attr(blob)
        print('decoded', g, a, k)
        try:
            print('call ->', _call(g, a, k))
        except Exception as e:
            print('call raised', repr(e))
    elif r['kind'] == 'slots':
        print(convert_slots_to_new(r['slots']))
    print('detail:', data['detail'])
    return 0
