'''
C12 -- Each task is bound to exactly one eligible pilot.

Engine A (BFS by replay): bare RoundRobin / Backfilling tmgr schedulers driven
through their real work_cb()/work(), _control_cb -> control_cb (add_pilots /
remove_pilots) and _base_state_cb (pilot and task state notifications) over
the in-memory net.  A ledger of added/removed pilots and of pushes to
TMGR_STAGING_INPUT_PENDING is the oracle.
'''

import copy
import collections

from rpmc import seams, net, report, clientworld as cw

rp = seams.import_rp()

import radical.utils as ru                                         # noqa: E402
from radical.pilot import states    as rps                         # noqa: E402
from radical.pilot import constants as rpc                         # noqa: E402
from radical.pilot.tmgr.scheduler.round_robin import RoundRobin    # noqa: E402
from radical.pilot.tmgr.scheduler.backfilling import Backfilling   # noqa: E402
from radical.pilot.tmgr.scheduler import backfilling as bfmod      # noqa: E402

PILOT_CORES = 4
HWM         = int(PILOT_CORES * bfmod._HWM / 100)
PVAL        = rps._pilot_state_values


def make_task(uid, pilot, cores):
    td = rp.TaskDescription({'executable': '/bin/true', 'uid': uid,
                             'ranks': cores, 'cores_per_rank': 1,
                             'pilot': pilot})
    td.verify()
    return {'type': 'task', 'tmgr': 'tmgr.0000', 'uid': uid, 'name': '',
            'state': rps.TMGR_SCHEDULING_PENDING, 'origin': 'client',
            'pilot': pilot, 'description': td.as_dict(),
            'resource_sandbox': None, 'session_sandbox': None,
            'pilot_sandbox': None, 'task_sandbox': None,
            'client_sandbox': None, 'endpoint_fs': None}


def make_pilot_doc(pid):
    return {'uid': pid, 'type': 'pilot', 'state': rps.NEW,
            'description': {'cores': PILOT_CORES, 'resource': 'local.localhost'},
            'pilot_sandbox': '/tmp/rp.verif/resource/session.verif/%s' % pid}


class Violation(Exception):
    def __init__(self, key, what):
        self.key, self.what = key, what


class World(object):

    def __init__(self, scn):
        self.scn = scn
        net.install()
        self.net = net.Net().activate()
        sess = cw.ClientSession()
        net.bridges(sess._reg,
                    queues =[rpc.TMGR_SCHEDULING_QUEUE,
                             rpc.TMGR_STAGING_INPUT_QUEUE],
                    pubsubs=[rpc.STATE_PUBSUB, rpc.CONTROL_PUBSUB])
        cls = {'rr': RoundRobin, 'bf': Backfilling}[scn['sched']]
        s = seams.bare(cls, uid='tmgr.0000.scheduling.0')
        s._session      = sess
        s._reg          = sess._reg
        s._cfg          = ru.Config(from_dict={'owner': 'tmgr.0000'})
        s._tmgr         = 'tmgr.0000'
        s._early        = dict()
        s._pilots       = dict()
        s._pilots_lock  = ru.RLock()
        s._tasks        = dict()
        s._tasks_lock   = ru.RLock()
        s._waiting      = dict()
        s._waiting_lock = dict()
        s._configure()
        s.register_publisher(rpc.STATE_PUBSUB)
        s.register_input(rps.TMGR_SCHEDULING_PENDING,
                         rpc.TMGR_SCHEDULING_QUEUE, s.work)
        s.register_output(rps.TMGR_STAGING_INPUT_PENDING,
                          rpc.TMGR_STAGING_INPUT_QUEUE)
        s._client_sandbox = '/tmp/rp.verif/client'
        self.s      = s
        self.intake = ru.zmq.Putter(rpc.TMGR_SCHEDULING_QUEUE)

        self.tasks   = [make_task('t%d' % i, p, c)
                        for i, (p, c) in enumerate(scn['tasks'])]
        self.next    = 0
        # ledger
        self.added   = set()
        self.ever    = set()
        self.removed = set()
        self.pstate  = dict()        # pid -> reference state (max by value)
        self.pushed  = dict()        # uid -> pid
        self.push_n  = collections.Counter()
        self.final   = set()
        self.failed  = set()
        self.submitted = list()
        self.used    = collections.Counter()   # backfilling reference load
        self.n_q     = 0
        self.n_p     = 0
        self.trace   = list()
        self.raised  = list()

    # ----------------------------------------------------------------------
    def enabled(self):
        ev = list()
        left = len(self.tasks) - self.next
        if left >= 1: ev.append(('submit', 1))
        if left >= 2: ev.append(('submit', 2))
        for pid in ('p1', 'p2'):
            if pid in self.added:
                ev.append(('remove', pid))
            else:
                ev.append(('add', pid))
            if pid in self.ever:
                for st in (rps.PMGR_LAUNCHING, rps.PMGR_ACTIVE, rps.DONE):
                    if st != self.pstate.get(pid):
                        ev.append(('pstate', pid, st))
            elif self.scn.get('early_pstate') and pid not in self.pstate:
                # the pilot manager publishes pilot states from submission on:
                # an update may reach the scheduler before `add_pilots` does
                ev.append(('pstate', pid, rps.PMGR_LAUNCHING))
        if self.scn.get('pstate_pairs') and {'p1', 'p2'} <= self.ever:
            # one state message naming both pilots, either order
            for a, b in (('p1', 'p2'), ('p2', 'p1')):
                for sa in (rps.PMGR_ACTIVE, rps.DONE):
                    for sb in (rps.PMGR_ACTIVE, rps.DONE):
                        if sa != self.pstate.get(a) and \
                           sb != self.pstate.get(b):
                            ev.append(('pstate2', a, sa, b, sb))
        if not self.added and self.scn.get('add_pairs'):
            # one add_pilots command naming both pilots, either order
            ev.append(('add2', 'p1', 'p2'))
            ev.append(('add2', 'p2', 'p1'))
        for uid in sorted(self.pushed):
            if uid not in self.final:
                ev.append(('tfinal', uid))
        if self.scn.get('pairs_final'):
            # one state message which names the same task more than once (its
            # full update from the agent's output stager and its final state)
            for uid in sorted(self.pushed):
                if uid not in self.final:
                    ev.append(('tfinal_dup', uid))
        if not self.scn.get('pairs_final'):
            return ev
        live = [u for u in sorted(self.pushed) if u not in self.final]
        if len(live) >= 2:
            ev.append(('tfinal2', live[0], live[1]))
            ev.append(('tfinal2', live[1], live[0]))
        return ev

    def handler(self, ev):
        '''ledger update now, the real handler call as a closure (for races)'''
        self.trace.append(ev)
        real_observe = self.observe
        self.observe = lambda *a: None
        calls = list()
        s     = self.s
        # record instead of call: wrap the entry points apply() uses
        names = ['work_cb', '_control_cb', '_base_state_cb']
        saved = {n: getattr(s, n) for n in names}
        for n in names:
            setattr(s, n, (lambda n_: lambda *a: calls.append((n_, a)))(n))
        try:
            self.trace.pop()
            self.apply(ev)
        finally:
            for n in names:
                delattr(s, n)
            self.observe = real_observe
        def run():
            for n, a in calls:
                getattr(s, n)(*a)
        return run

    def observe_race(self, ev_a, ev_b):
        '''end-state clauses which hold for either order of two events'''
        b      = self.before
        sched  = self.scn['sched']
        ql     = self.net.q_log
        site   = '%s+%s' % (ev_a[0], ev_b[0])
        added_any = b['added'] | self.added
        while self.n_q < len(ql):
            qname, things = ql[self.n_q]
            self.n_q += 1
            if qname != rpc.TMGR_STAGING_INPUT_QUEUE:
                continue
            for t in things:
                uid, pid = t['uid'], t.get('pilot')
                self.push_n[uid] += 1
                if self.push_n[uid] > 1:
                    raise Violation('race-pushed-twice|%s|-' % site,
                                    '%s forwarded %d times'
                                    % (uid, self.push_n[uid]))
                named = self.task_by_uid(uid)['pilot']
                if named:
                    if pid != named or named not in self.ever:
                        raise Violation('race-named-pilot|%s|-' % site,
                                        '%s names %s, bound to %s (ever %s)'
                                        % (uid, named, pid, sorted(self.ever)))
                elif pid not in added_any:
                    raise Violation('race-pilot-not-added|%s|-' % site,
                                    '%s bound to %s; added before %s, after %s'
                                    % (uid, pid, sorted(b['added']),
                                       sorted(self.added)))
                elif sched == 'bf' and rps.PMGR_ACTIVE not in (
                        b['pstate'].get(pid), self.pstate.get(pid)):
                    raise Violation('race-bf-ineligible|%s|-' % site,
                                    '%s assigned to %s (state %s -> %s)'
                                    % (uid, pid, b['pstate'].get(pid),
                                       self.pstate.get(pid)))
                td = t['description']
                self.used[pid] += td['ranks'] * td['cores_per_rank']
                self.pushed[uid] = pid
        pl = self.net.pub_log
        while self.n_p < len(pl):
            ch, _, msg = pl[self.n_p]
            self.n_p += 1
            if ch == rpc.STATE_PUBSUB and msg.get('cmd') == 'update':
                for t in msg['arg']:
                    if t['state'] == rps.FAILED:
                        self.failed.add(t['uid'])

        def eligible():
            if sched == 'rr':
                return sorted(self.added)
            return [p for p in sorted(self.added)
                    if self.pstate.get(p) == rps.PMGR_ACTIVE and
                       self.used[p] < HWM]
        for uid in self.submitted:
            t = self.task_by_uid(uid)
            if uid in self.pushed:
                continue
            if uid in self.failed:
                # failed with an eligible pilot both before and after?
                if not t['pilot'] and eligible() and \
                   (b['added'] if sched == 'rr' else
                    [p for p in b['added']
                     if b['pstate'].get(p) == rps.PMGR_ACTIVE]):
                    raise Violation('race-failed-with-eligible-pilot|%s|-'
                                    % site, '%s FAILED, eligible %s'
                                    % (uid, eligible()))
                continue
            if t['pilot']:
                if t['pilot'] in self.added:
                    raise Violation('race-named-waits|%s|-' % site,
                                    '%s waits although %s is added'
                                    % (uid, t['pilot']))
            elif eligible():
                raise Violation('race-waits-with-eligible-pilot|%s|-' % site,
                                '%s waits, eligible pilots %s; exceptions %s'
                                % (uid, eligible(), self.raised))
        if sched == 'bf':
            for pid in self.ever:
                mine = [u for u, p in self.pushed.items() if p == pid
                        and not self.task_by_uid(u)['pilot']]
                if mine and all(u in self.final for u in mine):
                    info = self.s._pilots[pid]['info']
                    if info.get('used', 0) != 0:
                        raise Violation('race-bf-used-not-zero|%s|-' % site,
                                        'pilot %s: all tasks final, used=%s'
                                        % (pid, info.get('used')))

    def apply(self, ev):
        self.trace.append(ev)
        kind = ev[0]
        s    = self.s
        batch_before = dict(self.pushed)
        try:
            if kind == 'submit':
                bulk = self.tasks[self.next:self.next + ev[1]]
                self.next += ev[1]
                self.submitted += [t['uid'] for t in bulk]
                self.intake.put(copy.deepcopy(bulk))
                s.work_cb()
            elif kind == 'add':
                self.added.add(ev[1]); self.ever.add(ev[1])
                self.removed.discard(ev[1])
                self.pstate.setdefault(ev[1], rps.NEW)
                doc = make_pilot_doc(ev[1])
                doc['state'] = self.pstate[ev[1]]
                s._control_cb(rpc.CONTROL_PUBSUB, seams.wire(
                    {'cmd': 'add_pilots',
                     'arg': {'pilots': [doc], 'tmgr': 'tmgr.0000'}}))
            elif kind == 'add2':
                docs = list()
                for pid in ev[1:]:
                    self.added.add(pid); self.ever.add(pid)
                    self.removed.discard(pid)
                    self.pstate.setdefault(pid, rps.NEW)
                    doc = make_pilot_doc(pid)
                    doc['state'] = self.pstate[pid]
                    docs.append(doc)
                s._control_cb(rpc.CONTROL_PUBSUB, seams.wire(
                    {'cmd': 'add_pilots',
                     'arg': {'pilots': docs, 'tmgr': 'tmgr.0000'}}))
            elif kind == 'remove':
                self.added.discard(ev[1]); self.removed.add(ev[1])
                s._control_cb(rpc.CONTROL_PUBSUB, seams.wire(
                    {'cmd': 'remove_pilots',
                     'arg': {'pids': [ev[1]], 'tmgr': 'tmgr.0000'}}))
            elif kind == 'pstate':
                cur = self.pstate.get(ev[1], rps.NEW)
                if cur not in rps.FINAL and PVAL[ev[2]] > PVAL[cur]:
                    self.pstate[ev[1]] = ev[2]
                s._base_state_cb(rpc.STATE_PUBSUB, seams.wire(
                    {'cmd': 'update',
                     'arg': [{'uid': ev[1], 'type': 'pilot', 'state': ev[2]}]}))
            elif kind == 'pstate2':
                arg = list()
                for pid, st in (ev[1:3], ev[3:5]):
                    cur = self.pstate.get(pid, rps.NEW)
                    if cur not in rps.FINAL and PVAL[st] > PVAL[cur]:
                        self.pstate[pid] = st
                    arg.append({'uid': pid, 'type': 'pilot', 'state': st})
                s._base_state_cb(rpc.STATE_PUBSUB, seams.wire(
                    {'cmd': 'update', 'arg': arg}))
            elif kind == 'tfinal_dup':
                uid = ev[1]
                self.final.add(uid)
                arg = list()
                for st in (rps.TMGR_STAGING_OUTPUT_PENDING,
                           rps.TMGR_STAGING_OUTPUT, rps.DONE):
                    t = copy.deepcopy(self.task_by_uid(uid))
                    t['state'] = st
                    t['pilot'] = self.pushed[uid]
                    arg.append(t)
                td = arg[0]['description']
                self.used[self.pushed[uid]] -= td['ranks'] * \
                                               td['cores_per_rank']
                s._base_state_cb(rpc.STATE_PUBSUB, seams.wire(
                    {'cmd': 'update', 'arg': arg}))
            elif kind in ('tfinal', 'tfinal2'):
                arg = list()
                for uid in ev[1:]:
                    self.final.add(uid)
                    t = copy.deepcopy(self.task_by_uid(uid))
                    t['state'] = rps.DONE
                    t['pilot'] = self.pushed[uid]
                    arg.append(t)
                    td = t['description']
                    self.used[self.pushed[uid]] -= td['ranks'] * \
                                                   td['cores_per_rank']
                s._base_state_cb(rpc.STATE_PUBSUB, seams.wire(
                    {'cmd': 'update', 'arg': arg}))
        except Exception as e:
            # the subscriber thread logs the exception and carries on; what
            # the handler did not get done shows in the ledger clauses below
            self.raised.append((ev, repr(e)))
        self.observe(ev, batch_before)

    def site(self, kind):
        return {'submit': 'work', 'add': 'control_cb', 'remove': 'control_cb',
                'add2': 'control_cb',
                'pstate': '_base_state_cb', 'pstate2': '_base_state_cb',
                'tfinal': 'update_tasks', 'tfinal_dup': 'update_tasks',
                'tfinal2': 'update_tasks'}[kind]

    def task_by_uid(self, uid):
        return [t for t in self.tasks if t['uid'] == uid][0]

    # ----------------------------------------------------------------------
    def observe(self, ev, before):
        ql = self.net.q_log
        new = list()
        while self.n_q < len(ql):
            qname, things = ql[self.n_q]
            self.n_q += 1
            if qname != rpc.TMGR_STAGING_INPUT_QUEUE:
                continue
            for t in things:
                new.append(t)
        sched = self.scn['sched']
        per_pilot = collections.Counter()
        for t in new:
            uid, pid = t['uid'], t.get('pilot')
            self.push_n[uid] += 1
            if self.push_n[uid] > 1:
                raise Violation('pushed-twice|%s|%s' % (self.site(ev[0]), ev[0]),
                                '%s forwarded %d times; events %s'
                                % (uid, self.push_n[uid], self.trace))
            named = self.task_by_uid(uid)['pilot']
            if named:
                if pid != named:
                    raise Violation('named-pilot-ignored|_assign_pilot|-',
                                    '%s names %s, bound to %s'
                                    % (uid, named, pid))
                if named not in self.ever:
                    raise Violation('named-before-added|work|-',
                                    '%s forwarded to %s which was never added'
                                    % (uid, named))
            else:
                if pid not in self.added:
                    raise Violation('pilot-not-added|%s|%s'
                                    % (self.site(ev[0]),
                                       'removed' if pid in self.removed
                                       else 'unknown'),
                                    '%s bound to %s; added=%s removed=%s; %s'
                                    % (uid, pid, sorted(self.added),
                                       sorted(self.removed), self.trace))
                per_pilot[pid] += 1
            base = '/tmp/rp.verif/resource/session.verif/%s' % pid
            for k in ('client_sandbox', 'endpoint_fs', 'resource_sandbox',
                      'session_sandbox', 'pilot_sandbox', 'task_sandbox'):
                if not t.get(k):
                    raise Violation('sandbox-missing|_assign_pilot|%s' % k,
                                    '%s has no %s' % (uid, k))
            if base not in t['pilot_sandbox'] or \
               (base + '/' + uid) not in t['task_sandbox']:
                raise Violation('sandbox-wrong|_assign_pilot|-',
                                '%s sandboxes %s %s not under pilot %s'
                                % (uid, t['pilot_sandbox'], t['task_sandbox'],
                                   pid))
            if sched == 'bf' and not named:
                if self.pstate.get(pid) != rps.PMGR_ACTIVE:
                    raise Violation('bf-ineligible-state|_schedule_tasks|%s'
                                    % self.pstate.get(pid),
                                    '%s assigned to %s in state %s'
                                    % (uid, pid, self.pstate.get(pid)))
                if self.used[pid] >= HWM:
                    raise Violation('bf-over-hwm|_schedule_tasks|-',
                                    '%s assigned to %s with used=%d hwm=%d'
                                    % (uid, pid, self.used[pid], HWM))
            td = t['description']
            self.used[pid] += td['ranks'] * td['cores_per_rank']
            self.pushed[uid] = pid

        # failed by the scheduler?
        pl = self.net.pub_log
        while self.n_p < len(pl):
            ch, _, msg = pl[self.n_p]
            self.n_p += 1
            if ch == rpc.STATE_PUBSUB and msg.get('cmd') == 'update':
                for t in msg['arg']:
                    if t['state'] == rps.FAILED:
                        self.failed.add(t['uid'])

        # nobody is failed by the scheduler while an eligible pilot exists; a
        # task which names a pilot waits for that pilot, it is not failed
        # because the pilot is not there yet
        for uid in sorted(self.failed):
            t = self.task_by_uid(uid)
            if t['pilot'] and uid not in self.pushed and \
               t['pilot'] in ('p1', 'p2') and t['pilot'] not in self.removed:
                raise Violation('named-failed|%s|%s' % (self.site(ev[0]),
                                                        ev[0]),
                                '%s names %s and was FAILED by the scheduler '
                                '(pilot added: %s); events %s; exceptions %s'
                                % (uid, t['pilot'], t['pilot'] in self.added,
                                   self.trace, self.raised))
            if t['pilot'] or uid in self.pushed:
                continue
            if sched == 'rr':
                elig = sorted(self.added)
            else:
                elig = [p for p in sorted(self.added)
                        if self.pstate.get(p) == rps.PMGR_ACTIVE]
            if elig:
                raise Violation('failed-with-eligible-pilot|%s|%s'
                                % (self.site(ev[0]), ev[0]),
                                '%s was FAILED by the scheduler, eligible '
                                'pilots %s; events %s'
                                % (uid, elig, self.trace))

        # round robin: one batch, unchanged pilot set
        if sched == 'rr' and per_pilot and len(self.added) > 1:
            counts = [per_pilot.get(p, 0) for p in self.added]
            if max(counts) - min(counts) > 1:
                raise Violation('rr-imbalance|RoundRobin._schedule_tasks|%s'
                                % ev[0],
                                'batch spread %s over %s'
                                % (dict(per_pilot), sorted(self.added)))

        # nobody waits while an eligible pilot exists
        for uid in self.submitted:
            if uid in self.pushed or uid in self.failed:
                continue
            t = self.task_by_uid(uid)
            if t['pilot']:
                if t['pilot'] in self.added:
                    raise Violation('named-waits|work|-',
                                    '%s waits although its pilot %s is added'
                                    % (uid, t['pilot']))
                continue
            if sched == 'rr':
                elig = sorted(self.added)
            else:
                elig = [p for p in sorted(self.added)
                        if self.pstate.get(p) == rps.PMGR_ACTIVE and
                           self.used[p] < HWM]
            if elig:
                raise Violation('waits-with-eligible-pilot|%s|%s'
                                % (self.site(ev[0]), ev[0]),
                                '%s waits, eligible pilots %s; events %s'
                                % (uid, elig, self.trace))

        # backfilling: usage figure returns to zero
        if sched == 'bf':
            for pid in self.ever:
                mine = [u for u, p in self.pushed.items() if p == pid
                        and not self.task_by_uid(u)['pilot']]
                if mine and all(u in self.final for u in mine):
                    info = self.s._pilots[pid]['info']
                    if info.get('used', 0) != 0:
                        raise Violation('bf-used-not-zero|update_tasks|%s'
                                        % ('after-exception' if self.raised
                                           else '-'),
                                        'pilot %s: all tasks final, used=%s; '
                                        'events %s; exceptions %s'
                                        % (pid, info.get('used'), self.trace,
                                           self.raised))

    # ----------------------------------------------------------------------
    def canon(self):
        s = self.s
        pil = tuple(sorted((pid, p['role'], p['state'],
                            tuple(sorted((k, repr(v))
                                         for k, v in p['info'].items())))
                           for pid, p in s._pilots.items()))
        wp = s._wait_pool
        wp = tuple(wp.keys()) if isinstance(wp, dict) \
             else tuple(t['uid'] for t in wp)
        early = tuple(sorted((k, tuple(t['uid'] for t in v))
                             for k, v in s._early.items()))
        return (pil, tuple(s._pids), s._idx, wp, early, self.next,
                tuple(sorted(self.added)), tuple(sorted(self.removed)),
                tuple(sorted(self.pstate.items())),
                tuple(sorted(self.pushed.items())),
                tuple(sorted(self.final)), tuple(sorted(self.failed)),
                len(self.raised) > 0)


def build(scn, hist):
    w = World(scn)
    for ev in hist:
        w.apply(ev)
    return w


# ------------------------------------------------------------------------------
# two handlers at once (engine B): the component's worker thread runs work()
# while a subscriber thread handles a control or state message.  After a
# sequential prefix the two events of a pair run as controlled threads; every
# schedule within the delay bound is executed and the end state is judged by
# the clauses which do not depend on the order of the two (a task is forwarded
# at most once, to its named pilot or to a pilot which was added at some point
# of the race and not removed before it; nobody is left waiting or failed
# while an eligible pilot exists; backfilling's usage returns to zero).
#
def race_pairs():
    sub1, sub2 = ('submit', 1), ('submit', 2)
    out = list()
    for prefix in ((), (('add', 'p1'),), (('add', 'p1'), ('add', 'p2')),
                   (('add', 'p1'), ('pstate', 'p1', rps.PMGR_ACTIVE)),
                   (('add', 'p1'), ('add', 'p2'),
                    ('pstate', 'p1', rps.PMGR_ACTIVE),
                    ('pstate', 'p2', rps.PMGR_ACTIVE)),
                   (('submit', 1),), (('submit', 2),),
                   (('submit', 1), ('add', 'p1')),
                   (('add', 'p1'), ('pstate', 'p1', rps.PMGR_ACTIVE),
                    ('submit', 2))):
        for a in (sub1, sub2):
            for b in (('add', 'p1'), ('add', 'p2'), ('remove', 'p1'),
                      ('pstate', 'p1', rps.PMGR_ACTIVE),
                      ('pstate', 'p1', rps.DONE),
                      ('add2', 'p1', 'p2'), ('tfinal', 't0')):
                out.append((prefix, a, b))
        # two subscriber threads
        for a, b in ((('add', 'p2'), ('pstate', 'p1', rps.PMGR_ACTIVE)),
                     (('add', 'p2'), ('pstate', 'p1', rps.DONE)),
                     (('remove', 'p1'), ('pstate', 'p1', rps.PMGR_ACTIVE)),
                     (('add', 'p2'), ('tfinal', 't0'))):
            # (two state notifications never race: one subscriber thread)
            out.append((prefix, a, b))
    return out


def _race_job(args):
    from rpmc import clientrace, sched as rs
    from radical.pilot.tmgr.scheduler.base import TMGRSchedulingComponent
    scn_name, prefix, ev_a, ev_b, bound = args
    scn  = [x for x in scenarios(True) if x['name'] == scn_name][0]
    part = report.Part()
    cls  = {'rr': RoundRobin, 'bf': Backfilling}[scn['sched']]

    # is the pair enabled after the prefix (API validity), sequentially fine?
    try:
        w0 = build(scn, prefix)
        if ev_a not in w0.enabled() or ev_b not in w0.enabled():
            return part.dump()
        if ev_a[0] == 'submit' and ev_b[0] == 'submit':
            return part.dump()
    except Violation:
        return part.dump()

    def make_world(s):
        w = build(scn, prefix)
        clientrace.control_locks(s, w.s, ['_pilots_lock', '_tasks_lock',
                                          '_wait_lock'])
        w.before = dict(added=set(w.added), removed=set(w.removed),
                        pstate=dict(w.pstate), ever=set(w.ever))
        w.bodies = [(ev[0] + str(i), w.handler(ev))
                    for i, ev in enumerate((ev_a, ev_b))]
        return w

    replay = {'race': [scn_name, [list(e) for e in prefix], list(ev_a),
                       list(ev_b)]}

    def judge(w, s, res):
        rp_ = dict(replay, schedule=list(s.choices))
        for t in s.threads:
            if t.exc is not None:
                w.raised.append((t.name, repr(t.exc)))
        try:
            if res != 'done':
                raise Violation('race-%s|%s+%s|-' % (res, ev_a[0], ev_b[0]),
                                'threads did not finish: %s' % res)
            w.observe_race(ev_a, ev_b)
        except Violation as v:
            part.violation('%s:%s' % (v.key, scn['sched']),
                           {'what': v.what, 'scenario': scn['name'],
                            'prefix': list(prefix), 'pair': [ev_a, ev_b],
                            'raised': w.raised}, rp_)
        part.outcome((scn['sched'], 'race', ev_a, ev_b,
                      tuple(sorted(w.pushed.items())),
                      tuple(sorted(w.failed))))

    traced = [cls.work, cls._schedule_tasks if hasattr(cls, '_schedule_tasks')
              else cls.work, cls.add_pilots, cls.remove_pilots,
              cls.update_pilots, cls.update_tasks,
              TMGRSchedulingComponent._base_control_cb
              if hasattr(TMGRSchedulingComponent, '_base_control_cb')
              else TMGRSchedulingComponent._control_cb,
              TMGRSchedulingComponent._base_state_cb,
              TMGRSchedulingComponent._update_pilot_states,
              TMGRSchedulingComponent.work
              if 'work' in TMGRSchedulingComponent.__dict__ else cls.work]
    traced = [f for f in traced if hasattr(f, '__code__')]
    n, capped = clientrace.explore(make_world, lambda w: w.bodies, traced,
                                   bound, judge, max_exec=20000)
    if capped:
        part.cap('race %s: %d schedules left' % (replay, capped))
    part.cover(executions=n, race_pairs=1, traces_validated_against_impl=n)
    return part.dump()


def bfs(scn, depth, part):
    seen  = dict()
    w0    = World(scn)
    seen[w0.canon()] = ()
    front = collections.deque([()])
    n_trans = 0
    while front:
        hist = front.popleft()
        if len(hist) >= depth:
            continue
        w = build(scn, hist)
        for ev in w.enabled():
            n_trans += 1
            try:
                w2 = build(scn, hist)
                w2.apply(ev)
            except Violation as v:
                part.violation('%s:%s' % (v.key, scn['sched']),
                               {'what': v.what, 'scenario': scn['name'],
                                'history': list(hist) + [ev]},
                               {'scenario': scn['name'],
                                'history': [list(e) for e in hist] + [list(ev)]})
                continue
            part.outcome((scn['sched'], ev[0],
                          tuple(sorted(w2.pushed.items())),
                          tuple(sorted(w2.added))))
            k = w2.canon()
            if k not in seen:
                seen[k] = hist + (ev,)
                front.append(hist + (ev,))
    return len(seen), n_trans


TASKSETS = {
    'u1u1u1'   : [('', 1), ('', 1), ('', 1)],
    'u1u4u8'   : [('', 1), ('', 4), ('', 8)],
    'u4u4u4u1' : [('', 4), ('', 4), ('', 4), ('', 1)],
    'n1u1n1'   : [('p1', 1), ('', 1), ('p1', 1)],
    'n3u1'     : [('p3', 1), ('', 1)],
    'n2n2u1'   : [('p2', 1), ('p2', 4), ('', 1)],
    'u8u1u1'   : [('', 8), ('', 1), ('', 1)],
}


def scenarios(quick):
    out = list()
    for sched in ('rr', 'bf'):
        for name, tasks in TASKSETS.items():
            out.append({'name': '%s/%s' % (sched, name), 'sched': sched,
                        'tasks': tasks,
                        'add_pairs': True,
                        'pstate_pairs': name in ('u1u1u1', 'n1u1n1'),
                        'early_pstate': name in ('n1u1n1', 'n2n2u1'),
                        'pairs_final': sched == 'bf' and name in
                                       ('u1u1u1', 'u4u4u4u1', 'n1u1n1')})
    return out


_scns = None
_depth = None


def _job(i):
    part = report.Part()
    scn  = _scns[i]
    st, tr = bfs(scn, _depth, part)
    part.cover(states=st, transitions=tr, traces_validated_against_impl=tr,
               scenarios=1)
    part.sample({'scenario': scn['name'], 'states': st, 'transitions': tr})
    return part.dump()


def run(ctx):
    global _scns, _depth
    ctx.level = 'model_checking'
    _scns  = scenarios(ctx.quick)
    _depth = 6 if ctx.quick else 8
    for res in seams.pmap(_job, range(len(_scns)), ctx.workers):
        ctx.merge(res)
    bound = 1 if ctx.quick else 2
    names = ['rr/u1u1u1', 'bf/u1u1u1', 'rr/n1u1n1', 'bf/n1u1n1']
    if not ctx.quick:
        names += ['rr/n2n2u1', 'bf/n2n2u1']
    jobs  = [(n, p, a, b, bound) for n in names for p, a, b in race_pairs()]
    for res in seams.pmap(_race_job, jobs, ctx.workers):
        ctx.merge(res)
    ctx.set(race_delay_bound=bound)
    ctx.set(depth=_depth,
            rule='BFS over event histories (submit 1|2 tasks, add/remove '
                 'p1|p2, add both pilots in one command, pilot state LAUNCHING|ACTIVE|DONE, task final) to '
                 'depth %d for 7 task sets x {RoundRobin, Backfilling}; states '
                 'merged on scheduler state + ledger' % _depth,
            exhaustive=True)
    ctx.set(distinct_nontrivial=len(ctx.outcomes))
    ctx.assume('2 pilots of %d cores (HWM %d cores), up to 4 tasks'
               % (PILOT_CORES, HWM),
               'tmgr API validity: a pilot is added only when not currently '
               'added, removed only when added')


def replay(ctx, data):
    r = data['replay']
    scn = [s for s in scenarios(True) if s['name'] == r['scenario']][0]
    w = World(scn)
    try:
        for ev in r['history']:
            print('event', ev)
            w.apply(tuple(ev))
            print('   pushed', dict(w.pushed), 'added', sorted(w.added))
        print('no violation')
        return 0
    except Violation as v:
        print('VIOLATED', v.key, v.what)
        return 1
