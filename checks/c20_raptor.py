'''
C20 -- Raptor workers and masters account for every request.

Three parts (DESIGN.md, section C20), each in its own helper module:

 (a) checks.c20_alloc    worker allotment: the real DefaultWorker request
                         callback, allocator, result watcher and per-request
                         processes under the controlled thread scheduler
                         (engine B, delay-bounded exploration of schedules)
 (b) checks.c20_master   master accounting (routing by mode, exit code ->
                         target state, exactly-once hand-on, `_run_task`) and
                         the agent scheduler's raptor forwarding, exhaustive
                         over bounded request / event sequences
 (c) checks.c20_dispatch the per-mode dispatchers: report tuple, stdio
                         capture, environment and stream restoration, over all
                         sequences of two requests

Violation keys are `clause|site|trigger`; see the helper modules for the
clauses.  Replay files carry `part` and are dispatched to the helper.
'''

import os
import time

from rpmc import seams

rp = seams.import_rp()

from checks import c20_alloc    as part_a                          # noqa: E402
from checks import c20_master   as part_b                          # noqa: E402
from checks import c20_dispatch as part_c                          # noqa: E402


def run_mpi_results(ctx):
    '''
    the MPI worker's result pusher collects one result per rank and reports
    the request once all are there: every vector of rank exit codes (success,
    failure, killed by a signal) in every arrival order - the request is
    reported exactly once, after the last rank, as failed iff a rank failed,
    with the per-rank outputs in arrival order
    '''
    import itertools
    from rpmc import seams
    seams.import_rp()
    from radical.pilot.raptor import worker_mpi as wm
    codes_alpha = (0, 1, 2, -9, -15)
    n = 0
    for ranks in (1, 2, 3):
        for codes in itertools.product(codes_alpha, repeat=ranks):
            for order in itertools.permutations(range(ranks)):
                n += 1
                p = wm._ResultPusher.__new__(wm._ResultPusher)
                p._cache = dict()
                dones, last = list(), None
                for k in order:
                    t = {'uid': 'req.0', 'description': {'ranks': ranks},
                         'rank': k, 'ranks': ranks, 'stdout': 'out%d' % k,
                         'stderr': 'err%d' % k, 'return_value': k,
                         'exit_code': codes[k]}
                    dones.append(bool(p._check_ranks(t)))
                    last = t
                replay = {'part': 'mpi-results', 'codes': list(codes),
                          'order': list(order)}
                shape  = 'ranks=%d:%s' % (ranks, '+'.join(sorted(set(
                         'ok' if c == 0 else 'fail' if c > 0 else 'signal'
                         for c in codes))))
                if dones != [False] * (ranks - 1) + [True]:
                    ctx.violation('mpi-result-once|_ResultPusher._check_ranks|'
                                  + shape, 'rank results %s in order %s: '
                                  'reported complete at %s' % (codes, order,
                                                               dones), replay)
                    continue
                ok = all(c == 0 for c in codes)
                if (last['exit_code'] == 0) != ok:
                    ctx.violation('mpi-exit-code|_ResultPusher._check_ranks|'
                                  + shape, 'rank exit codes %s (arrival order '
                                  '%s): the request is reported with exit '
                                  'code %s' % (codes, order,
                                               last['exit_code']), replay)
                if last['stdout'] != ['out%d' % k for k in order] or \
                   last['return_value'] != list(order):
                    ctx.violation('mpi-outputs|_ResultPusher._check_ranks|'
                                  + shape, 'per-rank outputs %s / %s for '
                                  'arrival order %s' % (last['stdout'],
                                  last['return_value'], order), replay)
                ctx.outcome(('mpi', ranks, ok, last['exit_code'] == 0))
    ctx.cover(evaluations=n, mpi_result_vectors=n)


def run(ctx):

    ctx.level = 'model_checking'
    run_mpi_results(ctx)
    from checks import c20_mpi
    c20_mpi.run(ctx)

    # C20_PARTS selects parts while developing / trying mutants (default: all)
    parts = os.environ.get('C20_PARTS', 'abc')
    if parts != 'abc':
        ctx.cap('only parts %r were run (C20_PARTS)' % parts)

    t0 = time.time()
    n_c = part_c.run(ctx) if 'c' in parts else 0
    t1 = time.time()
    n_b = part_b.run(ctx) if 'b' in parts else 0
    t2 = time.time()
    n_a = part_a.run(ctx) if 'a' in parts else 0
    t3 = time.time()

    ctx.set(wall_part_a_s=round(t3 - t2, 1), wall_part_b_s=round(t2 - t1, 1),
            wall_part_c_s=round(t1 - t0, 1))
    ctx.set(exhaustive=True,
            rule='(a) every schedule of the worker threads and per-request '
                 'processes that deviates from the default scheduler at most '
                 '`bound` times, for each of %d scenarios (worker size x '
                 'request demands x payload outcome ok / failure / raise / '
                 'hang+timeout / finish near timeout / process dies / fork '
                 'fails x 1-3 requests, one or two request streams); states = '
                 'scheduling steps, traces = complete executions; the '
                 'deviation bound per scenario family is in '
                 'deviation_bounds_by_family.  (b) %d '
                 'cases: every bulk of <= 3 requests over all modes and entry '
                 'points, every result bulk of <= 3 over the exit-code '
                 'alphabet, every return order and bulk split of <= 3 round '
                 'trips incl. _run_task, every scheduler event sequence '
                 '(arrivals, register, unregister, cancel, loop pass) up to '
                 'the depth bound.  (c) %d sequences: every single request '
                 'and every pair from the (mode form x payload) alphabet of '
                 '%d requests.  distinct = distinct (scenario, observation) '
                 'classes' % (n_a, n_b, n_c, len(part_c.specs())))
    ctx.set(distinct_nontrivial=len(ctx.outcomes))
    ctx.assume(
        'line-level (not byte-code-level) interleavings of _request_cb, '
        '_alloc, _dealloc, _result_watcher, _result_cb; fake processes are '
        'preempted at synchronisation operations (their private steps '
        'commute with everything else); one-request scenarios also at every '
        'line of _dispatch / _worker_proc',
        'mp.Process is a controlled thread running the real target on a deep '
        'copy of its arguments with its own pid / environment / cwd; '
        'terminate() takes effect at the next scheduling point of the target; '
        'a process is alive until its target has returned',
        'polling passes which cannot observe a change are skipped (result '
        'queue empty, occupancy unchanged)',
        'virtual time moves only while a join(timeout) is pending',
        'the scheduler control callback and _schedule_incoming exclude each '
        'other on the raptor bookkeeping (_raptor_lock), so their '
        'interleavings are handler sequences',
        'the environment of the worker process is read through libc environ '
        'and confirmed with a child process')


def replay(ctx, data):
    r = data['replay']
    p = r.get('part', '')
    print('key   :', data.get('key'))
    if p == 'a':
        return part_a.replay(ctx, r)
    if p.startswith('b'):
        return part_b.replay(ctx, r)
    if p == 'c':
        return part_c.replay(ctx, r)
    if p == 'mpi-alloc':
        from checks import c20_mpi
        return c20_mpi.replay(ctx, r)
    if p == 'mpi-results':
        print('rank exit codes', r['codes'], 'arrival order', r['order'])
        return 0
    print('unknown replay part %r' % p)
    return 2
