'''
C14 -- Pilot states move forward and end for the right reason.

(a) client side, engine A: bare PilotManager + real Pilot facade, driven by
    the real _state_sub_cb -> _update_pilot -> Pilot._update; BFS over batches
    of notifications until the state graph closes; the same notifications feed
    the tmgr scheduler's _update_pilot_states.
(b) agent side, engine C: bare Agent_0, all sequences (length <= 3) of
    terminating causes, then the real finalize(); the state written to
    killme.signal and published must name the first cause; the last stanza of
    bootstrap_0.sh is run by bash on the produced file.
'''

import os
import copy
import shutil
import re
import itertools
import subprocess
import collections

from rpmc import seams, net, clientworld as cw

rp = seams.import_rp()

import radical.utils as ru                                         # noqa: E402
from radical.pilot import states    as rps                         # noqa: E402
from radical.pilot import constants as rpc                         # noqa: E402
from radical.pilot.agent import agent_0 as a0mod                   # noqa: E402

PVAL   = rps._pilot_state_values
PORDER = [rps.NEW, rps.PMGR_LAUNCHING_PENDING, rps.PMGR_LAUNCHING,
          rps.PMGR_ACTIVE_PENDING, rps.PMGR_ACTIVE]
PSTATES = PORDER + [rps.DONE, rps.FAILED, rps.CANCELED]
FINAL  = rps.FINAL


# ------------------------------------------------------------------------------
# (a) client side
#
class PWorld(object):

    def __init__(self):
        net.install()
        self.net = net.Net().activate()
        self.pm  = cw.make_pmgr()
        self.p1  = cw.make_pilot(self.pm, 'p1', rps.NEW)
        self.log_pm = list()      # (uid, announced state, Pilot.state)
        self.log_p  = list()      # Pilot.state seen by pilot-level cb
        self.pm.register_callback(self._cb_pm)
        self.p1.register_callback(self._cb_p)

    def _cb_pm(self, pilot, state, *a):
        self.log_pm.append((pilot.uid, state, pilot.state))

    def _cb_p(self, pilots, *a):
        for p in ru.as_list(pilots):
            self.log_p.append(p.state)

    def apply(self, batch):
        arg = [{'uid': pid, 'type': 'pilot', 'state': s} for pid, s in batch]
        msg = seams.wire({'cmd': 'update', 'arg': arg})
        try:
            self.pm._state_sub_cb(rpc.STATE_PUBSUB, msg)
            return None
        except Exception as e:
            return e


def pbuild(hist):
    w = PWorld()
    for b in hist:
        w.apply(b)
    w.log_pm, w.log_p = list(), list()
    return w


def ref_single(cur, s):
    '''reference for ONE notification for the known pilot (A.4)'''
    if cur in FINAL:
        return cur, []
    if s in (rps.FAILED, rps.CANCELED):
        return s, [s]
    if PVAL[s] > PVAL[cur]:
        ann = [x for x in PORDER if PVAL[cur] < PVAL[x] <= PVAL[s]]
        if s == rps.DONE:
            ann = [x for x in PORDER if PVAL[cur] < PVAL[x]] + [rps.DONE]
        return s, ann
    return cur, []


def pcheck(ctx, hist, batch):

    w      = pbuild(hist)
    before = w.p1.state
    exc    = w.apply(batch)
    after  = w.p1.state
    replay = {'part': 'a', 'history': [list(map(list, b)) for b in hist],
              'batch': list(map(list, batch))}
    shape  = ','.join('%s:%s' % (pid, 'final' if s in FINAL else 'live')
                      for pid, s in batch)
    ann    = [s for uid, s, _ in w.log_pm if uid == 'p1']

    def viol(clause, what):
        ctx.violation('%s|PilotManager._update_pilot|%s>%s'
                      % (clause, 'final' if before in FINAL else 'live', shape),
                      {'what': '%s; before=%s batch=%s after=%s announced=%s '
                               'exc=%r' % (what, before, list(batch), after,
                                           ann, exc)}, replay)

    # safety (every batch)
    if before in FINAL and after != before:
        if after not in FINAL:
            viol('final-left', 'final state left for a non-final one')
    if before in FINAL and any(s not in FINAL for s in ann):
        viol('nonfinal-after-final', 'non-final state announced after final')
    seq = [before] + ann
    for a, b in zip(seq, seq[1:]):
        if PVAL[b] < PVAL[a]:
            viol('backward', 'announcement %s after %s' % (b, a))
        elif b not in (rps.FAILED, rps.CANCELED) and PVAL[b] - PVAL[a] > 1:
            viol('gap', 'announcement %s directly after %s' % (b, a))
    if ann and after != ann[-1]:
        viol('state-vs-announcement', 'Pilot.state differs from the last '
                                      'announcement')
    if not ann and after != before and not (before in FINAL and
                                            after in FINAL):
        viol('silent-change', 'state changed without announcement')
    if any(seen not in FINAL and PVAL[seen] < PVAL[s]
           for _, s, seen in w.log_pm):
        viol('callback-state-behind', 'callback announced a state ahead of '
                                      'Pilot.state')
    for uid, s, _ in w.log_pm:
        if uid != 'p1':
            viol('unknown-announced', 'callback for unknown pilot %s' % uid)
    if all(pid != 'p1' for pid, _ in batch):
        if exc is not None:
            viol('unknown-raises', 'notification for unknown pilot raised')
        if after != before or ann:
            viol('unknown-effect', 'notification for unknown pilot had effect')

    # exactness for a single notification of the known pilot
    if len(batch) == 1 and batch[0][0] == 'p1':
        r_state, r_ann = ref_single(before, batch[0][1])
        dup = batch[0][1] == before and (after, ann) == (before, [before])
        if (after, ann) != (r_state, r_ann) and before not in FINAL \
           and not dup:      # a repeat of the current state may be announced
            viol('single-step', 'reference: state %s announcements %s'
                                % (r_state, r_ann))

    # a batch is its notifications one after the other: those for unknown
    # pilots are ignored, none for the known pilot is lost
    if len(batch) > 1 and before not in FINAL:
        r_state, r_ann = before, list()
        for pid, s in batch:
            if pid == 'p1':
                r_state, more = ref_single(r_state, s)
                r_ann += more
        dedup = [x for i, x in enumerate(ann)
                 if x != ([before] + ann)[i]]       # repeats may be announced
        if (after, dedup) != (r_state, r_ann):
            viol('batch-as-sequence', 'reference (one notification after the '
                 'other): state %s announcements %s' % (r_state, r_ann))

    ctx.outcome((before, tuple(batch), after, tuple(ann)))
    return after


def run_client(ctx):
    notifs = [(pid, s) for pid in ('p1', 'unknown') for s in PSTATES]
    blist  = [(n,) for n in notifs] + list(itertools.product(notifs, repeat=2))
    if not ctx.quick:
        blist += list(itertools.product(notifs, repeat=3))
    seen  = {rps.NEW: ()}
    front = collections.deque([()])
    n = 0
    while front:
        hist = front.popleft()
        for b in blist:
            n += 1
            after = pcheck(ctx, hist, b)
            if after not in seen:
                seen[after] = hist + (b,)
                front.append(hist + (b,))
            if n in (7, 900):
                ctx.sample({'history': hist, 'batch': b, 'after': after})
    ctx.cover(states=len(seen), transitions=n,
              traces_validated_against_impl=n)


# ------------------------------------------------------------------------------
# the tmgr scheduler's view of pilot states
#
def run_tmgr_view(ctx):
    from radical.pilot.tmgr.scheduler.base import TMGRSchedulingComponent
    from radical.pilot.tmgr.scheduler.round_robin import RoundRobin
    n = 0
    for seq in itertools.product(PSTATES, repeat=3):
        n += 1
        s = seams.bare(RoundRobin)
        s._pilots      = {'p1': {'role': 'added', 'state': rps.NEW,
                                 'pilot': {'uid': 'p1'}, 'info': {}}}
        s._pilots_lock = seams.NoLock()
        s.update_pilots = lambda pids: None
        seen = [rps.NEW]
        for st in seq:
            try:
                s._update_pilot_states([{'uid': 'p1', 'type': 'pilot',
                                         'state': st},
                                        {'uid': 'nope', 'type': 'pilot',
                                         'state': st}])
            except ValueError:
                # a contradicting final state is refused by raising; the
                # property only demands that the view does not move backward
                pass
            seen.append(s._pilots['p1']['state'])
        for a, b in zip(seen, seen[1:]):
            if PVAL[b] < PVAL[a] or (a in FINAL and b not in FINAL):
                ctx.violation('tmgr-view-backward|_update_pilot_states|-',
                              {'what': 'scheduler view %s for notifications %s'
                                       % (seen, seq)},
                              {'part': 'tmgr', 'seq': list(seq)})
        ctx.outcome(('tmgr', tuple(seen)))
    ctx.cover(transitions=n, tmgr_view_sequences=n)


# ------------------------------------------------------------------------------
# (b) agent side
#
class AgentTime(object):
    def __init__(self): self.now = 1000.0
    def time(self): return self.now
    def sleep(self, dt): self.now += dt


class FakeClosable(object):
    def close(self): pass
    def stop(self): pass


EVENTS = ['life_early', 'life_late', 'cancel_me', 'cancel_other', 'terminate']


def make_agent(scratch):
    net.install()
    n = net.Net().activate()
    net.bridges(n.reg, pubsubs=[rpc.STATE_PUBSUB, rpc.CONTROL_PUBSUB])
    a = seams.bare(a0mod.Agent_0, uid='agent_0')
    a._pid     = 'pilot.0000'
    a._pmgr    = 'pmgr.0000'
    a._reg     = n.reg
    a._cfg     = ru.Config(from_dict={'runtime': 10, 'uid': 'agent_0',
                                      'pid': 'pilot.0000'})
    a._session = FakeClosable()
    a._rm      = FakeClosable()
    a._final_cause = None
    a.register_publisher(rpc.STATE_PUBSUB)
    a.register_publisher(rpc.CONTROL_PUBSUB)
    return a, n


def agent_case(ctx, seq, scratch):

    clock = AgentTime()
    old_time = a0mod.time
    a0mod.time = clock
    cwd = os.getcwd()
    wd  = os.path.join(scratch, 'agent')
    os.makedirs(wd, exist_ok=True)
    os.chdir(wd)
    for f in os.listdir(wd):
        os.unlink(os.path.join(wd, f))
    try:
        a, n = make_agent(scratch)
        a._starttime = clock.now
        first = None
        for ev in seq:
            if a._term.is_set() and ev.startswith('life'):
                # the idler thread stops calling timed callbacks once the
                # component terminates
                continue
            if ev == 'life_early':
                clock.now = a._starttime + 60
                a._check_lifetime()
            elif ev == 'life_late':
                clock.now = a._starttime + 10 * 60 + 1
                a._check_lifetime()
                first = first or 'timeout'
            elif ev == 'cancel_me':
                a._control_cb(rpc.CONTROL_PUBSUB, seams.wire(
                    {'cmd': 'cancel_pilots',
                     'arg': {'pmgr': 'pmgr.0000', 'uids': ['pilot.0000']}}))
                first = first or 'cancel'
            elif ev == 'cancel_other':
                a._control_cb(rpc.CONTROL_PUBSUB, seams.wire(
                    {'cmd': 'cancel_pilots',
                     'arg': {'pmgr': 'pmgr.0000', 'uids': ['pilot.0009']}}))
            elif ev == 'terminate':
                a._control_cb(rpc.CONTROL_PUBSUB, seams.wire(
                    {'cmd': 'terminate', 'arg': None}))
                first = first or 'cancel'

        n_pub = len(n.pub_log)
        a.finalize()
        with open('killme.signal') as fin:
            written = fin.read().strip()
        published = [t['state'] for ch, _, m in n.pub_log[n_pub:]
                     if ch == rpc.STATE_PUBSUB
                     for t in ru.as_list(m['arg']) if t['uid'] == 'pilot.0000']
    finally:
        a0mod.time = old_time
        os.chdir(cwd)

    expect = {'timeout': rps.DONE, 'cancel': rps.CANCELED,
              None: rps.FAILED}[first]
    replay = {'part': 'b', 'seq': list(seq)}
    trig   = '%s-first' % (first or 'none')
    if written != expect:
        ctx.violation('final-cause|Agent_0.finalize|%s' % trig,
                      {'what': 'events %s: killme.signal says %s, first cause '
                               '%s means %s' % (list(seq), written, first,
                                                expect)}, replay)
    if published != [written]:
        ctx.violation('published-vs-written|Agent_0.finalize|%s' % trig,
                      {'what': 'events %s: published %s, written %s'
                               % (list(seq), published, written)}, replay)
    ctx.outcome(('agent', tuple(seq), written))
    return written


def bootstrap_stanza():
    '''the last stanza of bootstrap_0.sh which maps killme.signal to the
    final state (from the `killme.signal` test to the end)'''
    path = os.path.join(os.path.dirname(a0mod.__file__), 'bootstrap_0.sh')
    src  = open(path).read()
    i    = src.rindex('if test -e "./killme.signal"')
    j    = src.index('echo "# ----', src.index("final_state='FAILED'", i))
    return src[i:j]


def run_bootstrap(ctx, scratch):
    stanza = bootstrap_stanza()
    wd = os.path.join(scratch, 'boot')
    os.makedirs(wd, exist_ok=True)
    n = 0
    for content, code, expect in (('DONE', '0', 'DONE'),
                                  ('CANCELED', '137', 'CANCELED'),
                                  ('FAILED', '1', 'FAILED'),
                                  (None, '1', 'FAILED'),
                                  (None, '0', 'FAILED')):
        n += 1
        f = os.path.join(wd, 'killme.signal')
        if os.path.exists(f):
            os.unlink(f)
        if content:
            with open(f, 'w') as fout:
                fout.write(content + '\n')
        script = 'AGENT_EXITCODE=%s\nfinal_state=""\n%s\necho "STATE=$final_state"\n' \
                 % (code, stanza)
        out = subprocess.run(['bash', '-c', script], cwd=wd,
                             capture_output=True, text=True).stdout
        m = re.search(r'STATE=(\w*)', out)
        got = m.group(1) if m else None
        if got != expect:
            ctx.violation('bootstrap-final-state|bootstrap_0.sh|%s'
                          % (content or 'absent'),
                          {'what': 'killme.signal=%s exit=%s -> %s, expected %s'
                                   % (content, code, got, expect)},
                          {'part': 'boot', 'content': content})
        ctx.outcome(('boot', content, code, got))
    ctx.cover(transitions=n, bootstrap_cases=n)


def run_agent(ctx):
    n = 0
    for length in (0, 1, 2, 3):
        for seq in itertools.product(EVENTS, repeat=length):
            n += 1
            agent_case(ctx, seq, ctx.scratch)
            if n in (3, 40):
                ctx.sample({'agent_events': seq})
    ctx.cover(transitions=n, agent_sequences=n,
              traces_validated_against_impl=n)
    run_bootstrap(ctx, ctx.scratch)


# ------------------------------------------------------------------------------
# (c) launch failures: "FAILED otherwise" names the pilots which failed
#
# The real PMGRLaunchingComponent.work() is given every bulk of 1..3 pilots
# over three (resource, access schema) targets, and every subset of the
# targets fails at launch (the launcher raises, or staging the pilot's files
# raises).  Only the pilots of a failing target may be announced FAILED; all
# others are announced PMGR_ACTIVE_PENDING; a cancelled pilot is CANCELED.
#
TARGETS = [('local.localhost', 'local'), ('local.localhost', 'ssh'),
           ('anl.polaris', 'local')]


def _launch_job(args):
    from rpmc import report
    from checks import c17_configs as c17
    lo, hi, scratch = args
    os.environ['RPMC_SCRATCH'] = scratch
    part = report.Part()
    w    = c17.world()
    c    = w.component
    n    = 0
    for case in _launch_cases()[lo:hi]:
        targets, failing, mode, cancelled = case
        n += 1
        w.reset_cache()
        pilots = list()
        for label, schema in targets:
            pd = w.describe(label, schema, {'nodes': 1}, w.raw[label])
            pilots.append(w.make_pilot(pd))
        where  = {p['uid']: t for p, t in zip(pilots, targets)}
        log    = list()

        def advance(things, state=None, publish=True, push=False, **kw):
            for t in ru.as_list(things):
                log.append((t['uid'], state))

        def bad(target_of):
            def f(*a, **k):
                # a[-1]: pilots of the bulk (launcher) or the pilot (stage_in)
                ps = a[1] if mode == 'launch' else [a[0]]
                if any(where[p['uid']] in failing for p in ru.as_list(ps)):
                    raise RuntimeError('injected %s failure' % mode)
                return None
            return f

        class L(c17._Launcher):
            def launch_pilots(self_, rcfg, ps):
                if mode == 'launch':
                    bad(None)(rcfg, ps)

        c.advance     = advance
        c._launchers  = {'VERIF': L()}
        c._stage_in   = bad(None) if mode == 'stage' else \
                        (lambda pilot, sds: None)
        late = bool(cancelled) and cancelled[0] == 'late'
        if late:
            cancelled = cancelled[1:]
        c._cancelled  = [pilots[i]['uid'] for i in cancelled]
        named_cancel  = list(c._cancelled)
        c._pilots.clear()
        replay = {'part': 'c', 'case': [list(map(list, targets)),
                                        list(map(list, failing)), mode,
                                        list(cancelled)]}
        try:
            if late:
                # the request is there before the pilot: a bulk without the
                # pilot is handled first, then the bulk with it
                rest = [p for p in pilots if p['uid'] not in named_cancel]
                mine = [p for p in pilots if p['uid'] in named_cancel]
                c.work(copy.deepcopy(rest))
                c.work(copy.deepcopy(mine))
            else:
                c.work(copy.deepcopy(pilots))
            exc = None
        except Exception as e:
            exc = e
        finally:
            del c.advance
        for p in pilots:
            uid  = p['uid']
            seen = [s for u, s in log if u == uid]
            if uid in named_cancel:
                want = [rps.CANCELED]
            elif where[uid] in failing:
                want = [rps.PMGR_LAUNCHING, rps.FAILED]
            else:
                want = [rps.PMGR_LAUNCHING, rps.PMGR_ACTIVE_PENDING]
            if seen != want or exc is not None:
                role = ('cancelled-late' if late else 'cancelled') \
                       if uid in named_cancel else \
                       'failing' if where[uid] in failing else 'healthy'
                part.violation('launch-outcome|PMGRLaunchingComponent.work|'
                               '%s:%s:%s' % (mode, role, '>'.join(
                                   str(x) for x in seen) or 'nothing'),
                               {'what': 'pilot on %s (%s) announced %s, '
                                        'expected %s; targets %s, failing %s, '
                                        'exc %r' % (where[uid], role, seen,
                                                    want, targets, failing,
                                                    exc)}, replay)
        part.outcome(('launch', mode, len(targets), len(failing),
                      tuple(sorted(s for _, s in log))))
        for entry in os.listdir(w.tmp):
            path = os.path.join(w.tmp, entry)
            if os.path.isdir(path): shutil.rmtree(path, ignore_errors=True)
            else                  : os.unlink(path)
    part.cover(evaluations=n, launch_bulks=n)
    return part.dump()


_lcases = None


def _launch_cases():
    global _lcases
    if _lcases is None:
        out = list()
        for k in (1, 2, 3):
            for targets in itertools.product(TARGETS, repeat=k):
                used = sorted(set(targets))
                for r in range(len(used) + 1):
                    for failing in itertools.combinations(used, r):
                        for mode in ('launch', 'stage'):
                            if not failing and mode == 'stage':
                                continue
                            for cancelled in ((), (0,), ('late', 0)):
                                if cancelled and k == 1 and failing:
                                    continue
                                if cancelled[:1] == ('late',) and k == 1:
                                    continue
                                out.append((targets, failing, mode, cancelled))
        _lcases = out
    return _lcases


def run_launch(ctx):
    cases = _launch_cases()
    per   = max(1, len(cases) // ctx.workers + 1)
    jobs  = [(lo, min(lo + per, len(cases)), ctx.scratch)
             for lo in range(0, len(cases), per)]
    for res in seams.pmap(_launch_job, jobs, ctx.workers):
        ctx.merge(res)


# ------------------------------------------------------------------------------
# (d) two notification threads (state subscriber, control subscriber) deliver
#     to the same pilot concurrently: engine B, every schedule within the
#     delay bound; the result is that of one of the two sequential orders
#
def _race_job(args):
    from rpmc import report, clientrace, sched as rs
    from radical.pilot.pilot_manager import PilotManager
    from radical.pilot.pilot         import Pilot
    start, na, nb, via, bound = args
    part = report.Part()

    def make_world(s):
        w = PWorld()
        if start != rps.NEW:
            w.apply((('p1', start),))
            w.log_pm, w.log_p = list(), list()
        clientrace.control_locks(s, w.pm, ['_pilots_lock', '_pcb_lock'])
        clientrace.control_locks(s, w.p1, ['_cb_lock'])
        return w

    def deliver(w, st, how):
        d = {'uid': 'p1', 'type': 'pilot', 'state': st}
        if how == 'control':
            d['resources'] = {'cpu': 1, 'gpu': 0}
            return lambda: w.pm.control_cb(rpc.CONTROL_PUBSUB, seams.wire(
                           {'cmd': 'pilot_activate', 'arg': {'pilot': d}}))
        return lambda: w.pm._state_sub_cb(rpc.STATE_PUBSUB, seams.wire(
                       {'cmd': 'update', 'arg': [d]}))

    def bodies(w):
        return [('A', deliver(w, na, via)), ('B', deliver(w, nb, 'state'))]

    # sequential references
    allowed = set()
    for order in ((na, nb), (nb, na)):
        cur = start
        for st in order:
            cur, _ = ref_single(cur, st)
        allowed.add(cur)

    # exceptions the handlers raise when run one after the other (a
    # contradicting final state is refused with a ValueError)
    seq_exc = set()
    for order in (('A', 'B'), ('B', 'A')):
        w0 = make_world(rs.Sched())
        bs = dict(bodies(w0))
        for name in order:
            try:
                bs[name]()
            except Exception as e:
                seq_exc.add(type(e).__name__)

    replay = {'part': 'd', 'start': start, 'a': na, 'b': nb, 'via': via}
    shape  = '%s+%s' % tuple('final' if x in FINAL else 'live'
                             for x in (na, nb))

    def judge(w, s, res):
        ann = [st for uid, st, _ in w.log_pm if uid == 'p1']
        rp_ = dict(replay, schedule=list(s.choices))

        def viol(clause, what):
            part.violation('%s|PilotManager._update_pilot|%s:%s'
                           % (clause, via, shape),
                           {'what': '%s; start=%s A=%s(%s) B=%s end=%s '
                                    'announced=%s' % (what, start, na, via, nb,
                                                      w.p1.state, ann)}, rp_)
        if res != 'done':
            viol('race-' + res, 'threads did not finish: %s' % res)
        for t in s.threads:
            if t.exc is not None and type(t.exc).__name__ not in seq_exc:
                viol('race-handler-raises', '%s raised %r' % (t.name, t.exc))
        seq = [start] + ann
        fin = False
        for a, b in zip(seq, seq[1:]):
            if PVAL[b] < PVAL[a] and not (a in FINAL and b in FINAL):
                viol('race-backward', 'announcement %s after %s' % (b, a))
            if a in FINAL and b not in FINAL:
                viol('race-nonfinal-after-final', '%s announced after %s'
                                                  % (b, a))
        if w.p1.state not in allowed:
            viol('race-not-sequential', 'final state %s, sequential orders '
                 'give %s' % (w.p1.state, sorted(allowed)))
        part.outcome(('race', start, na, nb, via, w.p1.state, tuple(ann)))

    n, capped = clientrace.explore(
        make_world, bodies,
        [PilotManager._update_pilot, PilotManager._state_sub_cb,
         PilotManager.control_cb, PilotManager._call_pilot_callbacks,
         Pilot._update], bound, judge)
    if capped:
        part.cap('race %s: %d schedules left' % (replay, capped))
    part.cover(executions=n, race_pairs=1,
               traces_validated_against_impl=n)
    return part.dump()


def run_race(ctx):
    bound = 1 if ctx.quick else 2
    jobs  = list()
    for start in (rps.NEW, rps.PMGR_LAUNCHING):
        for na in PSTATES:
            for nb in PSTATES:
                # A comes through the control subscriber thread (the agent's
                # `pilot_activate` message, which carries PMGR_ACTIVE), B
                # through the state subscriber thread.  Two state
                # notifications never race: there is one such thread.
                for via in ('control',):
                    if na != rps.PMGR_ACTIVE:
                        continue
                    if PVAL[na] <= PVAL[start] and PVAL[nb] <= PVAL[start]:
                        continue        # two late notifications: part (a)
                    jobs.append((start, na, nb, via, bound))
    for res in seams.pmap(_race_job, jobs, ctx.workers):
        ctx.merge(res)
    ctx.set(race_delay_bound=bound)


# ------------------------------------------------------------------------------
# (e) the agent's work loop thread leaves its loop when the component's
#     termination flag is set and then runs finalize(), which turns the
#     recorded cause into the pilot's final state; the cause is recorded by
#     other threads (control subscriber: cancel / terminate; idler: run time
#     reached).  Engine B: every schedule of {work loop, cause} within the
#     delay bound ends with the state the cause stands for.
#
def _stop_job(args):
    from rpmc import report, clientrace, sched as rs
    from radical.pilot.utils.component import BaseComponent
    cause, bound, scratch = args
    part  = report.Part()
    clock = AgentTime()
    wd    = os.path.join(scratch, 'agent.%d' % os.getpid())
    os.makedirs(wd, exist_ok=True)
    expect = {'life_late': rps.DONE, 'cancel_me': rps.CANCELED,
              'terminate': rps.CANCELED, 'stop': rps.CANCELED}[cause]

    def make_world(s):
        for f in os.listdir(wd):
            os.unlink(os.path.join(wd, f))
        a, n = make_agent(scratch)
        a._term = rs.CEvent(s)
        a._starttime = clock.now = 1000.0
        a.net = n
        return a

    def bodies(a):
        def loop():
            # BaseComponent._work_loop without the work itself
            s_ = a._term.sched
            while not a._term.is_set():
                pass
            a._finalize()

        def stopper():
            if cause == 'life_late':
                clock.now = a._starttime + 10 * 60 + 1
                a._check_lifetime()
            elif cause == 'cancel_me':
                a._control_cb(rpc.CONTROL_PUBSUB, seams.wire(
                    {'cmd': 'cancel_pilots',
                     'arg': {'pmgr': 'pmgr.0000', 'uids': ['pilot.0000']}}))
            elif cause == 'terminate':
                a._control_cb(rpc.CONTROL_PUBSUB, seams.wire(
                    {'cmd': 'terminate', 'arg': None}))
            else:
                a.stop()
        return [('work-loop', loop, True), ('stopper', stopper)]

    replay = {'part': 'e', 'cause': cause}

    def judge(a, s, res):
        try:
            with open(os.path.join(wd, 'killme.signal')) as fin:
                written = fin.read().strip()
        except Exception as e:
            written = repr(e)
        if res != 'done' or written != expect:
            part.violation('final-cause-race|Agent_0.stop|%s' % cause,
                           {'what': 'cause %s: the work loop wrote %s, '
                                    'expected %s (%s; stuck %s)'
                                    % (cause, written, expect, res, s.stuck)},
                           dict(replay, schedule=list(s.choices)))
        part.outcome(('stop-race', cause, written))

    old_time, cwd = a0mod.time, os.getcwd()
    a0mod.time = clock
    os.chdir(wd)
    try:
        n, capped = clientrace.explore(
            make_world, bodies,
            [a0mod.Agent_0.stop, a0mod.Agent_0.finalize,
             a0mod.Agent_0._check_lifetime, a0mod.Agent_0._ctrl_cancel_pilots
             if hasattr(a0mod.Agent_0, '_ctrl_cancel_pilots')
             else a0mod.Agent_0.stop,
             BaseComponent.stop, BaseComponent._finalize], bound, judge)
    finally:
        a0mod.time = old_time
        os.chdir(cwd)
    part.cover(executions=n, stop_race_cases=1,
               traces_validated_against_impl=n)
    return part.dump()


def run_stop_race(ctx):
    bound = 1 if ctx.quick else 2
    jobs  = [(c, bound, ctx.scratch)
             for c in ('life_late', 'cancel_me', 'terminate', 'stop')]
    for res in seams.pmap(_stop_job, jobs, ctx.workers):
        ctx.merge(res)


def run(ctx):
    ctx.level = 'model_checking'
    run_stop_race(ctx)
    run_client(ctx)
    run_tmgr_view(ctx)
    run_agent(ctx)
    run_launch(ctx)
    run_race(ctx)
    ctx.set(exhaustive=True,
            rule='(a) state = Pilot.state, transition = batch of 1..2 (3 '
                 'thorough) notifications over {p1, unknown} x 8 states, graph '
                 'closed completely; (b) all sequences of <= 3 terminating '
                 'events of Agent_0 + finalize(); bootstrap stanza 5-case '
                 'table')
    ctx.set(distinct_nontrivial=len(ctx.outcomes))
    ctx.assume('timed callbacks are not invoked after the component '
               'terminated (Idler thread checks _term)',
               'a terminate command counts as cancellation by request')


def replay(ctx, data):
    r = data['replay']
    if r['part'] == 'a':
        hist  = [tuple(tuple(x) for x in b) for b in r['history']]
        batch = tuple(tuple(x) for x in r['batch'])
        w = pbuild(hist)
        print('before', w.p1.state)
        print('exc', repr(w.apply(batch)))
        print('after', w.p1.state, 'announced', w.log_pm)
    elif r['part'] == 'e':
        res = _stop_job((r['cause'], 2, ctx.scratch))
        for key, detail, _ in res['violations']:
            print('VIOLATED', key, detail['what'])
        return 1 if res['violations'] else 0
    elif r['part'] == 'd':
        res = _race_job((r['start'], r['a'], r['b'], r['via'], 2))
        print('race', r, )
        for key, detail, _ in res['violations']:
            print('VIOLATED', key, detail['what'])
        return 1 if res['violations'] else 0
    elif r['part'] == 'c':
        t, f, mode, canc = r['case']
        case = (tuple(map(tuple, t)), tuple(map(tuple, f)), mode, tuple(canc))
        i    = _launch_cases().index(case)
        res  = _launch_job((i, i + 1, ctx.scratch))
        for key, detail, _ in res['violations']:
            print('VIOLATED', key, detail['what'])
        return 1 if res['violations'] else 0
    elif r['part'] == 'b':
        from rpmc import report
        part = report.Part()
        print('killme.signal:', agent_case(part, tuple(r['seq']), ctx.scratch))
        for k, (d, _) in part.violations.items():
            print('VIOLATED', k, d['what'])
    return 0
