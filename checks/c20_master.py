'''
C20 part (b) -- master accounting and the agent scheduler's raptor forwarding.

(b1) Engine C on a bare raptor `Master` (no constructor; in-memory channels):
     * `submit_tasks` / `_submit_tasks` / `_request_cb` for every bulk of up to
       three requests over all task modes: executable requests are pushed to
       the agent's staging-input queue (the pilot's normal execution path),
       all function-like requests to the worker request queue, each exactly
       once;
     * `_result_cb` for every bulk of up to three results with exit codes from
       {0, 1, 255, None, '0', absent} (and results which already carry a
       target state): every result is handed on exactly once, with
       target_state DONE iff the code is 0;
     * complete round trips: N requests dispatched, results return in every
       order and bulk split; `_run_task` (a worker's request to the master)
       with the result arriving while the service thread waits.

(b2) Event sequences on a bare `Continuous` agent scheduler (scheduler-process
     side): `_schedule_incoming()` and `control_cb()` with
     register_raptor_queue / unregister_raptor_queue / cancel_tasks.  Both
     handlers touch the raptor bookkeeping under `_raptor_lock` only, so every
     interleaving of the control thread and the scheduler loop is a sequence
     of these handler invocations.  Every sequence up to a bounded length over
     the event alphabet is run.
'''

import copy
import queue
import itertools

from rpmc import seams, net, report, schedworld as sw

rp = seams.import_rp()

import radical.utils as ru                                         # noqa: E402
from radical.pilot import states    as rps                         # noqa: E402
from radical.pilot import constants as rpc                         # noqa: E402
from radical.pilot.raptor import master as master_mod              # noqa: E402
from radical.pilot.agent.scheduler import base as sbase            # noqa: E402
from radical.pilot.agent.scheduler.continuous import Continuous    # noqa: E402

import signal                                                      # noqa: E402
signal.signal(signal.SIGTERM, signal.SIG_DFL)
signal.signal(signal.SIGINT,  signal.default_int_handler)

Master = master_mod.Master

REQ_QUEUE = 'raptor_tasks'

MODE_DESCR = {
    'executable': {'mode': rp.TASK_EXECUTABLE, 'executable': '/bin/date'},
    'default'   : {'executable': '/bin/date'},          # no mode given
    'function'  : {'mode': rp.TASK_FUNCTION, 'function': 'hello'},
    'method'    : {'mode': rp.TASK_METHOD,   'function': 'hello'},
    'eval'      : {'mode': rp.TASK_EVAL,     'code': '1 + 1'},
    'exec'      : {'mode': rp.TASK_EXEC,     'code': 'return 1'},
    'proc'      : {'mode': rp.TASK_PROC,     'executable': '/bin/date'},
    'shell'     : {'mode': rp.TASK_SHELL,    'command': 'date'},
}
EXECUTABLE_LIKE = ('executable', 'default')


# ------------------------------------------------------------------------------
#
class FakeSession(object):
    uid  = 'session.verif'
    cfg  = ru.Config(from_dict={})
    rcfg = ru.Config(from_dict={})

    def _get_task_sandbox(self, task, pilot):
        if task.get('task_sandbox'):
            return task['task_sandbox']
        return 'file://localhost%s/%s/' % (pilot['pilot_sandbox'], task['uid'])

    def __deepcopy__(self, memo):
        return self


class FakeEvent(object):
    '''mt.Event of `_run_task`: waiting lets the rest of the world run'''

    world = None

    def __init__(self):
        self.flag = False

    def set(self):
        self.flag = True

    def is_set(self):
        return self.flag

    def wait(self, timeout=None):
        if not self.flag:
            FakeEvent.world.while_waiting()
        if not self.flag:
            raise Stuck()
        return True


class FakeMT(object):
    def __getattr__(self, name):
        import threading
        return getattr(threading, name)
    Event = FakeEvent


class Stuck(Exception):
    '''the service thread would wait for ever'''


class MasterWorld(object):

    def __init__(self, result_cb_raises=False):
        net.install()
        self.net = net.Net().activate()
        net.bridges(self.net.reg,
                    queues =[rpc.AGENT_STAGING_INPUT_QUEUE,
                             rpc.AGENT_STAGING_OUTPUT_QUEUE],
                    pubsubs=[rpc.STATE_PUBSUB, rpc.CONTROL_PUBSUB])
        cls = Master
        if result_cb_raises:
            class RaisingMaster(Master):
                def result_cb(self, tasks):
                    raise RuntimeError('application callback fails')
            cls = RaisingMaster
        m = seams.bare(cls, uid='master.0000')
        m._session = FakeSession()
        m._reg     = self.net.reg
        m._cfg     = ru.Config(from_dict={})
        m._pid     = 'pilot.0000'
        m._sid     = 'session.verif'
        m._sbox    = '/tmp/c20/pilot.0000/master.0000'
        m._psbox   = '/tmp/c20/pilot.0000'
        m._ssbox   = '/tmp/c20'
        m._rsbox   = '/tmp'
        m._tasks   = dict()
        m._exec_tasks = list()
        m._task_service_data = dict()
        m.register_publisher(rpc.STATE_PUBSUB)
        m.register_publisher(rpc.CONTROL_PUBSUB)
        m.register_output(rps.AGENT_STAGING_INPUT_PENDING,
                          rpc.AGENT_STAGING_INPUT_QUEUE)
        m.register_output(rps.AGENT_STAGING_OUTPUT_PENDING,
                          rpc.AGENT_STAGING_OUTPUT_QUEUE)
        m._req_put = ru.zmq.Putter(REQ_QUEUE)
        self.m = m
        self.waiting = None

    def while_waiting(self):
        if self.waiting:
            self.waiting()

    def places(self):
        '''uid -> list of (queue, state, target_state)'''
        out = dict()
        for qname, things in self.net.q_log:
            for t in things:
                out.setdefault(t['uid'], list()).append(
                        (qname, t.get('state'), t.get('target_state')))
        return out


def make_request(uid, kind, as_td=False, raptor_id='master.0000'):
    d = dict(MODE_DESCR[kind])
    d['uid'] = uid
    d['raptor_id'] = raptor_id
    had_mode = 'mode' in d
    td = rp.TaskDescription(d)
    if as_td:
        return td
    td.verify()
    dd = td.as_dict()
    if not had_mode:
        dd.pop('mode', None)
    return seams.wire({'uid': uid, 'type': 'task', 'origin': 'client',
                       'state': rps.AGENT_SCHEDULING,
                       'description': dd, 'pilot': 'pilot.0000',
                       'pilot_sandbox': '/tmp/c20/pilot.0000',
                       'task_sandbox': None, 'task_sandbox_path': None})


# ------------------------------------------------------------------------------
# (b1) routing
#
ENTRIES = ['_submit_tasks', 'submit_tasks', 'submit_tasks/td', '_request_cb']


def run_routing(part, entry, kinds, verbose=False):

    w = MasterWorld()
    m = w.m
    replay = {'part': 'b-routing', 'entry': entry, 'kinds': list(kinds)}
    uids  = ['req.%04d' % i for i in range(len(kinds))]
    tasks = [make_request(u, k, as_td=entry.endswith('/td'))
             for u, k in zip(uids, kinds)]

    def viol(clause, site, trig, what):
        part.violation('%s|%s|%s' % (clause, site, trig),
                       {'what': what, 'entry': entry, 'modes': list(kinds)},
                       replay)

    try:
        if   entry == '_submit_tasks': m._submit_tasks(tasks)
        elif entry == '_request_cb'  : m._request_cb(tasks)
        else                         : m.submit_tasks(tasks)
        raised = None
    except Exception as e:
        raised = e

    places = w.places()
    obs = list()
    for uid, kind in zip(uids, kinds):
        p = places.get(uid, [])
        execl = kind in EXECUTABLE_LIKE
        want  = rpc.AGENT_STAGING_INPUT_QUEUE if execl else REQ_QUEUE
        other = REQ_QUEUE if execl else rpc.AGENT_STAGING_INPUT_QUEUE
        got   = [q for q, _, _ in p]
        trig  = 'executable' if execl else 'function-like'
        obs.append((kind, tuple(got)))
        if raised is not None:
            continue
        if other in got:
            viol('routing', 'Master._submit_tasks', trig,
                 '%s request %s was sent to %s' % (kind, uid, other))
        if got.count(want) != 1:
            viol('dispatched-once', 'Master._submit_tasks',
                 '%s:n=%d' % (trig, got.count(want)),
                 '%s request %s reached %s %d times (all: %s)'
                 % (kind, uid, want, got.count(want), got))
        for q, state, _ in p:
            if q == rpc.AGENT_STAGING_INPUT_QUEUE and \
               state != rps.AGENT_STAGING_INPUT_PENDING:
                viol('routing', 'Master._submit_executable_tasks', 'state',
                     '%s pushed to the agent in state %s' % (uid, state))
        if entry == '_request_cb' and execl:
            seen = [t.get('raptor_seen') for q, things in w.net.q_log
                    for t in things if t['uid'] == uid
                    and q == rpc.AGENT_STAGING_INPUT_QUEUE]
            if seen and not all(seen):
                viol('routing', 'Master._request_cb', 'raptor_seen',
                     'executable request %s goes back to the agent without '
                     'raptor_seen: the scheduler would return it to the '
                     'master for ever' % uid)
    if raised is not None:
        obs.append('raised:%s' % type(raised).__name__)
    if verbose:
        print('entry %s modes %s -> %s' % (entry, kinds, obs))
    part.outcome(('b-routing', entry, tuple(obs)))


# ------------------------------------------------------------------------------
# (b1) results
#
CODES  = [0, 1, 255, None, '0', 'absent']
PRESET = [(0, rps.DONE), (1, rps.FAILED), (None, rps.CANCELED)]


def result_of(task, code, target=None):
    t = copy.deepcopy(task)
    t['state'] = rps.AGENT_SCHEDULING
    if code != 'absent':
        t['exit_code'] = code
    if target:
        t['target_state'] = target
    t['stdout'] = 'out'
    t['stderr'] = ''
    t['return_value'] = 1
    return seams.wire(t)


def code_ok(code):
    return code in (0, '0')


def run_results(part, codes, raising=False, verbose=False):
    '''one `_result_cb` bulk with the given (code, preset target) entries'''

    w = MasterWorld(result_cb_raises=raising)
    m = w.m
    replay = {'part': 'b-results', 'codes': [list(c) if isinstance(c, tuple)
                                             else c for c in codes],
              'raising': raising}
    uids = ['req.%04d' % i for i in range(len(codes))]
    bulk = list()
    want = dict()
    for uid, c in zip(uids, codes):
        code, target = c if isinstance(c, tuple) else (c, None)
        bulk.append(result_of(make_request(uid, 'function'), code, target))
        want[uid] = target or (rps.DONE if code_ok(code) else rps.FAILED)

    def viol(clause, site, trig, what):
        part.violation('%s|%s|%s' % (clause, site, trig),
                       {'what': what, 'codes': replay['codes'],
                        'result_cb_raises': raising}, replay)

    try:
        m._result_cb(bulk)
        raised = None
    except Exception as e:
        raised = e
        viol('result-accepted', 'Master._result_cb', type(e).__name__,
             '_result_cb raised %r for exit codes %s' % (e, codes))

    places = w.places()
    obs = list()
    for uid, c in zip(uids, codes):
        code, target = c if isinstance(c, tuple) else (c, None)
        got = [(q, s, t) for q, s, t in places.get(uid, [])]
        out = [x for x in got if x[0] == rpc.AGENT_STAGING_OUTPUT_QUEUE]
        obs.append((repr(code), target, tuple(t for _, _, t in out)))
        if raised is not None:
            continue
        trig = 'code=%r%s' % (code, ':preset' if target else '')
        if len(out) != 1 or len(got) != 1:
            viol('returned-once', 'Master._result_cb',
                 'n=%d%s' % (len(out), ':result_cb-raises' if raising else ''),
                 'result %s (code %r) was handed on %d times: %s'
                 % (uid, code, len(out), got))
            continue
        if out[0][2] != want[uid]:
            viol('target-state', 'Master._result_cb', trig,
                 'result %s with exit code %r%s goes on with target_state %s, '
                 'expected %s' % (uid, code,
                                  ' (already marked %s)' % target
                                  if target else '', out[0][2], want[uid]))
        if out[0][1] != rps.AGENT_STAGING_OUTPUT_PENDING:
            viol('returned-once', 'Master._result_cb', 'state',
                 '%s handed on in state %s' % (uid, out[0][1]))
    if verbose:
        print('codes %s -> %s' % (codes, obs))
    part.outcome(('b-results', raising, tuple(obs)))


# ------------------------------------------------------------------------------
# (b1) round trips incl. `_run_task`
#
def partitions(items):
    '''all ordered splits of a sequence into consecutive bulks'''
    n = len(items)
    for cuts in itertools.product([0, 1], repeat=max(0, n - 1)):
        out, cur = list(), [items[0]]
        for i, c in enumerate(cuts):
            if c:
                out.append(cur)
                cur = list()
            cur.append(items[i + 1])
        out.append(cur)
        yield out


def run_roundtrip(part, kinds, codes, order, split, service, verbose=False):
    '''
    dispatch len(kinds) function-like requests (the one at index `service`
    through `_run_task`, if any), return their results in `order`, split into
    bulks by `split`
    '''
    w = MasterWorld()
    m = w.m
    FakeEvent.world = w
    replay = {'part': 'b-roundtrip', 'kinds': list(kinds), 'codes': list(codes),
              'order': list(order), 'split': split, 'service': service}
    n = len(kinds)

    def viol(clause, site, trig, what):
        part.violation('%s|%s|%s' % (clause, site, trig),
                       {'what': what, 'replay': replay}, replay)

    old_mt = master_mod.mt
    master_mod.mt = FakeMT()
    ret = dict()
    try:
        plain = [i for i in range(n) if i != service]
        m.submit_tasks([make_request('req.%04d' % i, kinds[i]) for i in plain])

        def deliver():
            # what the workers / the executor give back, in the given order
            sent = dict()
            for qname, things in w.net.q_log:
                if qname in (REQ_QUEUE, rpc.AGENT_STAGING_INPUT_QUEUE):
                    for t in things:
                        sent[t['uid']] = t
            uid_of = dict()
            for i in range(n):
                if i == service:
                    uid_of[i] = [u for u in sent if 'subtask' in u][0]
                else:
                    uid_of[i] = 'req.%04d' % i
            ret['uids'] = uid_of
            seq = [result_of(sent[uid_of[i]], codes[i]) for i in order]
            pos = 0
            for size in split:
                m._result_cb(seq[pos:pos + size])
                pos += size

        if service is None:
            deliver()
        else:
            w.waiting = deliver
            td = rp.TaskDescription(dict(MODE_DESCR[kinds[service]]))
            try:
                ret['task'] = m._run_task(td.as_dict())
            except Stuck:
                viol('returned-once', 'Master._run_task', 'never-returns',
                     '_run_task waits for ever although the result for its '
                     'request was delivered')
    finally:
        master_mod.mt = old_mt

    places = w.places()
    obs = list()
    for i in range(n):
        uid = ret.get('uids', {}).get(i)
        out = [x for x in places.get(uid, [])
               if x[0] == rpc.AGENT_STAGING_OUTPUT_QUEUE]
        want = rps.DONE if code_ok(codes[i]) else rps.FAILED
        obs.append((kinds[i], repr(codes[i]), tuple(t for _, _, t in out)))
        if len(out) != 1:
            viol('returned-once', 'Master._result_cb', 'n=%d' % len(out),
                 'request %d (%s) came back %d times' % (i, uid, len(out)))
        elif out[0][2] != want:
            viol('target-state', 'Master._result_cb', 'code=%r' % (codes[i],),
                 'request %s code %r -> %s' % (uid, codes[i], out[0][2]))
    if service is not None and 'task' in ret:
        t = ret['task']
        want = rps.DONE if code_ok(codes[service]) else rps.FAILED
        if t.get('target_state') != want or \
           ('exit_code' in t and codes[service] != 'absent'
            and t['exit_code'] != codes[service]):
            viol('target-state', 'Master._run_task', 'code=%r'
                 % (codes[service],),
                 '_run_task returned target_state %s exit_code %r for a '
                 'request which reported %r' % (t.get('target_state'),
                                                t.get('exit_code'),
                                                codes[service]))
        if m._task_service_data:
            viol('awaiting-result', 'Master._run_task', 'left-behind',
                 '_task_service_data still holds %s after the request '
                 'returned' % list(m._task_service_data))
    if verbose:
        print(replay, '->', obs)
    part.outcome(('b-roundtrip', service is not None, tuple(sorted(obs))))


# ------------------------------------------------------------------------------
# (b2) scheduler forwarding
#
LAYOUT = {'nodes': 1, 'cores': 1, 'gpus': 0}   # the 2nd local task waits
QNAME  = {'m1': 'm1.input_queue', 'm2': 'm2.input_queue'}

# the tasks of the forwarding scenarios: uid -> description extras
SCHED_TASKS = {
    'ta': dict(raptor_id='m1', mode=rp.TASK_FUNCTION, function='f'),
    'tb': dict(raptor_id='m1', mode=rp.TASK_EXECUTABLE),
    'tc': dict(raptor_id='*',  mode=rp.TASK_FUNCTION, function='f'),
    'td': dict(raptor_id='m2', mode=rp.TASK_EVAL, code='1'),
    'ts': dict(raptor_id='m1', mode=rp.TASK_EXECUTABLE, _seen=True),
    'ta2': dict(raptor_id='m1', mode=rp.TASK_FUNCTION, function='f'),
    'ta3': dict(raptor_id='m1', mode=rp.TASK_EXECUTABLE),
    'tl': dict(),                                         # plain local task
    'tw': dict(raptor_id='m1', mode=rp.RAPTOR_WORKER),    # a worker of m1
}


class SimpleQueue(object):

    def __init__(self):
        self.items = list()

    def put(self, x):
        self.items.append(copy.deepcopy(x))

    def get(self, timeout=None):
        if not self.items:
            raise queue.Empty()
        return self.items.pop(0)


class NeverSet(object):
    def is_set(self): return False
    def set(self): pass


def make_sched():
    net.install()
    n = net.Net().activate()
    net.bridges(n.reg, queues=[rpc.AGENT_EXECUTING_QUEUE],
                pubsubs=[rpc.STATE_PUBSUB, rpc.CONTROL_PUBSUB])
    rm = sw.make_rm(LAYOUT)
    o = seams.bare(Continuous, uid='agent_scheduling.0000')
    o._session       = sw.FakeSession(True)
    o._reg           = n.reg
    o._rm            = rm
    o._partition_ids = list()
    o._waitpool      = sbase.defaultdict(dict)
    o._ts_map        = sbase.defaultdict(set)
    o._ts_valid      = False
    o._active_cnt    = 0
    o._named_envs    = list()
    o._queue_sched   = SimpleQueue()
    o._queue_unsched = SimpleQueue()
    o._scheduler_process = True
    o.nodes          = copy.deepcopy(rm.info.node_list)
    o._colo_history  = dict()
    o._tagged_nodes  = set()
    o._scattered     = None
    o._node_offset   = 0
    o._configure()
    o._term          = NeverSet()
    # what `_schedule_tasks` sets up before entering its loop
    o._raptor_queues = dict()
    o._raptor_tasks  = dict()
    o._raptor_lock   = seams.NoLock()
    o.register_output(rps.AGENT_EXECUTING_PENDING, rpc.AGENT_EXECUTING_QUEUE)
    o.register_publisher(rpc.STATE_PUBSUB)
    return o, n


def sched_task(uid):
    kw = dict(SCHED_TASKS[uid])
    seen = kw.pop('_seen', False)
    t = sw.make_task(uid, **kw)
    t['state'] = rps.AGENT_SCHEDULING
    if seen:
        t['raptor_seen'] = True
    return t


def run_forwarding(part, events, verbose=False):
    '''
    events: ('arrive', [uids]) | ('pass',) | ('reg', name) | ('unreg', name) |
            ('cancel', [uids])
    a closing `_schedule_incoming` pass is always appended
    '''
    s, n = make_sched()
    replay = {'part': 'b-forwarding', 'events': [list(e) for e in events]}
    old_time = sbase.time
    sbase.time = sw.FakeTime()

    registered = set()        # reference: names registered right now
    arrived    = dict()       # uid -> index of the arrival event
    named      = set()        # uids named by a cancel request
    log        = list()       # (event index, uid, place, detail)
    marks      = {'q': 0, 'p': 0}
    ev_reg     = list()       # registered set while event i was handled
    must_cancel = set()       # named while waiting in the raptor backlog
    crashed    = None

    def collect(i):
        ql, pl = n.q_log, n.pub_log
        for qname, things in ql[marks['q']:]:
            for t in things:
                if qname == rpc.AGENT_EXECUTING_QUEUE:
                    log.append((i, t['uid'], 'local', None))
                else:
                    log.append((i, t['uid'], 'forwarded', qname))
        for ch, _, msg in pl[marks['p']:]:
            if ch == rpc.STATE_PUBSUB and msg.get('cmd') == 'update':
                for t in msg['arg']:
                    if t['state'] == rps.CANCELED:
                        log.append((i, t['uid'], 'canceled', None))
                    elif t['state'] == rps.FAILED:
                        log.append((i, t['uid'], 'failed',
                                    str(t.get('exception'))))
        marks['q'], marks['p'] = len(ql), len(pl)

    evs = list(events) + [('pass',)]
    try:
        for i, ev in enumerate(evs):
            kind = ev[0]
            before = set(registered)
            if kind == 'arrive':
                for u in ev[1]:
                    arrived[u] = i
                s._queue_sched.put(([sched_task(u) for u in ev[1]],
                                    s._SCHEDULE))
            elif kind == 'pass':
                s._schedule_incoming()
            elif kind == 'reg':
                registered.add(ev[1])
                s.control_cb(rpc.CONTROL_PUBSUB, seams.wire(
                    {'cmd': 'register_raptor_queue',
                     'arg': {'name': ev[1], 'queue': QNAME[ev[1]],
                             'addr': 'mem://%s/put' % QNAME[ev[1]]}}))
            elif kind == 'unreg':
                registered.discard(ev[1])
                s.control_cb(rpc.CONTROL_PUBSUB, seams.wire(
                    {'cmd': 'unregister_raptor_queue',
                     'arg': {'name': ev[1], 'queue': QNAME[ev[1]]}}))
            elif kind == 'cancel':
                named.update(ev[1])
                backlog = set(t['uid'] for ts in s._raptor_tasks.values()
                                       for t in ts)
                must_cancel.update(u for u in ev[1] if u in backlog)
                s.control_cb(rpc.CONTROL_PUBSUB, seams.wire(
                    {'cmd': 'cancel_tasks', 'arg': {'uids': list(ev[1])}}))
            ev_reg.append((before, set(registered)))
            collect(i)
    except Exception as e:
        crashed = e
    finally:
        sbase.time = old_time

    def viol(clause, site, trig, what):
        part.violation('%s|%s|%s' % (clause, site, trig),
                       {'what': what, 'events': replay['events'],
                        'log': [list(x) for x in log]}, replay)

    if crashed is not None:
        import traceback
        tb = traceback.extract_tb(crashed.__traceback__)
        site = [f.name for f in tb if '/radical/pilot/' in f.filename]
        viol('handler-raises', 'AgentSchedulingComponent.%s'
             % (site[-1] if site else '?'), type(crashed).__name__,
             '%r during %s' % (crashed, evs[len(ev_reg)]))
        part.outcome(('b-forwarding', 'crash', type(crashed).__name__))
        return

    cached = dict()
    for name, tasks in s._raptor_tasks.items():
        for t in tasks:
            cached.setdefault(t['uid'], list()).append(name)
    waiting = set(u for pool in s._waitpool.values() for u in pool)
    queued  = set(t['uid'] for data, flag in s._queue_sched.items
                  if flag == s._SCHEDULE for t in data)

    obs = list()
    for uid, i_arr in sorted(arrived.items()):
        spec   = SCHED_TASKS[uid]
        rid    = spec.get('raptor_id')
        raptor = bool(rid) and not spec.get('_seen') and \
                 spec.get('mode') != rp.RAPTOR_WORKER
        mine   = [x for x in log if x[1] == uid]
        places = [x[2] for x in mine]
        if uid in waiting: places.append('waitpool')
        if uid in queued:  places.append('queued')
        places += ['cached'] * len(cached.get(uid, []))
        kind = 'raptor%s' % ('*' if rid == '*' else '') if raptor else \
               'seen' if spec.get('_seen') else \
               'worker' if spec.get('mode') == rp.RAPTOR_WORKER else 'plain'
        obs.append((uid, tuple(places)))

        # a cancelled local task is taken from the wait pool and published
        # CANCELED; a running one stays with the executor -- that is C08's
        # business.  Here: exactly one place.
        if len(places) != 1:
            viol('one-destination', 'AgentSchedulingComponent', '%s:%s'
                 % (kind, '+'.join(sorted(places)) or 'lost'),
                 'task %s (%s) is at %s after %s' % (uid, spec, places or
                                                     'no place at all', evs))
            continue
        place = places[0]
        if uid in must_cancel and place != 'canceled':
            viol('cancel-missed', 'AgentSchedulingComponent.control_cb',
                 '%s:%s' % (kind, place),
                 'task %s waited in the raptor backlog when a cancel request '
                 'named it, but it is %s' % (uid, place))
        if raptor:
            if place in ('local', 'waitpool'):
                viol('routing', 'AgentSchedulingComponent._schedule_incoming',
                     '%s:scheduled-locally' % kind,
                     'task %s with raptor_id %s was scheduled by the agent'
                     % (uid, rid))
            if place == 'forwarded':
                i, _, _, qname = mine[0]
                names = [k for k, v in QNAME.items() if v == qname]
                live  = ev_reg[i][0] | ev_reg[i][1]
                if not names or (rid != '*' and names[0] != rid) or \
                   names[0] not in live:
                    viol('routing', 'AgentSchedulingComponent', '%s:wrong-queue'
                         % kind, 'task %s for raptor %s was put on %s '
                         '(registered then: %s)' % (uid, rid, qname,
                                                    sorted(live)))
            if place == 'canceled' and uid not in named:
                viol('cancel-unrequested', 'AgentSchedulingComponent.control_cb',
                     kind, 'task %s was cancelled, the request named %s'
                     % (uid, sorted(named)))
            if place == 'failed':
                i = mine[0][0]
                ok = evs[i][0] == 'unreg' and evs[i][1] == rid and \
                     'raptor gone' in (mine[0][3] or '')
                if not ok:
                    viol('failed-unfounded', 'AgentSchedulingComponent', kind,
                         'task %s for raptor %s failed during %s: %s'
                         % (uid, rid, evs[i], mine[0][3]))
            if place == 'cached':
                stuck = (rid in registered) if rid != '*' else bool(registered)
                if stuck:
                    viol('never-forwarded', 'AgentSchedulingComponent',
                         kind, 'task %s waits for raptor %s although %s '
                         'is registered' % (uid, rid, sorted(registered)))
        else:
            if place in ('forwarded', 'cached', 'failed'):
                viol('routing', 'AgentSchedulingComponent._schedule_incoming',
                     '%s:%s' % (kind, place),
                     'task %s (%s) must be scheduled by the agent but is %s'
                     % (uid, kind, place))
            if place == 'canceled' and uid not in named:
                viol('cancel-unrequested',
                     'AgentSchedulingComponent._schedule_incoming', kind,
                     'task %s cancelled, named: %s' % (uid, sorted(named)))
    # tasks which never arrived must not show up anywhere
    for x in log:
        if x[1] not in arrived:
            viol('one-destination', 'AgentSchedulingComponent', 'phantom',
                 'task %s never arrived but: %s' % (x[1], x))
    if verbose:
        for i, ev in enumerate(evs):
            print('  %d %-28s %s' % (i, ev, [x[1:] for x in log if x[0] == i]))
        print('  end: cached %s waitpool %s' % (cached, sorted(waiting)))
    part.outcome(('b-forwarding', tuple(obs)))


def forwarding_sequences(quick):
    bulks = [['ta'], ['ta', 'tl'], ['tb', 'ts'], ['tc'], ['ta', 'tc', 'td'],
             ['tw', 'ta'], ['tc', 'tc2']]
    # 'tc2' is a second '*' task (round robin over two queues)
    SCHED_TASKS.setdefault('tc2', dict(SCHED_TASKS['tc']))
    ctrl  = [('reg', 'm1'), ('reg', 'm2'), ('unreg', 'm1'), ('unreg', 'm2'),
             ('cancel', ['ta']), ('cancel', ['tc', 'tl']), ('pass',)]
    depth = 3 if quick else 4
    seqs  = list()
    # one or two arrivals interleaved with up to `depth` control events
    arrivals = [[b] for b in bulks] + \
               [[a, b] for a, b in itertools.permutations(bulks[:5], 2)
                if not set(a) & set(b)]
    for arr in arrivals:
        for k in range(depth + 1):
            for cs in itertools.product(ctrl, repeat=k):
                # no event twice, except passes
                nop = [c for c in cs if c[0] != 'pass']
                if len(set(map(repr, nop))) != len(nop):
                    continue
                if len(arr) == 2 and k > depth - 1:
                    continue
                evs_c = list(cs)
                # all interleavings of the arrivals (in order) with cs
                n = len(evs_c) + len(arr)
                for pos in itertools.combinations(range(n), len(arr)):
                    seq, ai, ci = list(), 0, 0
                    for j in range(n):
                        if j in pos:
                            seq.append(('arrive', arr[ai])); ai += 1
                        else:
                            seq.append(evs_c[ci]); ci += 1
                    seqs.append(seq)
    return seqs


def backlog_cancel_sequences(quick):
    '''
    cancel requests naming every non-empty subset of three tasks which wait,
    next to each other, for the same raptor master (plus a `*` task and a
    task of another master as bystanders)
    '''
    bulk  = ['ta', 'ta2', 'ta3']
    subs  = [list(c) for k in (1, 2, 3)
                     for c in itertools.combinations(bulk, k)]
    ctrl  = [('reg', 'm1'), ('unreg', 'm1'), ('pass',)] + \
            [('cancel', sub) for sub in subs]
    seqs  = list()
    depth = 3 if quick else 4
    for arr in ([bulk], [bulk + ['tc', 'td']], [['ta'], ['ta2', 'ta3']],
                [['ta', 'tl'], ['ta2', 'ta3']]):
        for k in range(1, depth + 1):
            for cs in itertools.product(ctrl, repeat=k):
                if not any(c[0] == 'cancel' for c in cs):
                    continue
                if sum(1 for c in cs if c[0] == 'cancel') > 2:
                    continue
                n = len(cs) + len(arr)
                for pos in itertools.combinations(range(n), len(arr)):
                    if len(arr) == 2 and k == depth:
                        continue
                    seq, ai, ci = list(), 0, 0
                    for j in range(n):
                        if j in pos:
                            seq.append(('arrive', arr[ai])); ai += 1
                        else:
                            seq.append(cs[ci]); ci += 1
                    seqs.append(seq)
    return seqs


def _cancel_job(rng):
    lo, hi = rng
    part = report.Part()
    for seq in _cjobs[lo:hi]:
        run_forwarding(part, seq)
    part.cover(evaluations=hi - lo, raptor_backlog_cancel_sequences=hi - lo)
    return part.dump()


_cjobs = None


def run_backlog_cancel(ctx):
    '''C08 / C20: cancel requests against the scheduler's raptor backlog'''
    global _cjobs
    _cjobs = backlog_cancel_sequences(ctx.quick)
    chunk  = max(1, len(_cjobs) // (ctx.workers * 4))
    jobs   = [(lo, min(lo + chunk, len(_cjobs)))
              for lo in range(0, len(_cjobs), chunk)]
    for res in seams.pmap(_cancel_job, jobs, ctx.workers):
        ctx.merge(res)
    return len(_cjobs)


# ------------------------------------------------------------------------------
#
_jobs = None


def _job(rng):
    lo, hi = rng
    part = report.Part()
    cnt  = dict()
    for kind, args in _jobs[lo:hi]:
        if   kind == 'routing'  : run_routing(part, *args)
        elif kind == 'results'  : run_results(part, *args)
        elif kind == 'roundtrip': run_roundtrip(part, *args)
        elif kind == 'fwd'      : run_forwarding(part, args)
        cnt[kind] = cnt.get(kind, 0) + 1
    part.cover(evaluations=hi - lo,
               master_routing_cases=cnt.get('routing', 0),
               master_result_bulks=cnt.get('results', 0),
               master_roundtrips=cnt.get('roundtrip', 0),
               scheduler_forwarding_sequences=cnt.get('fwd', 0))
    if lo == 0:
        part.sample({'part': 'b', 'case': repr(_jobs[0])})
    return part.dump()


def cases(quick):
    out = list()
    kinds = list(MODE_DESCR)
    for entry in ENTRIES:
        for n in (1, 2, 3):
            for ks in itertools.product(kinds, repeat=n):
                if n == 3 and quick and len(set(ks)) < 2:
                    continue
                if n == 3 and entry != '_submit_tasks' and quick:
                    continue
                if entry == '_request_cb' and 'default' in ks:
                    # tasks from the scheduler always carry a mode
                    continue
                out.append(('routing', (entry, ks)))
    res_alpha = CODES + PRESET
    for n in (1, 2, 3):
        for cs in itertools.product(res_alpha, repeat=n):
            for raising in (False, True):
                if raising and n == 3:
                    continue
                out.append(('results', (list(cs), raising)))
    fl = ['function', 'eval', 'executable']
    for n in (1, 2, 3):
        for ks in itertools.product(fl, repeat=n) if n < 3 else \
                  [('function', 'executable', 'shell')]:
            for cs in itertools.product([0, 1, None], repeat=n):
                for order in itertools.permutations(range(n)):
                    for split in partitions(list(range(n))):
                        sizes = [len(b) for b in split]
                        for service in [None] + list(range(n)):
                            if service is not None and \
                               ks[service] == 'executable' and n > 1:
                                continue
                            out.append(('roundtrip', (ks, cs, list(order),
                                                      sizes, service)))
    for seq in forwarding_sequences(quick):
        out.append(('fwd', seq))
    return out


def run(ctx):
    global _jobs
    _jobs = cases(ctx.quick)
    chunk = max(1, len(_jobs) // (ctx.workers * 6))
    jobs  = [(lo, min(lo + chunk, len(_jobs)))
             for lo in range(0, len(_jobs), chunk)]
    for res in seams.pmap(_job, jobs, ctx.workers):
        ctx.merge(res)
    run_backlog_cancel(ctx)
    return len(_jobs)


def replay(ctx, r):
    part = report.Part()
    p = r['part']
    if p == 'b-routing':
        run_routing(part, r['entry'], tuple(r['kinds']), verbose=True)
    elif p == 'b-results':
        codes = [tuple(c) if isinstance(c, list) else c for c in r['codes']]
        run_results(part, codes, r['raising'], verbose=True)
    elif p == 'b-roundtrip':
        run_roundtrip(part, tuple(r['kinds']), tuple(r['codes']), r['order'],
                      r['split'], r['service'], verbose=True)
    elif p == 'b-forwarding':
        SCHED_TASKS.setdefault('tc2', dict(SCHED_TASKS['tc']))
        evs = [tuple(e) for e in r['events']]
        run_forwarding(part, evs, verbose=True)
    for k, (d, _) in part.violations.items():
        print('VIOLATED', k, '::', d['what'])
    return 1 if part.violations else 0
