'''
C07 -- The executor finishes each task exactly once (and C03 part 2: exactly
one unschedule publication per task; C08 part: cancel inside the executor).

Engine B (rpmc.sched): the real Popen executor methods run as real threads
under the controlled scheduler with line-level scheduling points:

  intake   : work_cb()  (real intake filter + work + _handle_task/_launch_task)
  watcher  : _watch()
  timeouts : _to_watcher()
  control  : _control_cb(cancel_tasks)
  env      : the task's process exits with a given code
  clock    : virtual time passes (timeout scenarios)

sp.Popen is a FakeProc whose exit is an environment step; os.killpg in the
launch method kills it.  All schedules up to a preemption bound are explored.
'''

import os
import collections
import sys
import copy
import queue
import types
import signal

from rpmc import seams, net, report, sched as rs

rp = seams.import_rp()

import radical.utils as ru                                         # noqa: E402
from radical.pilot import states    as rps                         # noqa: E402
from radical.pilot import constants as rpc                         # noqa: E402
from radical.pilot.utils import component as comp_mod              # noqa: E402
from radical.pilot.agent.executing import popen as popen_mod       # noqa: E402
from radical.pilot.agent.executing import base  as exec_base       # noqa: E402
from radical.pilot.agent.launch_method import base as lm_base      # noqa: E402
from radical.pilot.agent.launch_method.fork import Fork            # noqa: E402

# importing popen.py installs SIGTERM/SIGINT handlers which do not exit:
# restore the defaults so that pool workers can be terminated
signal.signal(signal.SIGTERM, signal.SIG_DFL)
signal.signal(signal.SIGINT,  signal.default_int_handler)

Popen = popen_mod.Popen

# line-level scheduling points: the functions which touch state shared between
# the executor's threads (_tasks, task['proc'], _to_tasks, _cancel_list).
# Everything else yields at synchronisation operations only (locks, sleeps,
# poll points, process wait).
TRACED = [Popen.cancel_task, Popen.work, Popen._launch_task,
          Popen._check_running,
          exec_base.AgentExecutingComponent.control_cb,
          exec_base.AgentExecutingComponent._to_watcher,
          exec_base.AgentExecutingComponent.handle_timeout,
          comp_mod.BaseComponent.is_canceled]
TRACED_CODES = set(f.__code__ for f in TRACED)
_GUARDED = None


# ------------------------------------------------------------------------------
#
class FakeProc(object):

    procs = dict()
    next_pid = [4000]

    def __init__(self, world, uid):
        self.world = world
        self.uid   = uid
        self.pid   = FakeProc.next_pid[0]
        FakeProc.next_pid[0] += 1
        self.code  = None
        self.dying = None
        self.collected = 0
        FakeProc.procs[self.pid] = self

    def poll(self):
        return self.code

    def wait(self, timeout=None):
        w = self.world
        if timeout is None:
            w.sched.block_until(lambda: self.code is not None)
        else:
            # a bounded wait: the process ends in time, or the environment
            # lets the time run out first
            w.bounded_waits += 1
            w.sched.bump(force=True)
            w.sched.block_until(lambda: self.code is not None
                                        or w.patience_over)
            if self.uid in w.timed_out:
                # the time limit passed while the process was alive (it may
                # be gone by the time this thread runs again)
                import subprocess
                raise subprocess.TimeoutExpired('fake', timeout)
        self.collected += 1
        return self.code

    def exit(self, code):
        if self.code is None:
            self.code = code
            self.world.sched.bump(force=True)
            return True
        return False


OUTCOME_KEYS = ('target_state', 'exit_code', 'exception', 'exception_detail')


class OwnedTask(dict):
    '''task dict which records who writes the outcome fields'''

    world = None

    def __setitem__(self, k, v):
        w = OwnedTask.world
        if w is not None and k in OUTCOME_KEYS:
            me = w.sched.me()
            lock = getattr(w.c, '_check_lock', None)
            w.writes.append((self.get('uid'), k, v, me.name if me else None,
                             w.removed_by.get(self.get('uid')),
                             getattr(lock, 'owner', None) is me))
        dict.__setitem__(self, k, v)


class TaskRegistry(dict):
    '''the executor's `_tasks`: records which thread takes a task out'''

    world = None

    def _note(self, uid):
        w = TaskRegistry.world
        if w is not None and uid in self:
            me = w.sched.me()
            w.removed_by.setdefault(uid, me.name if me else None)

    def __delitem__(self, uid):
        self._note(uid)
        dict.__delitem__(self, uid)

    def pop(self, uid, *default):
        self._note(uid)
        return dict.pop(self, uid, *default)


class GuardedList(list):
    '''`_to_tasks`: changes are recorded with the lock state of the writer'''

    world = None

    def _note(self, op):
        w = GuardedList.world
        if w is not None:
            me   = w.sched.me()
            lock = getattr(w.c, '_to_lock', None)
            w.to_writes.append((op, me.name if me else None,
                                getattr(lock, 'owner', None) is me))

    def append(self, x):
        self._note('append')
        list.append(self, x)

    def extend(self, x):
        self._note('extend')
        list.extend(self, x)

    def clear(self):
        self._note('clear')
        list.clear(self)

    def __delitem__(self, i):
        self._note('del')
        list.__delitem__(self, i)


def guarded_popen(cls):
    '''subclass whose `_to_tasks` attribute records re-bindings'''

    class Guarded(cls):

        @property
        def _to_tasks(self):
            return self.__dict__['_to_tasks_']

        @_to_tasks.setter
        def _to_tasks(self, val):
            g = GuardedList(val)
            if '_to_tasks_' in self.__dict__:
                g._note('rebind')
            self.__dict__['_to_tasks_'] = g
    Guarded.__name__ = cls.__name__
    Guarded.__qualname__ = cls.__qualname__
    Guarded.__module__ = cls.__module__
    return Guarded


class FakeSP(object):
    STDOUT = -2
    PIPE   = -1

    def __getattr__(self, name):
        import subprocess
        return getattr(subprocess, name)

    def __init__(self, world):
        self.world = world

    def Popen(self, args=None, **kw):
        w   = self.world
        uid = os.path.basename(str(args)).split('.launch')[0]
        if w.scn.get('fault') == 'popen' and uid == w.scn.get('fault_uid', 't1'):
            raise OSError('exec format error (injected)')
        p = FakeProc(w, uid)
        if w.scn.get('instant_exit'):
            # a very short task: the process is gone when Popen() returns
            i = int(uid[1:]) - 1
            p.code = w.scn['exit_codes'][i] or 0
        w.procs[uid] = p
        return p


class FakeOS(object):
    '''`os` of launch_method/base.py: killpg hits the fake processes'''

    def __getattr__(self, name):
        return getattr(os, name)

    def killpg(self, pid, sig):
        p = FakeProc.procs.get(pid)
        if p is None or p.code is not None:
            raise OSError('no such process')
        if p.world.scn.get('slow_death'):
            # the signal is delivered, the process goes away a little later
            # (uninterruptible I/O, a full process table, ...)
            if p.dying is None:
                p.dying = -int(sig)
                p.world.sched.bump(force=True)
            return
        p.exit(-int(sig))


class FakeRM(object):

    def __init__(self, world, launcher):
        self.world    = world
        self.launcher = launcher

    def find_launcher(self, task):
        if self.world.scn.get('fault') == 'nolauncher' and \
           task['uid'] == self.world.scn.get('fault_uid', 't1'):
            return None, None
        return self.launcher, 'FORK'

    def get_launcher(self, name):
        return self.launcher


class FakeSess(object):
    uid  = 'session.verif'
    rcfg = ru.Config(from_dict={'new_session_per_task': True})
    cfg  = ru.Config(from_dict={})


def make_task(uid, sbox, timeout=0.0, startup_timeout=0.0):
    td = rp.TaskDescription({'executable': '/bin/true', 'uid': uid,
                             'timeout': timeout,
                             'startup_timeout': startup_timeout})
    td.verify()
    return {'uid': uid, 'type': 'task', 'origin': 'client',
            'state': rps.AGENT_EXECUTING_PENDING,
            'description': td.as_dict(),
            'task_sandbox_path': sbox, 'task_sandbox': 'file://localhost' + sbox,
            'slots': [{'node_name': 'n0', 'node_index': 0, 'version': 1,
                       'cores': [{'index': int(uid[1:]), 'occupation': 1.0}],
                       'gpus': [], 'lfs': 0, 'mem': 0}],
            'partition': None, 'pilot': 'pilot.0000', 'resources': {}}


# ------------------------------------------------------------------------------
#
class World(object):

    def __init__(self, scn, prefix, sbox):
        self.scn   = scn
        self.sched = rs.Sched(prefix, traced=TRACED_CODES)
        self.procs = dict()
        FakeProc.procs = dict()
        FakeProc.next_pid[0] = 4000
        popen_mod._pids[:] = []

        net.install()
        self.net = net.Net().activate()
        net.bridges(self.net.reg,
                    queues =[rpc.AGENT_EXECUTING_QUEUE,
                             rpc.AGENT_STAGING_OUTPUT_QUEUE],
                    pubsubs=[rpc.STATE_PUBSUB, rpc.CONTROL_PUBSUB,
                             rpc.AGENT_UNSCHEDULE_PUBSUB])

        s = self.sched
        lm = Fork.__new__(Fork)
        lm._log  = seams.null()
        lm._prof = seams.null()
        lm.name  = 'FORK'

        c = seams.bare(Popen, uid='agent_executing.0000',
                       cancel_lock=rs.CLock(s, 'cancel', reentrant=True))
        c._session     = FakeSess()
        c._reg         = self.net.reg
        c._rm          = FakeRM(self, lm)
        c._tasks       = TaskRegistry()
        self.writes     = list()
        self.removed_by = dict()
        OwnedTask.world = TaskRegistry.world = self
        c._check_lock  = rs.CLock(s, 'check')
        c._watch_queue = queue.Queue()
        self.to_writes = list()
        GuardedList.world = self
        c.__class__    = _GUARDED
        c._to_lock     = rs.CLock(s, 'to')
        c._to_tasks    = list()
        c._term        = rs.CEvent(s)
        c.register_publisher(rpc.STATE_PUBSUB)
        c.register_publisher(rpc.CONTROL_PUBSUB)
        c.register_publisher(rpc.AGENT_UNSCHEDULE_PUBSUB)
        c.register_input(rps.AGENT_EXECUTING_PENDING,
                         rpc.AGENT_EXECUTING_QUEUE,
                         lambda tasks: c.work([OwnedTask(t) for t in tasks]))
        c.register_output(rps.AGENT_STAGING_OUTPUT_PENDING,
                          rpc.AGENT_STAGING_OUTPUT_QUEUE)

        def mk_script(kind):
            def create(launcher, task, *a):
                if scn.get('fault') == kind and \
                   task['uid'] == scn.get('fault_uid', 't1'):
                    raise RuntimeError('cannot write %s script (injected)'
                                       % kind)
                p = '%s/%s.%s.sh' % (task['task_sandbox_path'], task['uid'],
                                     kind)
                return p, p
            return create
        self.timeout_armed = False
        self.n_armed = 0
        real_handle_timeout = c.handle_timeout

        def handle_timeout(task):
            real_handle_timeout(task)
            if task['description'].get('timeout') or \
               task['description'].get('startup_timeout'):
                self.n_armed += 1
                want = scn['n_tasks'] if scn.get('timeout_all') else 1
                if self.n_armed >= want:
                    self.timeout_armed = True
        c.handle_timeout = handle_timeout

        c._create_exec_script   = mk_script('exec')
        c._create_launch_script = mk_script('launch')
        self.c = c

        self.tasks = [make_task('t%d' % (i + 1), sbox,
                                timeout=scn.get('timeout', 0.0)
                                if (i == 0 or scn.get('timeout_all'))
                                else 0.0,
                                startup_timeout=scn.get('startup', 0.0)
                                if i == 0 else 0.0)
                      for i in range(scn['n_tasks'])]
        self.started_up = False
        self.bounded_waits = 0
        self.patience_over = False
        self.timed_out = set()
        self.cancel_uids = list(scn.get('cancel') or [])

    # ----------------------------------------------------------------------
    def threads(self):
        s, c, scn = self.sched, self.c, self.scn
        intake = ru.zmq.Putter(rpc.AGENT_EXECUTING_QUEUE)

        def t_intake():
            if scn.get('cancel_first'):
                # the cancel request reaches this component before the tasks
                c._control_cb(rpc.CONTROL_PUBSUB, self.cancel_msg())
            for bulk in scn['bulks']:
                intake.put([copy.deepcopy(self.tasks[i]) for i in bulk])
                c.work_cb()

        def t_control():
            c._control_cb(rpc.CONTROL_PUBSUB, self.cancel_msg())

        def mk_exit(uid, code):
            def t_exit():
                s.block_until(lambda: uid in self.procs)
                s.yield_point()
                self.procs[uid].exit(code)
            return t_exit

        def mk_reaper(uid):
            def t_reaper():
                s.block_until(lambda: uid in self.procs and
                                      self.procs[uid].dying is not None)
                s.yield_point()
                self.procs[uid].exit(self.procs[uid].dying)
            return t_reaper

        def t_impatient():
            # time runs out for whoever waits with a time limit
            s.block_until(lambda: self.bounded_waits > 0)
            s.yield_point()
            self.timed_out = set(u for u, p in self.procs.items()
                                 if p.code is None)
            self.patience_over = True
            s.bump(force=True)

        def t_startup():
            # the task reports that it started up in time
            s.block_until(lambda: 't1' in self.procs)
            s.yield_point()
            c._control_cb(rpc.CONTROL_PUBSUB, seams.wire(
                {'cmd': 'task_startup_done', 'arg': {'uid': 't1'}}))
            self.started_up = True
            s.bump(force=True)

        def t_clock():
            # time passes once the run-time limit of the timed task is armed
            # (and, for startup limits, once the task reported its start-up)
            s.block_until(lambda: self.timeout_armed)
            if scn.get('startup'):
                s.block_until(lambda: self.started_up)
            for _ in range(scn.get('ticks', 2)):
                s.yield_point()
                s.now += 1.1
                s.bump(force=True)

        s.spawn('intake',  t_intake)
        s.spawn('watcher', c._watch, poller=True)
        if scn.get('timeout') or scn.get('startup'):
            s.spawn('timeouts', c._to_watcher, poller=True)
            s.spawn('clock', t_clock).daemon = True
        if scn.get('startup'):
            s.spawn('startup', t_startup).daemon = True
        if scn.get('slow_death'):
            for i in range(scn['n_tasks']):
                s.spawn('reaper.t%d' % (i + 1),
                        mk_reaper('t%d' % (i + 1))).daemon = True
            s.spawn('impatient', t_impatient).daemon = True
        if self.cancel_uids and not scn.get('cancel_first'):
            s.spawn('control', t_control)
        for i, code in enumerate(scn['exit_codes']):
            if code is not None:
                t = s.spawn('exit.t%d' % (i + 1), mk_exit('t%d' % (i + 1), code))
                t.daemon = True

    def cancel_msg(self):
        return seams.wire({'cmd': 'cancel_tasks',
                           'arg': {'uids': list(self.cancel_uids)}})

    # ----------------------------------------------------------------------
    def run(self):
        s, c = self.sched, self.c
        olds = (popen_mod.time, popen_mod.sp, exec_base.time, lm_base.time,
                lm_base.os, comp_mod.time)
        popen_mod.time = exec_base.time = lm_base.time = comp_mod.time = \
            rs.CTime(s)
        popen_mod.sp   = FakeSP(self)
        lm_base.os     = FakeOS()
        state = {'term': False}

        def on_quiescent(sched):
            workers = [t for t in sched.threads
                       if not t.poller and not t.daemon and t.state != rs.DONE]
            if workers:
                return False                 # genuinely stuck
            if not state['term']:
                state['term'] = True
                c._term.flag  = True
                sched.changed += 1
                return True
            return False

        s.on_quiescent = on_quiescent
        try:
            self.threads()
            self.end = s.run()
        finally:
            (popen_mod.time, popen_mod.sp, exec_base.time, lm_base.time,
             lm_base.os, comp_mod.time) = olds
        return self


# ------------------------------------------------------------------------------
#
def judge(part, w):
    scn, s, c = w.scn, w.sched, w.c
    replay = {'scenario': scn['name'], 'schedule': list(s.choices)}
    fault  = scn.get('fault')
    names  = {t.tid: t.name for t in s.threads}

    def viol(prop, clause, site, trig, what):
        part.violation('%s#%s|%s|%s' % (prop, clause, site, trig),
                       {'what': what, 'scenario': scn['name'],
                        'schedule': [names[x] for x in s.choices][-40:],
                        'preemptions': s.preemptions()}, replay)

    kind = scn['kind']
    if w.end == 'deadlock':
        stuck = [(t.name, t.where) for t in s.threads
                 if t.state not in (rs.DONE,) and not t.daemon]
        viol('C07', 'deadlock', 'Popen', kind, 'threads stuck: %s' % stuck)
    if w.end == 'steps':
        viol('C07', 'livelock', 'Popen', kind, 'step limit hit')
    for t in s.threads:
        if t.exc is not None:
            viol('C07', 'thread-died', t.name,
                 '%s:%s' % (kind, type(t.exc).__name__),
                 'thread %s died with %r' % (t.name, t.exc))

    # the watcher decides a task's outcome only once it has taken the task out
    # of the registry itself (under the lock it shares with the cancel path):
    # an outcome written for a task which another thread took over, or which
    # nobody has taken yet, races with that thread's own verdict
    for uid, key, val, who, remover, locked in w.writes:
        if who == 'watcher' and remover != 'watcher' and \
           not (remover is None and locked):
            for prop in ('C07', 'C08', 'C05'):
                viol(prop, 'outcome-written-unowned', 'Popen._check_running',
                     '%s:%s' % (kind, key),
                     'watcher sets %s=%r on %s, which %s'
                     % (key, val, uid, 'was taken over by %s' % remover
                        if remover else 'is still registered'))
            break

    # the list of registered run-time limits is shared by the intake, control
    # and timeout threads: it is changed only under its lock (a change outside
    # loses a registration made at that moment, the task then runs on for ever)
    for op, who, locked in w.to_writes:
        if not locked and who is not None:
            viol('C07', 'limit-list-unlocked', '_to_tasks', '%s:%s' % (kind, op),
                 'thread %s changes the list of run-time limits (%s) without '
                 'holding _to_lock' % (who, op))
            break

    # observation log per uid
    obs = {t['uid']: {'exec': 0, 'push': [], 'final': [], 'unsched': 0,
                      'order': []} for t in w.tasks}
    for ch, _, msg in w.net.pub_log:
        if ch == rpc.STATE_PUBSUB and msg.get('cmd') == 'update':
            for t in msg['arg']:
                o = obs.get(t['uid'])
                if o is None:
                    continue
                if t['state'] == rps.AGENT_EXECUTING:
                    o['exec'] += 1
                    o['order'].append('exec')
                elif t['state'] in (rps.FAILED, rps.CANCELED):
                    o['final'].append(t['state'])
                    o['order'].append(t['state'])
        elif ch == rpc.AGENT_UNSCHEDULE_PUBSUB:
            for t in ru.as_list(msg):
                if t['uid'] in obs:
                    obs[t['uid']]['unsched'] += 1
    for qname, things in w.net.q_log:
        if qname == rpc.AGENT_STAGING_OUTPUT_QUEUE:
            for t in things:
                if t['uid'] in obs:
                    obs[t['uid']]['push'].append((t.get('target_state'),
                                                  t.get('exit_code')))
                    obs[t['uid']]['order'].append('push')

    for i, t in enumerate(w.tasks):
        uid  = t['uid']
        o    = obs[uid]
        code = scn['exit_codes'][i]
        named     = uid in w.cancel_uids
        timed     = bool(scn.get('timeout')) and \
                    (i == 0 or bool(scn.get('timeout_all')))
        faulty    = bool(fault) and uid == scn.get('fault_uid', 't1')
        dropped   = o['exec'] == 0       # filtered at intake
        hand_ons  = len(o['push']) + len(o['final'])
        trig      = '%s:%s' % (kind, 'named' if named else
                               'timed' if timed else
                               'faulty' if faulty else 'bystander')

        if o['exec'] > 1:
            viol('C07', 'announced-twice', 'Popen.work', trig,
                 '%s: AGENT_EXECUTING announced %d times' % (uid, o['exec']))
        if o['order'] and o['exec'] and o['order'][0] != 'exec':
            viol('C07', 'announce-order', 'Popen.work', trig,
                 '%s: %s' % (uid, o['order']))

        if dropped:
            # not accepted by the executor: handed back by the intake filter
            if not named:
                viol('C08', 'bystander-dropped', 'BaseComponent.work_cb', trig,
                     '%s was dropped at intake without a cancel request' % uid)
            if o['final'] != [rps.CANCELED] or o['push']:
                viol('C08', 'intake-cancel-handback', 'BaseComponent.work_cb',
                     trig, '%s: %s %s' % (uid, o['final'], o['push']))
            if o['unsched'] != 1:
                viol('C03', 'unschedule-count', 'BaseComponent.work_cb',
                     '%s:n=%d' % (trig, o['unsched']),
                     '%s cancelled at executor intake: %d unschedule '
                     'publications, it holds slots' % (uid, o['unsched']))
            continue

        if hand_ons != 1:
            # (C05: every task reaches exactly one final state - each hand-on
            # becomes a final state on the client)
            for prop in ('C07', 'C05', 'C08') if named else ('C07', 'C05'):
                viol(prop, 'hand-on-count', 'Popen',
                     '%s:push=%d:final=%s' % (trig, len(o['push']),
                                              '+'.join(o['final']) or '-'),
                     '%s handed on %d times: pushes %s, finals %s'
                     % (uid, hand_ons, o['push'], o['final']))
        if named and len(o['push']) == 1 and not o['final']:
            # a named task ends CANCELED unless its process finished by itself
            tgt, ec = o['push'][0]
            p0 = w.procs.get(uid)
            natural = p0 is not None and code is not None and p0.code == code
            if tgt != rps.CANCELED and not (natural and tgt ==
                    (rps.DONE if code == 0 else rps.FAILED)):
                viol('C08', 'named-outcome', 'Popen.cancel_task', trig,
                     '%s: cancel requested, handed on as %s (exit %s), '
                     'process ended with %s' % (uid, tgt, ec,
                                                p0.code if p0 else None))
        if o['unsched'] > 1:
            viol('C01', 'released-twice', 'Popen', trig,
                 '%s: %d unschedule publications: the second frees resources '
                 'the scheduler may have granted again' % (uid, o['unsched']))
        if o['unsched'] != 1:
            for prop in ('C07', 'C03', 'C08') if named else ('C07', 'C03'):
                viol(prop, 'unschedule-count', 'Popen',
                     '%s:n=%d' % (trig, o['unsched']),
                     '%s: %d unschedule publications' % (uid, o['unsched']))

        p = w.procs.get(uid)
        if p is not None and p.collected > 2:
            viol('C07', 'collected-often', 'Popen', trig,
                 '%s: process waited for %d times' % (uid, p.collected))

        for tgt, ec in o['push']:
            if tgt == rps.CANCELED and not (named or timed):
                for prop in ('C08', 'C05', 'C07'):
                    viol(prop, 'canceled-unrequested', 'Popen.cancel_task',
                         trig, '%s pushed as CANCELED without cancel request '
                               'or expired limit' % uid)
            if tgt == rps.DONE and ec != 0:
                viol('C07', 'outcome', 'Popen._check_running', trig,
                     '%s DONE with exit code %s' % (uid, ec))
            if tgt == rps.FAILED and ec in (0, None):
                viol('C07', 'outcome', 'Popen._check_running', trig,
                     '%s FAILED with exit code %s' % (uid, ec))
            if tgt not in (rps.DONE, rps.FAILED, rps.CANCELED):
                viol('C07', 'outcome-missing', 'Popen', trig,
                     '%s pushed without target_state (%s)' % (uid, tgt))
            if tgt in (rps.DONE, rps.FAILED) and code is not None and \
               p is not None and p.code != ec:
                viol('C07', 'outcome', 'Popen._check_running', trig,
                     '%s reports exit code %s, process had %s'
                     % (uid, ec, p.code))
        for f in o['final']:
            if f == rps.CANCELED and not (named or timed):
                viol('C08', 'canceled-unrequested', 'Popen', trig,
                     '%s CANCELED without request' % uid)
            if f == rps.FAILED and not faulty:
                viol('C07', 'failed-without-fault', 'Popen.work', trig,
                     '%s FAILED by the executor without launch error' % uid)

        # bystanders are unaffected by cancel / timeout of another task
        if not (named or timed or faulty) and code is not None:
            want = [(rps.DONE if code == 0 else rps.FAILED, code)]
            if o['push'] != want:
                viol('C08', 'bystander-changed', 'Popen', trig,
                     '%s: pushes %s, expected %s' % (uid, o['push'], want))

        if uid in c._tasks and not faulty:
            viol('C07', 'left-behind', 'Popen._tasks', trig,
                 '%s still owned by the executor at quiescence' % uid)

    out = (scn['name'],
           tuple(sorted((u, o['exec'], tuple(o['push']),
                         tuple(o['final']), o['unsched'])
                        for u, o in obs.items())))
    part.outcome(out)
    return out


# ------------------------------------------------------------------------------
#
def scenarios(quick):
    out = list()

    def add(kind, n_tasks=1, codes=(0,), bulks=None, **kw):
        name = '%s/n%d/%s%s' % (kind, n_tasks,
                                ','.join(str(c) for c in codes),
                                ''.join('/%s=%s' % (k, v)
                                        for k, v in sorted(kw.items())))
        scn = {'name': name, 'kind': kind, 'n_tasks': n_tasks,
               'exit_codes': list(codes),
               'bulks': bulks or [list(range(n_tasks))]}
        scn.update(kw)
        out.append(scn)

    for code in (0, 1):
        add('exit', 1, (code,))
        add('cancel', 1, (code,), cancel=['t1'])
        add('timeout', 1, (code,), timeout=1.0, ticks=2)
        add('cancel+timeout', 1, (code,), cancel=['t1'], timeout=1.0, ticks=2)
        add('cancel-first', 1, (code,), cancel=['t1'], cancel_first=True)
    for code in (0, 1):
        # very short tasks: the process has exited when it is spawned
        add('exit', 1, (code,), instant_exit=True)
        add('cancel', 1, (code,), cancel=['t1'], instant_exit=True)
        add('timeout', 1, (code,), timeout=1.0, ticks=2, instant_exit=True)
    add('cancel', 2, (0, 0), cancel=['t1'], instant_exit=True)
    # both tasks have a run-time limit and depend on it to end
    add('timeout', 2, (None, None), timeout=1.0, ticks=2, timeout_all=True)
    add('timeout', 2, (None, None), timeout=1.0, ticks=2, timeout_all=True,
        bulks=[[0], [1]])
    # a process which takes its time to die after the kill
    add('cancel', 1, (None,), cancel=['t1'], slow_death=True)
    add('cancel', 2, (None, 0), cancel=['t1'], slow_death=True)
    add('timeout', 1, (None,), timeout=1.0, ticks=2, slow_death=True)
    # a start-up limit which the task meets: it runs on without any limit
    add('startup', 1, (0,), startup=1.0, ticks=2)
    add('startup', 1, (1,), startup=1.0, ticks=2)
    add('startup', 2, (0, 0), startup=1.0, ticks=2)
    # ... and with a run-time limit which then applies
    add('startup+timeout', 1, (None,), startup=1.0, timeout=1.0, ticks=3)
    add('cancel', 1, (None,), cancel=['t1'])
    add('timeout', 1, (None,), timeout=1.0, ticks=2)
    for fault in ('exec', 'launch', 'popen', 'nolauncher'):
        add('fault-' + fault, 1, (0,), fault=fault)
        add('fault-' + fault, 2, (0, 0), fault=fault)
        add('fault-' + fault + '+cancel', 1, (0,), fault=fault, cancel=['t1'])
    # two tasks: named + bystander
    add('exit', 2, (0, 1))
    add('cancel', 2, (0, 0), cancel=['t1'])
    add('cancel', 2, (None, 1), cancel=['t1'])
    add('cancel', 2, (0, 0), cancel=['t2'])
    add('cancel-first', 2, (0, 0), cancel=['t1'], cancel_first=True)
    add('cancel', 2, (0, 0), cancel=['t1'], bulks=[[0], [1]])
    add('timeout', 2, (None, 0), timeout=1.0, ticks=2)
    return out


_scns  = None
_bound = None
_sbox  = None


def run_one(scn, prefix):
    w = World(scn, prefix, _sbox)
    w.run()
    return w.sched, w


def _job(arg):
    """
    arg = (scenario index, None): run the default schedule, judge it, return
          the roots of the (disjoint) subtrees below it
    arg = (scenario index, [prefixes], cap): explore those subtrees
    """
    global _sbox
    i, roots, cap = arg
    part = report.Part()
    scn  = _scns[i]
    bound = scn.get('bound', _bound)
    _sbox = os.path.join(os.environ.get('RPMC_SCRATCH', '/tmp'),
                         'sbox.%d' % os.getpid())
    os.makedirs(_sbox, exist_ok=True)
    n = 0
    checked_det = False
    kids = None
    try:
        if roots is None:
            sch, w = run_one(scn, [])
            n += 1
            judge(part, w)
            kids = rs.children(sch, [], bound)
            it = ()
        else:
            it = rs.explore(lambda p: run_one(scn, p), bound, max_exec=cap,
                            roots=roots)
        for sch, w in it:
            if sch is None:
                part.cap('scenario %s: execution cap hit, %d schedules left '
                         'at preemption bound %d' % (scn['name'], w, bound))
                break
            n += 1
            n_viol = part.nviol
            out = judge(part, w)
            if part.nviol > n_viol and not checked_det:
                # determinism guard: the recorded schedule must reproduce the
                # same observation before any failure is trusted
                checked_det = True
                sch2, w2 = run_one(scn, list(sch.choices))
                out2 = judge(report.Part(), w2)
                if out2 != out or sch2.choices != sch.choices:
                    raise rs.Divergence('schedule %s of %s does not replay: '
                                        '%s vs %s' % (sch.choices, scn['name'],
                                                      out, out2))
    except rs.Divergence as e:
        part.violation('HARNESS#divergence|%s' % scn['name'], repr(e), None)
    part.cover(executions=n, states=n, transitions=n,
               scenarios=1 if roots is None else 0,
               traces_validated_against_impl=n)
    res = part.dump()
    res['kids'] = kids
    res['scn']  = i
    return res


def run_exec(ctx, pid):
    global _scns, _bound
    _scns  = scenarios(ctx.quick)
    _bound = 1 if ctx.quick else 2
    cap    = 6000 if ctx.quick else 400000
    for s in _scns:
        s['max_exec'] = cap
        if pid != 'C07' and not ctx.quick and s['n_tasks'] > 1:
            # the companion properties read other clauses off the same
            # executions; the two-task scenarios at bound 2 are C07's
            s['bound'] = 1
    errs  = list()
    count = collections.Counter()

    def take(res):
        keep = list()
        for key, detail, replay in res['violations']:
            prop, rest = key.split('#', 1)
            if prop == 'HARNESS':
                errs.append((rest, detail))
            elif prop == pid:
                keep.append((rest, detail, replay))
        res['violations']  = keep
        res['nviol_extra'] = 0
        count[res['scn']] += res.get('cover', {}).get('executions', 0)
        ctx.merge(res)

    # pass 1: the default schedule of every scenario; pass 2: the subtrees
    # below it, spread over the workers
    jobs = list()
    for res in seams.pmap(_job, [(i, None, None)
                                 for i in range(len(_scns))], ctx.workers):
        kids = res.pop('kids')
        i    = res['scn']
        take(res)
        per  = max(1, len(kids) // (12 if ctx.quick else 48))
        chunks = [kids[k:k + per] for k in range(0, len(kids), per)]
        for ch in chunks:
            jobs.append((i, ch, cap if not ctx.quick
                                else max(1, _scns[i]['max_exec']
                                            // len(chunks))))
    # big subtrees (early deviations) first
    jobs.sort(key=lambda j: -len(j[1][0]) if j[1] else 0)
    for res in seams.pmap(_job, jobs, ctx.workers):
        res.pop('kids')
        take(res)
    for i in sorted(count)[::7]:
        ctx.sample({'scenario': _scns[i]['name'], 'schedules': count[i],
                    'preemption_bound': _scns[i].get('bound', _bound)},
                   limit=8)
    if errs:
        raise RuntimeError('harness errors: %s' % errs[:3])
    ctx.set(preemption_bound=_bound)
    ctx.assume('line-level (not byte-code-level) interleavings of the listed '
               'executor functions; advance()/publish() are atomic',
               'a killed process dies at once; its natural exit is an '
               'environment step at any point',
               'virtual time moves only through the clock thread (2 ticks of '
               '1.1 s)')


def run(ctx):
    ctx.level = 'model_checking'
    run_exec(ctx, ctx.pid)
    from checks import c07_noop
    c07_noop.run_noop(ctx)
    ctx.set(rule='every schedule of the executor threads with at most the '
                 'stated number of preemptions, per scenario (exit / cancel / '
                 'timeout / launch faults / cancel before intake x exit codes '
                 'x 1-2 tasks); states = complete executions')
    ctx.set(distinct_nontrivial=len(ctx.outcomes))


def replay(ctx, data):
    global _sbox
    r = data['replay']
    if r.get('noop'):
        from checks import c07_noop
        return c07_noop.replay_noop(r)
    scn = [s for s in scenarios(True) if s['name'] == r['scenario']][0]
    _sbox = os.path.join(ctx.scratch, 'sbox')
    os.makedirs(_sbox, exist_ok=True)
    part = report.Part()
    sch, w = run_one(scn, r['schedule'])
    judge(part, w)
    names = {t.tid: t.name for t in sch.threads}
    print('schedule:', [names[x] for x in sch.choices])
    print('end     :', w.end)
    for k, (d, _) in part.violations.items():
        print('VIOLATED', k, d['what'])
    return 1 if part.violations else 0


_GUARDED = guarded_popen(Popen)
