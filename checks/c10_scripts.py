'''
C10 -- The generated task scripts run what the user described.

Engine C (DESIGN.md 3.3): exhaustive enumeration of a bounded alphabet of task
descriptions, real script generation, real `bash`, independent reference.

Harness
-------
* one `World` per worker process: a temp tree with resource / session / pilot
  sandbox, stub `prof` / `gtod` (links to `true`), launcher env files, a probe
  executable (several copies: absolute, in $PATH, in the task sandbox, in a
  unicode directory, in the pilot sandbox) and a stand-in `mpirun`;
* a bare `Popen` executor whose real `initialize()` runs against a stub
  session (threads end at once: `_term` is set), a bare `ResourceManager` with
  a bare `Fork` and a bare `MPIRun` launcher; the launcher is picked by the
  real `find_launcher` / `can_launch`;
* per case the description goes through the real `TaskDescription.verify()`
  and msgpack, then the real `Popen._handle_task()` writes `<uid>.exec.sh` /
  `<uid>.launch.sh` and starts the launch script with the real
  `_launch_task()` (`subprocess.Popen`); the harness only waits for it.
  Variant `start=script`: the harness starts the generated launch script
  itself from another directory (the property is about the scripts: they,
  not the caller's cwd, have to reach the task sandbox);
* the harness plays `mpirun`: `-np N ... <exec.sh>` runs the generated exec
  script N times concurrently with PMIX_RANK=i, waits for all and returns the
  first non-zero status;
* the probe (`/bin/sh`) dumps $0, argv (NUL separated), the environment
  (`env -0`) and the physical cwd into the observation directory (whose path
  is baked into the probe -- nothing under test is used to find it), appends
  `<rank>:exec` to the marker file, prints `OUT:<rank>` / `ERR:<rank>` and
  exits with a chosen code; `<rank>` is PMIX_RANK as set by the stand-in
  mpirun (0 without);
* pre/post commands are symbolic in the case (`mark:T`, `true`, `false`,
  `export:K=V`) and rendered to shell: a mark appends `<rank>:<sig>:T` to the
  marker file;
* `radical-pilot-control` ($RP_CTRL, found by the real `initialize()` through
  $PATH) is a stand-in which records `<rank> <args>`: with a non-zero
  `startup_timeout` the exec script reports the start-up -- once, by rank 0;
* launchers: FORK with 1 rank, MPIRUN with 2 and 3 ranks (thorough: also 1).
  Wherever the exec script switches on $RP_RANK (per-rank pre_exec /
  post_exec dicts, CUDA_VISIBLE_DEVICES of the slots) there are 3-rank
  inputs whose first and last rank agree while the middle one differs, plus
  first == middle, middle == last, all equal and lists of different length
  for the GPU ids (`GPU_MAP`).

Reference
---------
What the description says: argv is the argument list (`$RP_TASK_ID` being the
positive test of the documented expansion), cwd the task sandbox, each
environment entry has its value, RP_* describe the task, stdout/stderr are
where described (default `<uid>.out/.err` in the sandbox; one file if both are
described as the same) and hold the probe's output, the marker sequence of
each rank is pre-marks, exec, post-marks with per-rank entries only on their
rank, cut at the first failing command; a variable exported by pre_exec is
seen by the executable, CUDA_VISIBLE_DEVICES names the GPUs of the rank's
slot, no C10_* variable of another task is seen; exit status is the probe's
unless a pre/post command failed (then non-zero).

Every case runs after the previous cases of the same worker on one long-lived
executor (as in an agent).  A failing case is re-run on a fresh executor; if
it holds there, the earlier task(s) it needs are searched in the worker's
history.  The counterexample is shrunk (launcher to FORK, fields back to the
base value, list elements removed; the earlier task likewise) while the same
clause keeps failing, and the violation key `clause|site|trigger` is derived
from the shrunk case: trigger = abstract values of its non-base fields
(`after(<earlier task>):<task>` if history is needed).
'''

import os
import sys
import copy
import json
import time
import queue
import shutil
import signal
import random
import itertools
import subprocess as sp

from rpmc import seams, net, report

rp = seams.import_rp()

import radical.utils as ru                                         # noqa: E402
import radical.pilot.agent as rpa                                  # noqa: E402

from radical.pilot import constants as rpc                         # noqa: E402

# importing popen.py installs SIGTERM / SIGINT handlers which swallow the
# signal (worker pools are ended with SIGTERM): keep the handlers we had
_handlers = {s: signal.getsignal(s) for s in (signal.SIGTERM, signal.SIGINT)}
from radical.pilot.agent.executing       import popen as rp_popen   # noqa: E402
from radical.pilot.agent.launch_method.fork   import Fork           # noqa: E402
from radical.pilot.agent.launch_method.mpirun import MPIRun         # noqa: E402
for _s, _h in _handlers.items():
    signal.signal(_s, _h)


SID      = 'rp.session.c10.0000'
PID      = 'pilot.0000'
RESOURCE = 'verif.c10'
REG_ADDR = 'tcp://10.0.0.1:10001'
CTRL_PUB = 'tcp://10.0.0.1:10002'
CTRL_SUB = 'tcp://10.0.0.1:10003'
UID_FMT  = 'task.%06d'
PROBE    = 'c10_probe_%d'
TIMEOUT  = 30.0


# ------------------------------------------------------------------------------
# alphabet
#
ARG_ATOMS = [('plain'    , 'a'),
             ('space'    , 'a b'),
             ('squote'   , "it's"),
             ('dquote'   , '"q"'),
             ('glob'     , '*'),
             ('empty'    , ''),
             ('unicode'  , '\u00fc'),
             ('dash'     , '-n'),
             ('semicolon', 'a;b'),
             ('backslash', 'back\\slash'),
             ('hash'     , '#x'),
             ('var'      , '$RP_TASK_ID')]

# white space inside one argument: it has to arrive as written (runs of
# blanks, tab, newline, leading / trailing blank).  Varied alone for every
# launcher in both tiers.
ARG_BLANK = [('2blanks'  , 'two  blanks'),
             ('3blanks'  , 'a   b    c'),
             ('tab'      , 'a\tb'),
             ('newline'  , 'a\nb'),
             ('lead-sp'  , ' lead'),
             ('trail-sp' , 'trail '),
             ('only-sp'  , '  ')]

ARG_EXTRA = [('tilde'    , '~'),
             ('amp'      , 'a&b'),
             ('brace'    , '{a,b}'),
             ('bang'     , '!x'),
             ('dq-inner' , 'a"b'),
             ('trail-bs' , 'end\\'),
             ('redirect' , '>x'),
             ('paren'    , '(x)'),
             ('question' , '?'),
             ('pipe'     , 'a|b')]

ARG_CLASS = {v: k for k, v in ARG_ATOMS + ARG_BLANK + ARG_EXTRA}

ENV_ATOMS = [('plain'    , 'v'),
             ('space'    , 'a b'),
             ('dquote'   , 'say "hi"'),
             ('glob'     , '*'),
             ('unicode'  , '\u00fc'),
             ('empty'    , '')]

ENV_BLANK = [('2blanks'  , 'two  blanks'),
             ('tab'      , 'a\tb')]

ENV_EXTRA = [('squote'   , "it's"),
             ('semicolon', 'a;b'),
             ('hash'     , '#x'),
             ('backslash', 'back\\slash'),
             ('equals'   , 'a=b')]

ENV_CLASS = {v: k for k, v in ENV_ATOMS + ENV_BLANK + ENV_EXTRA}
ENV_NAMES = ['C10_A', 'c10_b']

PER_RANK  = {'0': 'mark:R0', '1': 'mark:R1'}

# three ranks, first and last rank with the same content, the middle one with
# another (wherever the script switches on $RP_RANK, equal ends must not be
# taken for "all ranks equal")
PER_RANK3 = {'0': 'mark:RA', '1': 'mark:RB', '2': 'mark:RA'}

PRE_CORE  = [[],
             ['mark:A'],
             ['export:C10_X=1'],
             ['false'],
             [dict(PER_RANK)],
             ['mark:A', dict(PER_RANK), 'mark:B'],
             [dict(PER_RANK3)]]

PRE_FULL  = PRE_CORE + [
             ['mark:A', dict(PER_RANK3), 'mark:B'],
             [{'0': 'export:C10_X=a', '1': 'export:C10_X=b',
               '2': 'export:C10_X=a'}],
             [{'0': 'mark:RA', '1': 'mark:RA', '2': 'mark:RB'}],
             [{'0': 'mark:RB', '1': 'mark:RA', '2': 'mark:RA'}],
             [{'0': 'mark:RA', '1': 'false', '2': 'mark:RA'}],
             ['true'],
             ['mark:A', 'mark:B'],
             ['mark:A', 'false', 'mark:B'],
             [{'0': ['mark:R0a', 'mark:R0b'], '1': 'mark:R1'}],
             [{'1': 'mark:R1'}],
             [{'0': 'mark:R0', '1': 'false'}],
             [{'0': 'export:C10_X=r0', '1': 'export:C10_X=r1'}],
             [{'int_keys': dict(PER_RANK)}],
             ['exportq:C10_X=two  blanks', 'mark:A']]

POST_RANK = {'0': 'mark:S0', '1': 'mark:S1'}
POST_RANK3 = {'0': 'mark:SA', '1': 'mark:SB', '2': 'mark:SA'}

POST_CORE = [[],
             ['mark:Z'],
             ['false'],
             ['mark:Y', dict(POST_RANK)],
             [dict(POST_RANK3)]]

POST_FULL = POST_CORE + [
             ['true'],
             ['mark:Y', 'mark:Z'],
             ['mark:Y', 'false', 'mark:Z'],
             [dict(POST_RANK)],
             [{'1': 'false'}],
             ['mark:Y', dict(POST_RANK3), 'mark:Z'],
             [{'0': 'mark:SA', '1': 'false', '2': 'mark:SA'}]]


def _arg_lists(atoms, pairs):
    vals = [v for _, v in atoms]
    out  = [[]] + [[v] for v in vals]
    if pairs:
        out += [[v, w] for v in vals for w in vals]
    return out


def _env_lists(atoms, pairs):
    vals = [v for _, v in atoms]
    out  = [[]] + [[[ENV_NAMES[0], v]] for v in vals]
    if pairs:
        out += [[[ENV_NAMES[0], v], [ENV_NAMES[1], w]]
                for v in vals for w in vals]
    return out


# every white-space atom alone, and several in one list
ARG_BLANK_LISTS = _arg_lists(ARG_BLANK, False)[1:] + \
                  [['two  blanks', ' lead', 'trail ', 'a   b    c'],
                   ['a\tb', 'a\nb', '  ', 'a']]

# field -> (core, full, deep): `core` values enter the products of field
# pairs, `full` the one-at-a-time variation (and, thorough, the products),
# `deep` the one-at-a-time variation of the thorough tier
FIELDS = {
    'exe'   : (['abs', 'path', 'rel'],
               ['abs', 'path', 'rel', 'uni', 'var'], None),
    'args'  : (_arg_lists(ARG_ATOMS, False),
               _arg_lists(ARG_ATOMS, True) + ARG_BLANK_LISTS,
               _arg_lists(ARG_ATOMS, True) + ARG_BLANK_LISTS +
               _arg_lists(ARG_BLANK, True)[1 + len(ARG_BLANK):] +
               _arg_lists(ARG_EXTRA, True)[1:]),
    'env'   : (_env_lists(ENV_ATOMS, False),
               _env_lists(ENV_ATOMS, True) +
               _env_lists(ENV_BLANK, False)[1:],
               _env_lists(ENV_ATOMS, True) +
               _env_lists(ENV_BLANK, False)[1:] +
               _env_lists(ENV_EXTRA, False)[1:]),
    'stdout': (['', 'my.out', 'ABS'], ['', 'my.out', 'ABS'], None),
    'stderr': (['', 'my.err', 'ABS'], ['', 'my.err', 'ABS'], None),
    # stdout and stderr described as the same file (relative / absolute
    # name; overrides the two fields above): ONE field, so that it is paired
    # with every other field (exit code, pre/post failures, ranks, ...)
    'outerr': ([None, 'same-rel', 'same-abs'],
               [None, 'same-rel', 'same-abs'], None),
    # named_env: none / a prepared env which also defines the described
    # variable C10_A / one which does not (its activation script then unsets
    # C10_A, which the agent process has in its environment)
    'nenv'  : ([None, 'def', 'unset'], [None, 'def', 'unset'], None),
    'pre'   : (PRE_CORE,  PRE_FULL,  None),
    'post'  : (POST_CORE, POST_FULL, None),
    # number of GPUs per rank (ids per rank: GPU_MAP) or a named id pattern
    'gpus'  : ([0, 1, 'aba'],
               [0, 1, 2, 0.5, 'aba', 'aab', 'baa', 'aaa', 'ABA'], None),
    'cpr'   : ([1, 2], [1, 2], None),
    'sync'  : ([False, True], [False, True], None),
    'exit'  : ([0, 3], [0, 3], None),
    'name'  : ([None, 'my task'], [None, 'my task'], None),
    'sbox'  : (['in', 'out'], ['in', 'out'], None),
    'start' : (['popen', 'script'], ['popen', 'script'], None),
    # startup_timeout: the exec script reports the start-up via $RP_CTRL
    'startup': ([0, 5], [0, 5], None),
}

BASE = {'lm': 'FORK', 'ranks': 1,
        'exe': 'abs', 'args': ['a'], 'env': [], 'stdout': '', 'stderr': '',
        'pre': ['mark:A'], 'post': ['mark:Z'], 'gpus': 0, 'cpr': 1,
        'sync': False, 'exit': 0, 'name': None, 'sbox': 'in',
        'start': 'popen', 'startup': 0, 'outerr': None,
        'nenv': None}

# fields whose effect depends on the rank or on the number of ranks (per-rank
# switches, barrier, start-up notice by rank 0, exit status of several ranks,
# output streams shared by the ranks)
RANK_FIELDS = ('pre', 'post', 'gpus', 'sync', 'startup', 'exit',
               'stdout', 'stderr', 'outerr',
               'nenv')       # activation script is built per launch method


# quick tier, several ranks: argument / environment values which enter the
# products of field pairs (all values are still varied alone)
QUICK_MINI = {'args': [[], ['a b'], [''], ['*'], ['$RP_TASK_ID']],
              'env' : [[], [[ENV_NAMES[0], 'a b']],
                           [[ENV_NAMES[0], 'say "hi"']]]}

LAUNCHERS_QUICK    = [('FORK', 1), ('MPIRUN', 2), ('MPIRUN', 3)]
LAUNCHERS_THOROUGH = [('FORK', 1), ('MPIRUN', 2), ('MPIRUN', 3), ('MPIRUN', 1)]

# value of the `gpus` field -> (gpus_per_rank, GPU ids of the slots of rank
# 0, 1, 2).  Numbers: ids deliberately different from the rank ids.  Named
# patterns: node-local ids which restart on every node, so that ranks share
# id lists in every arrangement (first == last != middle, first == middle,
# middle == last, all equal, lists of different length)
GPU_MAP = {0    : (0,   [[],     [],     []    ]),
           1    : (1,   [[1],    [3],    [0]   ]),
           2    : (2,   [[1, 2], [3, 0], [2, 1]]),
           0.5  : (0.5, [[2],    [2],    [2]   ]),
           'aba': (1,   [[0],    [1],    [0]   ]),
           'aab': (1,   [[0],    [0],    [1]   ]),
           'baa': (1,   [[1],    [0],    [0]   ]),
           'aaa': (1,   [[1],    [1],    [1]   ]),
           'ABA': (2,   [[0, 1], [2],    [0, 1]])}


def gpr(case):
    '''gpus_per_rank of the description'''
    return GPU_MAP[case['gpus']][0]


def gpu_ids(case, rank):
    return GPU_MAP[case['gpus']][1][rank]


# ------------------------------------------------------------------------------
# reference reading of pre/post specs
#
def _as_list(x):
    if x is None:
        return []
    return x if isinstance(x, list) else [x]


def rank_cmds(spec, rank):
    '''symbolic commands of `spec` which the description gives to `rank`'''
    out = list()
    for entry in spec:
        if isinstance(entry, str):
            out.append(entry)
        else:
            d = entry.get('int_keys', entry)
            out.extend(_as_list(d.get(str(rank))))
    return out


def simulate(spec, rank):
    '''-> (marks, exports, failed) of running `spec` on `rank`'''
    marks, exports = list(), dict()
    for cmd in rank_cmds(spec, rank):
        kind, _, arg = cmd.partition(':')
        if   kind == 'mark'  : marks.append(arg)
        elif kind in ('export', 'exportq'):
            exports.update([arg.split('=', 1)])
        elif kind == 'false' : return marks, exports, True
        elif kind != 'true'  : raise ValueError(cmd)
    return marks, exports, False


def stuck_barrier(case):
    '''
    pre_exec_sync with a pre_exec command failing on some but not all ranks:
    the barrier cannot complete (a real mpirun aborts the job when a rank
    exits non-zero; the stand-in does not) -- not enumerated
    '''
    if not case['sync'] or case['ranks'] < 2:
        return False
    failed = [simulate(case['pre'], r)[2] for r in range(case['ranks'])]
    return any(failed) and not all(failed)


def shape(spec):
    '''abstract form of a pre/post spec (for violation keys)'''
    out = list()
    for entry in spec:
        if isinstance(entry, str):
            kind = entry.partition(':')[0]
            out.append('str' if kind == 'mark' else kind)
        else:
            d = entry.get('int_keys', entry)
            s = 'dict'
            if 'int_keys' in entry                       : s += '-intkeys'
            if '0' not in d                              : s += '-partial'
            if '2' in d                                  : s += '-3ranks'
            if any(isinstance(v, list) for v in d.values()): s += '-list'
            cmds = [c for v in d.values() for c in _as_list(v)]
            if any(c == 'false' for c in cmds)           : s += '-false'
            if any(c.startswith('export') for c in cmds) : s += '-export'
            out.append(s)
    return '+'.join(out) or 'none'


def abstract(field, value):
    if field == 'args':
        return '+'.join(ARG_CLASS.get(a, '?') for a in value) or 'none'
    if field == 'env':
        return '+'.join(ENV_CLASS.get(v, '?') for _, v in value) or 'none'
    if field in ('stdout', 'stderr'):
        return {'': 'default', 'ABS': 'absolute'}.get(value, 'relative')
    if field in ('pre', 'post'):
        return shape(value)
    if field == 'name':
        return 'set' if value else 'unset'
    return str(value)


def trigger(case):
    parts = ['%s=%s' % (f, abstract(f, case[f])) for f in FIELDS
             if case[f] != BASE[f]]
    if case['stdout'] and case['stdout'] == case['stderr']:
        parts = [x for x in parts if not x.startswith(('stdout=', 'stderr='))]
        parts.insert(0, 'stdout==stderr')
    if (case['lm'], case['ranks']) != (BASE['lm'], BASE['ranks']):
        parts.append('lm=%s/%d' % (case['lm'], case['ranks']))
    return ','.join(parts) or 'base'


# ------------------------------------------------------------------------------
# the world: sandboxes, stubs, bare executor and launchers
#
PROBE_SH = '''#!/bin/sh
obs='%(obs)s'
r=${PMIX_RANK:-0}
d="$obs/dump.$r.$$"
{
  printf '%%s\\0' "$0"
  printf '%%d\\0' "$#"
  for a in "$@"; do printf '%%s\\0' "$a"; done
} > "$d.argv"
pwd -P  > "$d.cwd"
env -0  > "$d.env"
echo "$r:exec" >> "$obs/marks"
echo "OUT:$r"
echo "ERR:$r" 1>&2
exit %(code)d
'''

MPIRUN_SH = '''#!/bin/bash
# stand-in for mpirun: -np N [-host h,..] <script>; one process per rank with
# PMIX_RANK set, wait for all, first non-zero status
np=1
while test $# -gt 1; do
    case "$1" in
        -np)   np=$2; shift 2;;
        -host) shift 2;;
        *)     shift;;
    esac
done
echo "np=$np script=$1" >> '%(obs)s/mpirun'
pids=()
for ((i = 0; i < np; i++)); do
    PMIX_RANK=$i "$1" &
    pids+=($!)
done
ret=0
for p in "${pids[@]}"; do
    wait $p; r=$?
    test $ret -eq 0 && ret=$r
done
exit $ret
'''

# stand-in for radical-pilot-control ($RP_CTRL): records who called it how
CTRL_SH = '''#!/bin/sh
echo "${PMIX_RANK:-0} $*" >> '%(obs)s/ctrl'
'''

# `sleep 1` of the rank barrier polls faster (virtual clock)
SLEEP_SH = '''#!/bin/sh
exec %(sleep)s 0.02
'''


def _write(path, text, mode=0o644):
    with open(path, 'w') as fout:
        fout.write(text)
    os.chmod(path, mode)


class _Session(object):
    pass


class World(object):

    def __init__(self, root):

        self.root  = root
        self.n     = 0
        self.rsbox = '%s/radical.pilot.sandbox' % root
        self.ssbox = '%s/%s' % (self.rsbox, SID)
        self.psbox = '%s/%s' % (self.ssbox, PID)
        self.obs   = '%s/obs'   % root
        self.files = '%s/files' % root
        self.out   = '%s/out'   % root
        self.bin   = '%s/bin'   % root
        self.uni   = '%s/b\u00fc' % root
        self.tmp   = '%s/tmp'   % root

        for d in (self.psbox + '/env', self.obs, self.files, self.out,
                  self.bin, self.uni, self.tmp):
            os.makedirs(d)

        true = shutil.which('true', path='/usr/bin:/bin')
        os.symlink(true, self.psbox + '/prof')
        os.symlink(true, self.psbox + '/gtod')
        _write(self.psbox + '/env/lm_fork.sh',   'export C10_LM_ENV=fork\n')
        _write(self.psbox + '/env/lm_mpirun.sh', 'export C10_LM_ENV=mpirun\n')
        _write(self.bin + '/mpirun', MPIRUN_SH % {'obs': self.obs}, 0o755)
        _write(self.bin + '/radical-pilot-control',
                                     CTRL_SH   % {'obs': self.obs}, 0o755)
        _write(self.bin + '/sleep',  SLEEP_SH % {'sleep': shutil.which(
                                     'sleep', path='/usr/bin:/bin')}, 0o755)

        self.probe_text = dict()
        for code in (0, 3):
            text = PROBE_SH % {'obs': self.obs, 'code': code}
            self.probe_text[code] = text
            for d in (self.bin, self.uni, self.psbox):
                _write('%s/%s' % (d, PROBE % code), text, 0o755)

        # environment of the agent process
        self.env = {'PATH'        : '%s:/usr/bin:/bin' % self.bin,
                    'HOME'        : root,
                    'LANG'        : 'C.UTF-8',
                    'TMPDIR'      : self.tmp,
                    'C10_AGENT'   : '1',
                    ENV_NAMES[0]  : 'agent'}

        # named environments as `_prepare_env` leaves them: a dump of the
        # prepared environment.  The activation script is made from it by the
        # real LaunchMethod.get_task_named_env() / ru.env_prep() when the
        # first task asks for it.
        for name, extra in (('def',   {'C10_NE': 'def',
                                       ENV_NAMES[0]: 'named'}),
                            ('unset', {'C10_NE': 'unset'})):
            dump = {k: self.env[k] for k in ('PATH', 'HOME', 'LANG')}
            dump.update(extra)
            _write('%s/env/rp_named_env.c10%s.env' % (self.psbox, name),
                   ''.join('%s=%s\n' % kv for kv in sorted(dump.items())))

        self._make_executor()


    # --------------------------------------------------------------------------
    def _make_executor(self):

        log = seams.null()
        reg = net.Registry()
        reg['bridges.control_pubsub'] = {'addr_pub': CTRL_PUB,
                                         'addr_sub': CTRL_SUB}

        fork = Fork.__new__(Fork)
        fork.name      = 'FORK'
        fork.node_name = 'localhost'
        fork._log      = log
        fork._prof     = log
        fork._pwd      = self.psbox
        fork.init_from_info({'env': dict(self.env), 'env_sh': 'env/lm_fork.sh'})

        mpirun = MPIRun.__new__(MPIRun)
        mpirun.name  = 'MPIRUN'
        mpirun._log  = log
        mpirun._prof = log
        mpirun._pwd  = self.psbox
        mpirun.init_from_info({'env'        : dict(self.env),
                               'env_sh'     : 'env/lm_mpirun.sh',
                               'command'    : self.bin + '/mpirun',
                               'mpt'        : False, 'rsh'    : False,
                               'ccmrun'     : '',    'dplace' : '',
                               'omplace'    : '',
                               'mpi_version': '4.1.4',
                               'mpi_flavor' : MPIRun.MPI_FLAVOR_OMPI})

        rm = rpa.ResourceManager.__new__(rpa.ResourceManager)
        rm._log          = log
        rm._prof         = log
        rm._launchers    = {'FORK': fork, 'MPIRUN': mpirun}
        rm._launch_order = ['FORK', 'MPIRUN']
        self.rm = rm

        session = _Session()
        session.uid      = SID
        session.reg_addr = REG_ADDR
        session._reg     = reg
        session.cfg      = ru.Config(from_dict={
                               'pid'             : PID,
                               'sid'             : SID,
                               'resource'        : RESOURCE,
                               'resource_sandbox': self.rsbox,
                               'session_sandbox' : self.ssbox,
                               'pilot_sandbox'   : self.psbox})
        session.rcfg     = ru.Config(from_dict={
                               'resource_manager'    : 'FORK',
                               'agent_spawner'       : 'POPEN',
                               'new_session_per_task': True})
        self.session = session

        pex = seams.bare(rp_popen.Popen, _session=session, _reg=reg,
                         uid='agent_executing.0000')
        pex._term.set()                  # watcher threads end at once
        pex.register_input     = lambda *a, **kw: None
        pex.register_output    = lambda *a, **kw: None
        pex.register_publisher = lambda *a, **kw: None

        rm_create = rpa.ResourceManager.__dict__['create']
        saved_env = dict(os.environ)
        saved_cwd = os.getcwd()
        try:
            # the real initialize(): cwd is the pilot sandbox, the RM factory
            # hands out the bare RM; radical-pilot-control lives next to the
            # interpreter
            rpa.ResourceManager.create = classmethod(lambda cls, *a, **kw: rm)
            os.chdir(self.psbox)
            os.environ['TMPDIR'] = self.tmp
            os.environ['PATH']   = '%s:%s:%s' % (self.bin,
                                   os.path.dirname(sys.executable),
                                   os.environ.get('PATH', ''))
            pex.initialize()
            assert pex.rp_ctrl == self.bin + '/radical-pilot-control', \
                   pex.rp_ctrl
        finally:
            rpa.ResourceManager.create = rm_create
            os.chdir(saved_cwd)
            _restore_env(saved_env)

        for t in (pex._to_thread, pex._watcher):
            t.join(5)

        self.pex = pex


    # --------------------------------------------------------------------------
    def paths(self, case, uid):

        sbox = '%s/%s' % (self.psbox if case['sbox'] == 'in' else self.out, uid)
        code = case['exit']
        name = PROBE % code

        exe, exe_file = {
            'abs' : ('%s/%s' % (self.bin, name), '%s/%s' % (self.bin, name)),
            'path': (name,                       '%s/%s' % (self.bin, name)),
            'rel' : ('./%s' % name,              '%s/%s' % (sbox, name)),
            'uni' : ('%s/%s' % (self.uni, name), '%s/%s' % (self.uni, name)),
            'var' : ('$RP_PILOT_SANDBOX/%s' % name,
                                                 '%s/%s' % (self.psbox, name)),
        }[case['exe']]

        def std(val, ext):
            if not val      : return '',  '%s/%s.%s' % (sbox, uid, ext)
            if val == 'ABS' : return ('%s/abs.%s' % (self.files, ext),) * 2
            return val, '%s/%s' % (sbox, val)

        out_td, out_file = std(case['stdout'], 'out')
        err_td, err_file = std(case['stderr'], 'err')

        if case['outerr'] == 'same-rel':
            out_td,   err_td   = 'both.log', 'both.log'
            out_file, err_file = ('%s/both.log' % sbox,) * 2
        elif case['outerr'] == 'same-abs':
            out_td = err_td = out_file = err_file = '%s/both.log' % self.files

        return {'sbox': sbox, 'exe': exe, 'exe_file': exe_file,
                'stdout': out_td, 'stdout_file': out_file,
                'stderr': err_td, 'stderr_file': err_file}


    def render(self, spec, sig):
        '''symbolic pre/post spec -> what the user would write'''

        def cmd(c):
            kind, _, arg = c.partition(':')
            if kind == 'mark':
                return 'echo "${PMIX_RANK:-0}:%s:%s" >> %s/marks' \
                       % (sig, arg, self.obs)
            if kind == 'exportq':
                return 'export %s="%s"' % tuple(arg.split('=', 1))
            if kind == 'export':
                return 'export %s' % arg
            return kind

        out = list()
        for entry in spec:
            if isinstance(entry, str):
                out.append(cmd(entry))
            else:
                ints = 'int_keys' in entry
                d    = entry.get('int_keys', entry)
                out.append({(int(k) if ints else k):
                            ([cmd(c) for c in v] if isinstance(v, list)
                             else cmd(v)) for k, v in d.items()})
        return out


    def description(self, case, p):

        desc = {'executable'    : p['exe'],
                'arguments'     : list(case['args']),
                'environment'   : {k: v for k, v in case['env']},
                'pre_exec'      : self.render(case['pre'],  'pre'),
                'post_exec'     : self.render(case['post'], 'post'),
                'pre_exec_sync' : case['sync'],
                'ranks'         : case['ranks'],
                'cores_per_rank': case['cpr'],
                'gpus_per_rank' : gpr(case),
                'sandbox'       : p['sbox']}
        if gpr(case)     : desc['gpu_type'] = rpc.CUDA
        if p['stdout']   : desc['stdout']   = p['stdout']
        if p['stderr']   : desc['stderr']   = p['stderr']
        if case['name']  : desc['name']     = case['name']
        if case['startup']: desc['startup_timeout'] = case['startup']
        if case['nenv']   : desc['named_env'] = 'c10%s' % case['nenv']
        return desc


    # --------------------------------------------------------------------------
    def run_case(self, case, verbose=False):
        '''
        real TaskDescription -> msgpack -> real Popen._handle_task -> wait;
        returns the observation
        '''

        uid = UID_FMT % self.n
        self.n += 1
        p   = self.paths(case, uid)
        obs = {'uid': uid, 'paths': p, 'raised': None, 'exit': None,
               'timeout': False, 'launcher': None}

        for d in (self.obs, self.files):
            shutil.rmtree(d)
            os.mkdir(d)

        desc = self.description(case, p)
        td   = rp.TaskDescription(from_dict=copy.deepcopy(desc))
        td.verify()

        slots = list()
        for r in range(case['ranks']):
            occ = gpr(case) if 0 < gpr(case) < 1 else 1.0
            slots.append({'node_name' : 'localhost',
                          'node_index': 0,
                          'cores'     : [{'index': r * case['cpr'] + c,
                                          'occupation': 1.0}
                                         for c in range(case['cpr'])],
                          'gpus'      : [{'index': g, 'occupation': occ}
                                         for g in gpu_ids(case, r)],
                          'lfs'       : 0,
                          'mem'       : 0})

        task = {'uid'              : uid,
                'type'             : 'task',
                'origin'           : 'client',
                'name'             : case['name'] or '',
                'pilot'            : PID,
                'state'            : 'AGENT_EXECUTING',
                'partition'        : 0,
                'description'      : td.as_dict(),
                'task_sandbox_path': p['sbox'],
                'slots'            : slots}
        task = seams.wire(task)

        if case['exe'] == 'rel':
            # the executable was staged into the sandbox
            os.makedirs(p['sbox'], exist_ok=True)
            _write(p['exe_file'], self.probe_text[case['exit']], 0o755)

        self.rm._launch_order = ['MPIRUN'] if case['lm'] == 'MPIRUN' \
                                           else ['FORK', 'MPIRUN']

        # 'popen' : the real Popen._launch_task starts the launch script
        # 'script': the launch script is started from another directory (the
        #           pilot sandbox) -- it has to find the task sandbox itself
        self.pex.__dict__.pop('_launch_task', None)
        if case['start'] == 'script':
            self.pex._launch_task = self._launch_script

        saved_env = dict(os.environ)
        saved_cwd = os.getcwd()
        try:
            os.chdir(self.psbox)
            _restore_env(self.env)
            t0 = time.time()
            try:
                self.pex._handle_task(task)
            except Exception as e:
                obs['raised'] = repr(e)
            obs['launcher'] = task.get('launcher_name')

            proc = task.get('proc')
            if proc is not None:
                try:
                    obs['exit'] = proc.wait(timeout=TIMEOUT)
                except sp.TimeoutExpired:
                    obs['timeout'] = True
                    try   : os.killpg(proc.pid, signal.SIGKILL)
                    except OSError: pass
                    proc.kill()
                    proc.wait()
            obs['wall'] = time.time() - t0
        finally:
            os.chdir(saved_cwd)
            _restore_env(saved_env)
            del rp_popen._pids[:]
            del self.pex._to_tasks[:]
            try:
                while True:
                    self.pex._watch_queue.get_nowait()
            except queue.Empty:
                pass

        self.collect(obs, task)

        if verbose:
            self.show(case, desc, task, obs)

        shutil.rmtree(p['sbox'], ignore_errors=True)
        return obs


    # --------------------------------------------------------------------------
    def _launch_script(self, task):

        out = open('%s/%s.launch.out' % (task['task_sandbox_path'],
                                         task['uid']), 'w')
        task['proc'] = sp.Popen(args=[task['launch_path']], stdin=None,
                                stdout=out, stderr=sp.STDOUT, close_fds=True,
                                start_new_session=True, cwd=self.psbox)
        out.close()


    # --------------------------------------------------------------------------
    def collect(self, obs, task):

        def read(path):
            try:
                with open(path, 'rb') as fin:
                    return fin.read()
            except OSError:
                return None

        dumps = dict()
        for fname in sorted(os.listdir(self.obs)):
            if not fname.startswith('dump.') or not fname.endswith('.argv'):
                continue
            stem  = '%s/%s' % (self.obs, fname[:-len('.argv')])
            rank  = fname.split('.')[1]
            words = (read(stem + '.argv') or b'').split(b'\0')[:-1]
            words = [w.decode('utf-8', 'surrogateescape') for w in words]
            env   = dict()
            for item in (read(stem + '.env') or b'').split(b'\0'):
                if b'=' in item:
                    k, v = item.split(b'=', 1)
                    env[k.decode('utf-8', 'surrogateescape')] = \
                        v.decode('utf-8', 'surrogateescape')
            dump = {'argv0': words[0] if words else None,
                    'argc' : int(words[1]) if len(words) > 1 else None,
                    'argv' : words[2:],
                    'cwd'  : (read(stem + '.cwd') or b'').decode(
                                        'utf-8', 'surrogateescape').rstrip('\n'),
                    'env'  : env}
            dumps.setdefault(rank, list()).append(dump)

        marks = (read(self.obs + '/marks') or b'').decode('utf-8', 'replace')
        obs['dumps']  = dumps
        obs['marks']  = marks.splitlines()
        obs['mpirun'] = (read(self.obs + '/mpirun') or b'').decode().splitlines()
        obs['ctrl']   = (read(self.obs + '/ctrl') or b'').decode(
                                               'utf-8', 'replace').splitlines()
        for which in ('stdout', 'stderr'):
            data = read(obs['paths'][which + '_file'])
            obs[which] = None if data is None else \
                         data.decode('utf-8', 'replace').splitlines()
        obs['launch_out'] = (read('%s/%s.launch.out' % (obs['paths']['sbox'],
                             obs['uid'])) or b'').decode('utf-8', 'replace')


    def show(self, case, desc, task, obs):

        print('case       :', json.dumps(case, sort_keys=True))
        print('description:', {k: v for k, v in desc.items()})
        print('launcher   :', obs['launcher'])
        for ext in ('exec.sh', 'launch.sh'):
            path = '%s/%s.%s' % (obs['paths']['sbox'], obs['uid'], ext)
            print('-' * 30, os.path.basename(path))
            try:
                with open(path, encoding='utf-8') as fin:
                    for line in fin:
                        if line.strip() and not line.startswith('# ---'):
                            print('   ', line.rstrip('\n'))
            except OSError as e:
                print('    <%r>' % e)
        print('-' * 30)
        print('raised     :', obs['raised'])
        print('exit status:', obs['exit'], '(timeout)' if obs['timeout'] else '')
        print('markers    :', obs['marks'])
        print('$RP_CTRL   :', obs['ctrl'])
        print('stdout file:', obs['paths']['stdout_file'], '->', obs['stdout'])
        print('stderr file:', obs['paths']['stderr_file'], '->', obs['stderr'])
        if obs['launch_out'].strip():
            print('launch.out :', obs['launch_out'].strip())
        for rank, dumps in sorted(obs['dumps'].items()):
            for dump in dumps:
                env = {k: v for k, v in dump['env'].items()
                       if k.startswith(('RP_', 'C10_', 'c10_', 'CUDA_', 'PMIX'))}
                print('probe rank %s: $0=%r argv=%r cwd=%r'
                      % (rank, dump['argv0'], dump['argv'], dump['cwd']))
                print('              env:', dict(sorted(env.items())))


def _restore_env(env):
    for k in list(os.environ):
        if k not in env:
            del os.environ[k]
    for k, v in env.items():
        if os.environ.get(k) != v:
            os.environ[k] = v


# ------------------------------------------------------------------------------
# oracle
#
SITES = {'argv'       : 'LaunchMethod._create_arg_string',
         'executable' : 'LaunchMethod.get_exec',
         'cwd'        : '_create_launch_script',
         'env-value'  : '_get_task_env',
         'pre-export' : '_get_prep_exec',
         'env-foreign': '_create_exec_script',
         'gpu-assignment': '_extend_pre_exec',
         'stdout-file': '_get_launch',
         'stderr-file': '_get_launch',
         'runs-once-per-rank'       : '_get_exec',
         'failing-pre-prevents-exec': '_get_prep_exec',
         'per-rank-only-on-rank'    : '_get_prep_exec',
         'pre-exec-post-order'      : '_create_exec_script',
         'pre-post-commands-run'    : '_get_prep_exec',
         'exit-code'  : '_get_exec/_get_launch',
         'terminates' : '_create_exec_script',
         'startup-notice': '_create_exec_script',
         'named-env'  : '_get_task_env',
         'launcher'   : 'ResourceManager.find_launcher'}


def _real(path):
    return os.path.realpath(os.path.normpath(path))


def check(world, case, obs):
    '''-> list of (clause, site, what) for every failed oracle clause'''

    if obs['raised']:
        return []                      # refused: an outcome (see run())

    out   = list()
    uid   = obs['uid']
    p     = obs['paths']
    ranks = case['ranks']

    def fail(clause, what, site=None):
        out.append((clause, site or SITES[clause.split('.')[0]], what))

    if obs['timeout']:
        fail('terminates', 'launch script still running after %ds; markers %s'
                           % (TIMEOUT, obs['marks']))
        return out

    if obs['launcher'] != case['lm']:
        raise RuntimeError('harness: launcher %s for %s'
                           % (obs['launcher'], case))

    expect_fail = False
    exec_ranks  = list()
    for r in range(ranks):

        pre_marks, exports, pre_failed = simulate(case['pre'], r)
        seq = ['pre:%s' % m for m in pre_marks]
        if pre_failed:
            expect_fail = True
        else:
            exec_ranks.append(r)
            post_marks, _, post_failed = simulate(case['post'], r)
            seq += ['exec'] + ['post:%s' % m for m in post_marks]
            expect_fail = expect_fail or post_failed

        got = [m.split(':', 1)[1] for m in obs['marks']
               if m.split(':', 1)[0] == str(r)]

        # -- marker sequence ---------------------------------------------------
        if got != seq:
            what = 'rank %d: markers %s, described %s' % (r, got, seq)

            def tags(q):
                return set('%s:%s' % (sig, m)
                           for sig, spec in (('pre',  case['pre']),
                                             ('post', case['post']))
                           for m in simulate_all(spec, q))

            others  = set().union(*[tags(q) for q in range(max(ranks, 3))
                                            if q != r]) - tags(r)
            foreign = [m for m in got if m in others]
            if pre_failed and 'exec' in got:
                fail('failing-pre-prevents-exec', what)
            elif foreign:
                fail('per-rank-only-on-rank', what)
            elif sorted(got) == sorted(seq):
                fail('pre-exec-post-order', what)
            elif ('exec' in got) != ('exec' in seq) or got.count('exec') > 1:
                fail('runs-once-per-rank', what)
            else:
                fail('pre-post-commands-run', what)

        dumps = obs['dumps'].get(str(r), [])
        if pre_failed:
            if dumps and 'exec' not in got:
                fail('failing-pre-prevents-exec',
                     'rank %d: probe ran %d times after failing pre_exec'
                     % (r, len(dumps)))
            continue

        if len(dumps) != 1:
            if ('exec' in got) == ('exec' in seq) and got.count('exec') <= 1:
                fail('runs-once-per-rank', 'rank %d: %d probe dumps'
                                           % (r, len(dumps)))
            if not dumps:
                continue
        dump = dumps[0]

        # -- executable, argv, cwd ---------------------------------------------
        argv0 = dump['argv0'] or ''
        if _real(os.path.join(dump['cwd'], argv0)) != _real(p['exe_file']):
            fail('executable', 'rank %d: ran %r, described %r (%s)'
                               % (r, argv0, p['exe'], p['exe_file']))

        want = [uid if a == '$RP_TASK_ID' else a for a in case['args']]
        if dump['argv'] != want or dump['argc'] != len(want):
            fail('argv', 'rank %d: argv %r (argc %s), described %r'
                         % (r, dump['argv'], dump['argc'], want))

        if _real(dump['cwd']) != _real(p['sbox']):
            fail('cwd', 'rank %d: cwd %r, task sandbox %r'
                        % (r, dump['cwd'], p['sbox']))

        # -- environment -------------------------------------------------------
        env = dump['env']
        bad = [(k, v, env.get(k)) for k, v in case['env'] if env.get(k) != v]
        if bad:
            fail('env-value', 'rank %d: %s' % (r, '; '.join(
                 '%s is %r, described %r' % (k, g, v) for k, v, g in bad)))

        bad = [(k, v, env.get(k)) for k, v in exports.items()
               if env.get(k) != v]
        if bad:
            fail('pre-export', 'rank %d: %s' % (r, '; '.join(
                 'pre_exec exported %s=%r, executable sees %r' % (k, v, g)
                 for k, v, g in bad)))

        known = set(['C10_AGENT', 'C10_LM_ENV', 'C10_NE', ENV_NAMES[0]]) | \
                set(exports) | \
                set(k for k, _ in case['env'])
        alien = sorted(k for k in env if k.startswith(('C10_', 'c10_'))
                                      and k not in known)
        if alien:
            fail('env-foreign', 'rank %d: executable sees %s which this task '
                                'does not describe'
                                % (r, {k: env[k] for k in alien}))

        if env.get('C10_NE') != case['nenv']:
            fail('named-env', 'rank %d: named env %r, executable sees C10_NE=%r'
                              % (r, case['nenv'], env.get('C10_NE')))

        if gpr(case):
            want_cvd = ','.join(str(g) for g in gpu_ids(case, r))
            if env.get('CUDA_VISIBLE_DEVICES') != want_cvd:
                fail('gpu-assignment',
                     'rank %d: CUDA_VISIBLE_DEVICES %r, slot GPUs %s'
                     % (r, env.get('CUDA_VISIBLE_DEVICES'), want_cvd))

        rp_str = {'RP_TASK_ID'       : uid,
                  'RP_TASK_NAME'     : case['name'] or uid,
                  'RP_PILOT_ID'      : PID,
                  'RP_SESSION_ID'    : SID,
                  'RP_CONTROL_PUB_ADDRESS': CTRL_PUB,
                  'RP_CONTROL_SUB_ADDRESS': CTRL_SUB}
        rp_num = {'RP_RANK'          : r,
                  'RP_RANKS'         : ranks,
                  'RP_CORES_PER_RANK': case['cpr'],
                  'RP_GPUS_PER_RANK' : gpr(case)}
        rp_dir = {'RP_TASK_SANDBOX'    : p['sbox'],
                  'RP_PILOT_SANDBOX'   : world.psbox,
                  'RP_SESSION_SANDBOX' : world.ssbox,
                  'RP_RESOURCE_SANDBOX': world.rsbox}

        for k, v in rp_str.items():
            if env.get(k) != v:
                fail('rp-env.%s' % k, 'rank %d: %s is %r, task has %r'
                                      % (r, k, env.get(k), v),
                     site='_get_rp_env')
        for k, v in rp_num.items():
            try   : same = float(env.get(k)) == float(v)
            except (TypeError, ValueError): same = False
            if not same:
                fail('rp-env.%s' % k, 'rank %d: %s is %r, task has %r'
                                      % (r, k, env.get(k), v),
                     site='_get_rank_ids' if k in ('RP_RANK', 'RP_RANKS')
                          else '_get_rp_env')
        for k, v in rp_dir.items():
            if env.get(k) is None or _real(env[k]) != _real(v):
                fail('rp-env.%s' % k, 'rank %d: %s is %r, task has %r'
                                      % (r, k, env.get(k), v),
                     site='_get_rp_env')

    # -- ranks which do not exist ----------------------------------------------
    alien = sorted(set(m.split(':', 1)[0] for m in obs['marks']) |
                   set(obs['dumps']))
    alien = [x for x in alien if x not in [str(r) for r in range(ranks)]]
    if alien:
        fail('runs-once-per-rank', 'activity of ranks %s, task has %d ranks'
                                   % (alien, ranks))

    # -- start-up notice: once, by rank 0 (the exec script of every rank is
    #    started, whatever its pre_exec does later) ----------------------------
    want = ['0 %s task_startup_done uid=%s' % (SID, uid)] \
           if case['startup'] else []
    if obs['ctrl'] != want:
        fail('startup-notice', '$RP_CTRL called as %s (<rank> <args>), '
                               'expected %s' % (obs['ctrl'], want))

    # -- stdout / stderr -------------------------------------------------------
    for which, tag in (('stdout', 'OUT'), ('stderr', 'ERR')):
        want = ['%s:%d' % (tag, r) for r in exec_ranks]
        got  = obs[which]
        if p['stdout_file'] == p['stderr_file']:
            # one file described for both streams: it holds both
            want = ['%s:%d' % (t, r) for t in ('OUT', 'ERR')
                                     for r in exec_ranks]
            if which == 'stderr':
                continue
        if got is None:
            fail('%s-file' % which, '%s does not exist (described: %r)'
                                    % (p[which + '_file'], p[which]))
            continue
        if expect_fail and (which == 'stderr' or
                            p['stdout_file'] == p['stderr_file']):
            # the file also holds the '<sig> failed' notice of rp_error:
            # the probe's lines, each once, and no other probe line
            ok = all(got.count(w) == 1 for w in want) and \
                 not [g for g in got if g.startswith(('OUT:', 'ERR:'))
                                     and g not in want]
        else:
            ok = sorted(got) == sorted(want)
        if not ok:
            fail('%s-file' % which, '%s holds %r, probe wrote %r'
                                    % (p[which + '_file'], got, want))

    # -- exit status -----------------------------------------------------------
    if expect_fail:
        if obs['exit'] == 0:
            fail('exit-code', 'exit status 0 although a pre/post command '
                              'failed')
    elif obs['exit'] != case['exit']:
        fail('exit-code', 'exit status %s, executable exited with %d'
                          % (obs['exit'], case['exit']))

    return out


def simulate_all(spec, rank):
    '''all marks `spec` gives to `rank`, failures ignored'''
    return [c.partition(':')[2] for c in rank_cmds(spec, rank)
            if c.startswith('mark:')]


def observation_class(case, obs, clauses):
    '''distinct observation = input classes + what was seen'''
    ran = tuple(sorted((r, len(d)) for r, d in obs['dumps'].items()))
    return (case['lm'], case['ranks'], trigger(case),
            'refused' if obs['raised'] else obs['exit'], ran,
            tuple(obs['marks'] and sorted(obs['marks'])),
            tuple(sorted(c for c, _, _ in clauses)))


# ------------------------------------------------------------------------------
# enumeration
#
def _key(case):
    return json.dumps(case, sort_keys=True)


def gen_cases(quick):

    launchers = LAUNCHERS_QUICK if quick else LAUNCHERS_THOROUGH
    names     = list(FIELDS)
    cases     = list()
    seen      = set()
    skipped   = [0]

    def add(lm, ranks, part, **assign):
        case = dict(copy.deepcopy(BASE), lm=lm, ranks=ranks)
        case.update(copy.deepcopy(assign))
        key  = _key(case)
        if key in seen:
            return
        seen.add(key)
        if stuck_barrier(case):
            skipped[0] += 1
            return
        cases.append((part, case))

    for lm, ranks in launchers:

        add(lm, ranks, 'single')

        # one field at a time
        for f in names:
            core, full, deep = FIELDS[f]
            for v in (full if quick or deep is None else deep):
                add(lm, ranks, 'single', **{f: v})

        # all pairs of fields
        for f, g in itertools.combinations(names, 2):
            if quick and ranks > 1 and f not in RANK_FIELDS \
                                   and g not in RANK_FIELDS:
                # quick tier, several ranks: pairs of two fields which the
                # scripts treat alike on every rank are covered with FORK
                continue
            cf, ff, _ = FIELDS[f]
            cg, fg, _ = FIELDS[g]
            if quick:
                # full lists of the small fields, core lists of args / env
                # (several ranks: the values of QUICK_MINI)
                if ranks > 1:
                    if f in QUICK_MINI: cf = QUICK_MINI[f]
                    if g in QUICK_MINI: cg = QUICK_MINI[g]
                if f in ('args', 'env'): ff = cf
                if g in ('args', 'env'): fg = cg
            prods = [(ff, cg), (cf, fg)]
            for vf_list, vg_list in prods:
                for vf in vf_list:
                    for vg in vg_list:
                        add(lm, ranks, 'pair', **{f: vf, g: vg})

    return cases, skipped[0]


# ------------------------------------------------------------------------------
# shrinking and keys
#
def candidates(case):
    '''simpler neighbours of `case`, simplest first'''
    if (case['lm'], case['ranks']) != ('FORK', 1):
        yield dict(case, lm='FORK', ranks=1)
        if case['ranks'] > 1:
            yield dict(case, ranks=1)
        if case['ranks'] > 2:
            yield dict(case, ranks=case['ranks'] - 1)
    for f in FIELDS:
        if case[f] != BASE[f]:
            yield dict(case, **{f: copy.deepcopy(BASE[f])})
    for f in ('args', 'env', 'pre', 'post'):
        if len(case[f]) > 1:
            for i in range(len(case[f])):
                yield dict(case, **{f: case[f][:i] + case[f][i + 1:]})


def shrink(run, case, clause, site, budget=60):
    '''
    greedy: move to a simpler neighbour while (clause, site) keeps failing;
    `run(case)` -> list of (clause, site, what)
    '''
    what = None
    while budget > 0:
        for cand in candidates(case):
            if stuck_barrier(cand):
                continue
            budget -= 1
            hits = [w for c, s, w in run(cand) if (c, s) == (clause, site)]
            if hits:
                case, what = cand, hits[0]
                break
            if budget <= 0:
                break
        else:
            break
    return case, what


def contains(case, minimal):
    '''`minimal` (a shrunk failing case) is part of `case`'''
    if (minimal['lm'], minimal['ranks']) != ('FORK', 1) and \
       (minimal['lm'], minimal['ranks']) != (case['lm'], case['ranks']):
        return False
    for f in FIELDS:
        if minimal[f] == BASE[f] or minimal[f] == case[f]:
            continue
        if f == 'args' and all(a in case[f] for a in minimal[f]):
            continue
        if f == 'env' and all(v in [w for _, w in case[f]]
                              for _, v in minimal[f]):
            continue
        return False
    return True


# ------------------------------------------------------------------------------
# worker
#
_cases   = None
_scratch = None
_world   = None
_recent  = list()           # last cases of this worker (history)
_minimal = dict()           # (clause, site) -> [shrunk cases]
_fresh_n = [0]
_budget  = [0]              # fresh-executor runs left for shrinking
_searches = [0]             # unsuccessful searches for a responsible history


def fresh_world():
    _fresh_n[0] += 1
    root = '%s/c10.%d.f%d' % (_scratch, os.getpid(), _fresh_n[0])
    return World(root)


def run_fresh(case, history=()):
    _budget[0] -= 1 + len(history)
    w = fresh_world()
    try:
        for h in history:
            w.run_case(h)
        obs = w.run_case(case)
        return check(w, case, obs)
    finally:
        shutil.rmtree(w.root, ignore_errors=True)


def _hits(clauses, clause, site):
    return [w for c, s, w in clauses if (c, s) == (clause, site)]


def report_violations(part, case, clauses, history):
    '''
    key every failed clause by its shrunk case (and, if it only fails after
    earlier tasks of the same executor, by the shrunk earlier task)
    '''

    for clause, site, what in clauses:

        # same root cause as a counterexample this worker already shrunk?
        known = None
        for hist_min, case_min in _minimal.get((clause, site), []):
            if contains(case, case_min) and \
               (not hist_min or any(contains(h, hist_min[0]) for h in history)):
                known = (hist_min, case_min)
                break
        if known:
            part.violation(make_key(clause, site, *known), {'what': what},
                           {'history': list(history) if known[0] else [],
                            'case': case})
            continue

        if _budget[0] <= 0:
            part.violation('%s|%s|unshrunk:%s' % (clause, site, trigger(case)),
                           {'what': what, 'note': 'shrink budget exhausted'},
                           {'history': list(history[-8:]), 'case': case})
            continue

        hist = list()
        if not _hits(run_fresh(case), clause, site):
            # holds on a fresh executor: look for the earlier task it needs
            hist = find_history(case, clause, site, history)
            if hist is None:
                part.violation('%s|%s|not-reproduced' % (clause, site),
                               {'what': what,
                                'note': 'seen once, not reproduced on a fresh '
                                        'executor with the same history'},
                               {'history': list(history[-8:]), 'case': case})
                continue

        small, swhat = shrink(lambda c: run_fresh(c, hist), case, clause, site)
        if len(hist) == 1:
            h, _ = shrink(lambda c: run_fresh(small, [c]), hist[0],
                          clause, site)
            hist = [h]
        _minimal.setdefault((clause, site), list()).append((hist, small))
        detail = {'what': swhat or what, 'first_seen': what}
        if hist:
            detail['note'] = 'holds on a fresh executor, fails after %d ' \
                             'earlier task(s)' % len(hist)
        part.violation(make_key(clause, site, hist, small), detail,
                       {'history': hist, 'case': small})


def find_history(case, clause, site, history):
    '''earlier tasks of this executor after which `case` fails the clause'''

    if _searches[0] >= 3:
        return None
    _searches[0] += 1

    # a single earlier task, most recent first
    seen = set()
    for h in reversed(history):
        if _key(h) in seen:
            continue
        seen.add(_key(h))
        if len(seen) > 24:
            break
        if _hits(run_fresh(case, [h]), clause, site):
            _searches[0] -= 1
            return [h]

    # all of them, then halves
    hist = list(history)
    if not _hits(run_fresh(case, hist), clause, site):
        return None
    while len(hist) > 1:
        half = len(hist) // 2
        if   _hits(run_fresh(case, hist[half:]), clause, site):
            hist = hist[half:]
        elif _hits(run_fresh(case, hist[:half]), clause, site):
            hist = hist[:half]
        else:
            break
    _searches[0] -= 1
    return hist


def make_key(clause, site, hist, case):
    if hist:
        return '%s|%s|after(%s):%s' % (clause, site,
                                       ';'.join(trigger(h) for h in hist),
                                       trigger(case))
    return '%s|%s|%s' % (clause, site, trigger(case))


def _job(idx):

    global _world

    k, n   = idx
    part   = report.Part()
    counts = dict()

    if _world is None:
        _world     = World('%s/c10.%d' % (_scratch, os.getpid()))
        _budget[0] = 1500

    for i in range(k, len(_cases), n):
        kind, case = _cases[i]
        obs     = _world.run_case(case)
        clauses = check(_world, case, obs)

        if clauses:
            report_violations(part, case, clauses, _recent)

        _recent.append(case)
        del _recent[:-300]

        key = '%s_%d' % (case['lm'].lower(), case['ranks'])
        counts[key] = counts.get(key, 0) + 1
        counts['script_runs'] = counts.get('script_runs', 0) + \
                                (0 if obs['raised'] else 1 + case['ranks'])
        counts['probe_runs']  = counts.get('probe_runs', 0) + \
                                sum(len(d) for d in obs['dumps'].values())
        counts['cases_' + kind] = counts.get('cases_' + kind, 0) + 1
        if obs['raised']:
            counts['refused'] = counts.get('refused', 0) + 1
            part.outcome(('refused', obs['raised'][:80]))
        part.outcome(observation_class(case, obs, clauses))

    part.cover(evaluations=len(range(k, len(_cases), n)), **counts)
    return part.dump()


# ------------------------------------------------------------------------------
#
def self_test(scratch):
    '''the probe and the dump reader reproduce a known argv / env'''

    w = World('%s/c10.selftest' % scratch)
    try:
        argv = ['a b', '', "it's", '"q"', '*', '\u00fc', 'x\\y', '-n', 'l\nf']
        env  = {'PATH': '/usr/bin:/bin', 'C10_T': 'say "hi"', 'C10_E': '',
                'PMIX_RANK': '1'}
        proc = sp.run([w.bin + '/' + PROBE % 3] + argv, env=env, cwd=w.out,
                      stdout=sp.PIPE, stderr=sp.PIPE)
        obs  = {'paths': {'stdout_file': '/nonexistent',
                          'stderr_file': '/nonexistent', 'sbox': w.out},
                'uid': 'x'}
        w.collect(obs, None)
        dump = obs['dumps']['1'][0]
        assert proc.returncode == 3,                    proc
        assert proc.stdout == b'OUT:1\n',               proc
        assert proc.stderr == b'ERR:1\n',               proc
        assert dump['argv'] == argv,                    dump
        assert dump['argc'] == len(argv),               dump
        assert dump['env']['C10_T'] == 'say "hi"',      dump
        assert dump['env']['C10_E'] == '',              dump
        assert _real(dump['cwd']) == _real(w.out),      dump
        assert obs['marks'] == ['1:exec'],              obs
    finally:
        shutil.rmtree(w.root, ignore_errors=True)


def run(ctx):

    global _cases, _scratch

    ctx.level = 'exploration'
    _scratch  = ctx.scratch

    self_test(_scratch)

    _cases, skipped = gen_cases(ctx.quick)
    if ctx.seed:
        random.Random(ctx.seed).shuffle(_cases)

    n_jobs = max(1, min(len(_cases), ctx.workers * 8))
    jobs   = [(k, n_jobs) for k in range(n_jobs)]
    for res in seams.pmap(_job, jobs, ctx.workers):
        ctx.merge(res)

    # written-out cases
    picks = [lambda c: c['lm'] == 'FORK' and c['args'] == ['a b', "it's"]
                       and c['env'] == [],
             lambda c: c['lm'] == 'MPIRUN' and c['ranks'] == 2
                       and c['pre'] == ['mark:A', dict(PER_RANK), 'mark:B']
                       and c['gpus'] == 1,
             lambda c: c['lm'] == 'MPIRUN' and c['ranks'] == 2
                       and c['pre'] == [{'0': 'mark:R0', '1': 'false'}]
                       and c['exit'] == 0 and c['stdout'] == '']
    w = World('%s/c10.samples' % _scratch)
    for pick in picks:
        for _, case in _cases:
            if pick(case):
                obs = w.run_case(case)
                ctx.sample({'case'       : case,
                            'description': w.description(case, obs['paths']),
                            'observed'   : {
                                'exit'   : obs['exit'],
                                'markers': obs['marks'],
                                'stdout' : obs['stdout'],
                                'argv'   : {r: d[0]['argv'] for r, d
                                            in obs['dumps'].items()},
                                'CUDA_VISIBLE_DEVICES': {
                                    r: d[0]['env'].get('CUDA_VISIBLE_DEVICES')
                                    for r, d in obs['dumps'].items()}},
                            'failed_clauses': sorted(set(
                                c for c, _, _ in check(w, case, obs)))})
                break
    shutil.rmtree(w.root, ignore_errors=True)

    # a harness in which nothing is started decides nothing
    n = ctx.coverage.get('evaluations', 0)
    if ctx.coverage.get('refused', 0) * 2 > n or \
       not ctx.coverage.get('probe_runs'):
        if not ctx._nviol:
            raise RuntimeError('harness: %s of %d descriptions refused, %s '
                               'probe runs' % (ctx.coverage.get('refused'), n,
                                               ctx.coverage.get('probe_runs')))

    ctx.set(exhaustive=True, cases=len(_cases), skipped_stuck_barrier=skipped,
            rule='complete enumeration per launcher (%s): the base task, '
                 'every field varied alone over its full value list, and '
                 'every pair of fields over %s.  Fields: executable form '
                 '(absolute, $PATH, ./relative, unicode directory, '
                 '$RP_PILOT_SANDBOX), arguments (none, all single atoms and '
                 'all ordered pairs of %d atoms: space, quotes, glob, empty, '
                 'unicode, dash, semicolon, backslash, hash, $RP_TASK_ID; '
                 'white space inside one argument alone and in two mixed '
                 'lists: two / several blanks, tab, newline, leading / '
                 'trailing / only blanks%s), '
                 'environment (none, singles and pairs of %d values, a value '
                 'with two blanks, one with a tab%s), '
                 'stdout / stderr (default, relative, absolute), one file '
                 'for both streams (relative, absolute), pre_exec '
                 '(%d lists: none, true, export, false, marks, per-rank '
                 'dicts for 3 ranks with first == last != middle content, '
                 'dicts with str / int keys, list values, partial, mixed), '
                 'post_exec (%d lists), GPUs per rank (%s, CUDA), cores per '
                 'rank, pre_exec_sync, exit code 0/3, task name, sandbox in '
                 '/ outside the pilot sandbox, launch script started by '
                 'Popen._launch_task / from another directory, '
                 'startup_timeout 0 / 5 s ($RP_CTRL is a recording stand-in), '
                 'named_env (none / a prepared env which defines a described '
                 'variable / one whose activation unsets it; activation '
                 'script built by the real get_task_named_env).  '
                 'Not enumerated: '
                 'pre_exec_sync with a pre_exec failing on some but not all '
                 'ranks '
                 '(barrier cannot complete without a real mpirun).  Each '
                 'case = generated launch + exec scripts run by bash after '
                 'the earlier cases of the same worker on one executor.  '
                 'distinct = distinct (launcher, input class, exit status, '
                 'probe runs per rank, marker set, failed clauses)'
                 % (', '.join('%s/%d rank%s' % (lm, r, 's' if r > 1 else '')
                              for lm, r in (LAUNCHERS_QUICK if ctx.quick
                                            else LAUNCHERS_THOROUGH)),
                    'full x core value lists (arguments and environment: '
                    'single atoms only; with several ranks only pairs with '
                    'at least one of %s, and 5 argument / 3 environment '
                    'values in pairs)' % '/'.join(RANK_FIELDS)
                    if ctx.quick else
                    'full x core value lists',
                    len(ARG_ATOMS),
                    '' if ctx.quick else '; plus %d further atoms alone and '
                    'in pairs when varied alone' % len(ARG_EXTRA),
                    len(ENV_ATOMS),
                    '' if ctx.quick else '; plus %d further values alone'
                    % len(ENV_EXTRA),
                    len(PRE_FULL), len(POST_FULL),
                    '0, 1, 2, 0.5 with distinct ids per rank, and the id '
                    'patterns [0][1][0], [0][0][1], [1][0][0], [1][1][1], '
                    '[0,1][2][0,1] of ranks 0-2'))
    ctx.set(distinct_nontrivial=len(ctx.outcomes))
    ctx.assume('`$VAR` and back-tick expansion in arguments, environment '
               'values and the executable are a documented feature '
               '(ru.sh_quote) and outside the alphabet except for the '
               'positive test $RP_TASK_ID',
               'the stand-in mpirun starts one exec script per rank with '
               'PMIX_RANK set, waits for all ranks and returns the first '
               'non-zero status; `sleep` in the rank barrier is a 20 ms stub',
               'prof / gtod are no-ops; the launcher env files only set a '
               'marker variable; the agent environment is PATH, HOME, LANG, '
               'TMPDIR',
               'per-rank pre/post entries are keyed by the rank id, given '
               'as str or int (TaskDescription documentation: "key is a '
               'rankID")',
               'a description the executor refuses (raises) is an outcome')


# ------------------------------------------------------------------------------
#
def replay(ctx, data):

    global _scratch
    _scratch = ctx.scratch

    r    = data['replay']
    fill = lambda c: dict(copy.deepcopy(BASE), **c)       # older replay files
    case = fill(r['case'])
    w    = World('%s/c10.replay' % ctx.scratch)
    for h in [fill(h) for h in r.get('history') or []]:
        print('earlier task:', json.dumps(h, sort_keys=True))
        w.run_case(h)
    obs     = w.run_case(case, verbose=True)
    clauses = check(w, case, obs)
    key     = (data.get('key') or '').split('|')
    mine    = [c for c in clauses if len(key) > 2 and [c[0], c[1]] == key[1:3]]
    if key[1:]:
        print('replayed key: %s' % data.get('key'))
    for clause, site, what in clauses:
        print('VIOLATED %s|%s :: %s%s' % (clause, site, what,
              '' if (clause, site, what) in mine or not mine else
              '   (another finding)'))
    if not clauses:
        print('no clause violated')
    return 1 if (mine or (clauses and not key[1:])) else 0
