'''
C18 -- The pilot offers exactly the nodes it was allocated.

Engine C (DESIGN.md 3.3): exhaustive enumeration of a bounded alphabet of
batch-system environments, real `ResourceManager.create(...)` for SLURM,
PBSPRO, TORQUE, LSF, COBALT, FORK and CCM, independent reference model.

Harness
-------
* every case runs in its own directory below the scratch dir, with a generated
  environment (`SLURM_NODELIST`, `PBS_NODEFILE`, `LSB_DJOB_HOSTFILE`,
  `COBALT_NODEFILE` / `COBALT_PARTNAME`, `$HOME/.crayccm/nodelist.*`);
  `os.environ` and the cwd are restored after each case;
* the registry is the in-memory one of `rpmc.net`; `LaunchMethod.create`
  returns a dummy; `Process` in resource_manager/base.py is a fake whose
  answer per node (R-eachable, U-nreachable, T-imeout) is part of the case;
  `qstat` (PBSPro) and `multiprocessing.cpu_count` (Fork) are environment
  answers, too;
* `RMInfo` list defaults are shared between instances of one process
  (`_deep = False`) -- every RM instance of the harness stands for a separate
  agent process and thus starts with pristine defaults.

Reference
---------
What is "configured" follows the documented node file convention of each
batch system:

  SLURM    names from the node list expression; cores from the config, else
           $SLURM_CPUS_ON_NODE; GPUs from the config, else $SLURM_GPUS_ON_NODE
           / $SLURM_JOB_GPUS
  PBSPRO   exec_vnode (names, ncpus) if qstat answers, else $PBS_NODEFILE with
           configured cores x SMT
  TORQUE   $PBS_NODEFILE; configured cores (or x SMT if the file lists hardware
  CCM      threads), else lines per host
  LSF      $LSB_DJOB_HOSTFILE without login/batch nodes, lines per host x SMT
  COBALT   $COBALT_NODEFILE / $COBALT_PARTNAME, configured cores
  FORK     `requested + backup` times localhost, configured or detected cores

An RM may refuse an input (raise): then nothing may be offered via the
registry.
'''

import os
import copy
import shutil
import itertools

from rpmc import seams, net, report, schedworld

rp = seams.import_rp()

import radical.utils as ru                                         # noqa: E402
import radical.pilot.agent as rpa                                  # noqa: E402

from radical.pilot import constants as rpc                         # noqa: E402
from radical.pilot.agent.resource_manager import base   as rm_base    # noqa
from radical.pilot.agent.resource_manager import fork   as rm_fork    # noqa
from radical.pilot.agent.resource_manager import pbspro as rm_pbspro  # noqa
from radical.pilot.agent.resource_manager import ResourceManager      # noqa


RMS = ['SLURM', 'PBSPRO', 'TORQUE', 'LSF', 'COBALT', 'FORK', 'CCM']

RM_CLASS = {'SLURM' : 'Slurm',  'PBSPRO': 'PBSPro', 'TORQUE': 'Torque',
            'LSF'   : 'LSF',    'COBALT': 'Cobalt', 'FORK'  : 'Fork',
            'CCM'   : 'CCM'}

HOSTS = ['n1', 'n2', 'n3', 'n4']

# SLURM node list expressions with the expansion written out by hand
SLURM_EXPR = {
    1: [('n1'               , ['n1']),
        ('n[07]'            , ['n07'])],
    2: [('n[1-2]'           , ['n1', 'n2']),
        ('n1,n3'            , ['n1', 'n3']),
        ('n[01-02]'         , ['n01', 'n02']),
        ('n1,m1'            , ['n1', 'm1'])],
    3: [('n[1-3]'           , ['n1', 'n2', 'n3']),
        ('n[01-02],m1'      , ['n01', 'n02', 'm1']),
        ('n[1,3],m2'        , ['n1', 'n3', 'm2']),
        ('n[1-2,4]'         , ['n1', 'n2', 'n4'])],
    4: [('n[1-4]'           , ['n1', 'n2', 'n3', 'n4']),
        ('n[01-02],m[1-2]'  , ['n01', 'n02', 'm1', 'm2']),
        ('n1,n3,m1,m2'      , ['n1', 'n3', 'm1', 'm2']),
        ('n[1-2,5-6]'       , ['n1', 'n2', 'n5', 'n6'])],
}

# COBALT_PARTNAME ranges
COBALT_PART = {
    1: [('7'      , ['nid00007'])],
    2: [('3-4'    , ['nid00003', 'nid00004']),
        ('3,12'   , ['nid00003', 'nid00012'])],
    3: [('3-5'    , ['nid00003', 'nid00004', 'nid00005']),
        ('1-2,7'  , ['nid00001', 'nid00002', 'nid00007'])],
    4: [('10-13'  , ['nid00010', 'nid00011', 'nid00012', 'nid00013']),
        ('1-2,7-8', ['nid00001', 'nid00002', 'nid00007', 'nid00008'])],
}

ENV_PREFIXES = ('SLURM_', 'PBS_', 'LSB_', 'COBALT_')
ENV_KEYS     = ('HOME', 'RADICAL_SMT', 'GPU_DEVICE_ORDINAL')

AGENT_LAYOUTS = {           # name -> targets of the configured sub-agents
    '0'      : [],
    '1'      : ['node'],
    '2'      : ['node', 'node'],
    'L'      : ['local'],
    'L+1'    : ['local', 'node'],
}


# ------------------------------------------------------------------------------
# environment fakes
#
class FakeProcess(object):
    '''
    stands in for `rc.process.Process` in resource_manager/base.py: the
    `ssh <node> hostname` probe whose result is an environment answer
    '''

    answers = dict()    # node name -> 'R' | 'U' | 'T'
    order   = None      # answers by call order (Fork: all nodes `localhost`)
    calls   = list()

    def __init__(self, cmd, *args, **kwargs):
        self.cmd     = cmd
        self.retcode = None
        self.stdout  = ''
        self.stderr  = ''
        words        = cmd.split()
        self.node    = words[-2] if len(words) >= 2 else None
        cls          = type(self)
        if cls.order is not None:
            idx = len(cls.calls)
            self.answer = cls.order[idx] if idx < len(cls.order) else 'U'
        else:
            self.answer = cls.answers.get(self.node, 'U')
        cls.calls.append(self.node)

    def start(self):
        pass

    def wait(self, timeout=None):
        if   self.answer == 'R': self.retcode, self.stdout = 0, self.node
        elif self.answer == 'U': self.retcode, self.stderr = 255, 'no route'
        return self.retcode

    def cancel(self):
        pass

    kill = cancel


class _Qstat(object):
    '''`ru` as seen by pbspro.py: `sh_callout(['qstat', ...])` is answered'''

    answer = None       # None: qstat fails; else: qstat -f output

    def __getattr__(self, name):
        return getattr(ru, name)

    def sh_callout(self, cmd, *args, **kwargs):
        if isinstance(cmd, (list, tuple)) and cmd and cmd[0] == 'qstat':
            if type(self).answer is None:
                return '', 'qstat: Unknown Job Id', 153
            return type(self).answer, '', 0
        return ru.sh_callout(cmd, *args, **kwargs)


class _CpuCount(object):
    '''`multiprocessing` as seen by fork.py'''

    detected = 4

    def __getattr__(self, name):
        import multiprocessing
        return getattr(multiprocessing, name)

    def cpu_count(self):
        return type(self).detected


class _DummyLM(object):

    def get_partition_ids(self): return []
    def finalize(self): pass
    def can_launch(self, task): return True, ''


_installed = False


def install():
    global _installed
    if _installed:
        return
    net.install()
    rm_base.Process          = FakeProcess
    rm_pbspro.ru             = _Qstat()
    rm_fork.multiprocessing  = _CpuCount()
    rpa.LaunchMethod.create  = classmethod(lambda cls, *a, **kw: _DummyLM())
    _installed = True


# ------------------------------------------------------------------------------
# case -> environment
#
def lines_per_host(case):
    shape = case['shape']
    if shape == 'node'  : return 1
    if shape == 'core'  : return case['C']
    if shape == 'thread': return case['C'] * case['S']
    raise ValueError(shape)


def nodefile_lines(case):
    hosts = case['hosts']
    lph   = lines_per_host(case)
    if case.get('order') == 'interleaved':
        lines = [h for _ in range(lph) for h in hosts]
    else:
        lines = [h for h in hosts for _ in range(lph)]
    pseudo = case.get('pseudo')
    if pseudo:
        names = {'login': ['login1'], 'batch': ['batch2'],
                 'both' : ['login1', 'batch2'], 'unmarked': ['h0']}[pseudo]
        if case.get('pseudo_pos') == 'last': lines = lines + names
        else                               : lines = names + lines
    return lines


def write_lines(path, lines):
    with open(path, 'w') as fout:
        for line in lines:
            fout.write('%s\n' % line)


def vnode_output(case):
    chunks = '+'.join('(%s:ncpus=%d)' % (h, case['C']) for h in case['hosts'])
    head   = 'Job Id: 42.pbs\n    Job_Name = pilot\n'
    tail   = '    Resource_List.ncpus = 8\n'
    if case.get('vnode_wrap') and len(chunks) > 12:
        cut = len(chunks) // 2
        return '%s    exec_vnode = %s\n\t%s\n%s' % (head, chunks[:cut],
                                                     chunks[cut:], tail)
    return '%s    exec_vnode = %s\n%s' % (head, chunks, tail)


def build_env(case, cdir):
    '''write the files of the case into `cdir`, return the environment'''

    rm  = case['rm']
    src = case['src']
    env = dict()
    C, S, G = case['C'], case['S'], case['G']
    n   = len(case['hosts'])

    if rm == 'SLURM':
        var = 'SLURM_JOB_NODELIST' if src == 'job_nodelist' else \
              'SLURM_NODELIST'
        env[var]             = case['expr']
        env['SLURM_JOB_ID']  = '4711'
        env['SLURM_NPROCS']  = str(n * C)
        env['SLURM_NNODES']  = str(n)
        if not case['cpn_cfg']:
            env['SLURM_CPUS_ON_NODE'] = str(C)
        if   case['gpu_src'] == 'gpus_on_node':
            env['SLURM_GPUS_ON_NODE'] = str(G)
        elif case['gpu_src'] == 'job_gpus' and G:
            env['SLURM_JOB_GPUS'] = ','.join(str(i) for i in range(G))

    elif rm in ('PBSPRO', 'TORQUE'):
        env['PBS_NODEFILE'] = os.path.join(cdir, 'pbs_nodefile')
        write_lines(env['PBS_NODEFILE'], nodefile_lines(case))
        if src != 'nojobid':
            env['PBS_JOBID'] = '42.pbs'

    elif rm == 'LSF':
        env['LSB_JOBID']         = '42'
        env['LSB_DJOB_HOSTFILE'] = os.path.join(cdir, 'lsb_hostfile')
        write_lines(env['LSB_DJOB_HOSTFILE'], nodefile_lines(case))

    elif rm == 'COBALT':
        env['COBALT_JOBID'] = '42'
        if src in ('nodefile', 'both'):
            env['COBALT_NODEFILE'] = os.path.join(cdir, 'cobalt_nodefile')
            write_lines(env['COBALT_NODEFILE'], nodefile_lines(case))
        if src == 'partname':
            env['COBALT_PARTNAME'] = case['expr']
            env['COBALT_PARTSIZE'] = str(n)
        if src == 'both':
            env['COBALT_PARTNAME'] = '900-903'

    elif rm == 'CCM':
        home = os.path.join(cdir, 'home')
        os.mkdir(home)
        env['HOME'] = home
        if src != 'nodir':
            ccm = os.path.join(home, '.crayccm')
            os.mkdir(ccm)
            if src != 'nofile':
                path = os.path.join(ccm, 'nodelist.4711')
                write_lines(path, nodefile_lines(case))
                os.utime(path, (2000000000, 2000000000))
            if src == 'decoy':
                # an older node list of an earlier job and an unrelated file
                path = os.path.join(ccm, 'nodelist.0815')
                write_lines(path, ['old1', 'old2', 'old3'])
                os.utime(path, (1000000000, 1000000000))
                # ... and one whose name sorts behind the current job's
                path = os.path.join(ccm, 'nodelist.99998')
                write_lines(path, ['old7', 'old8'])
                os.utime(path, (1500000000, 1500000000))
                path = os.path.join(ccm, 'other.9999')
                write_lines(path, ['other1'])
                os.utime(path, (2100000000, 2100000000))

    elif rm == 'FORK':
        pass

    if case.get('services'):
        write_lines(os.path.join(cdir, 'services'), ['#!/bin/sh', 'true'])

    return env


def build_cfg(case):

    rm      = case['rm']
    C, S, G = case['C'], case['S'], case['G']
    req     = case['req']

    cpn = C if case['cpn_cfg'] else 0
    if rm == 'LSF' and cpn:
        cpn = C * S                  # LSF configs give cores incl. SMT threads

    gpn = G
    if rm == 'SLURM' and case['gpu_src'] != 'cfg':
        gpn = 0

    agents = dict()
    for i, target in enumerate(AGENT_LAYOUTS[case['agents']]):
        agents['agent_%d' % (i + 1)] = {'target': target,
                                        'components': {'agent_executing':
                                                       {'count': 1}}}

    nodes, cores, gpus = req, req * C, req * G
    if case.get('by_cores'):
        # the pilot is sized by cores: the number of nodes is derived from
        # the usable cores per node
        assert cpn
        nodes, cores, gpus = 0, req * (cpn - len(case['bc'])), 0

    cfg = ru.Config(from_dict={
        'pid'              : 'pilot.0000',
        'resource'         : 'verif.c18',
        'reg_addr'         : 'mem://reg',
        'nodes'            : nodes,
        'cores'            : cores,
        'gpus'             : gpus,
        'backup_nodes'     : case['backup'],
        'cores_per_node'   : cpn,
        'gpus_per_node'    : gpn,
        'lfs_size_per_node': 0,
        'lfs_path_per_node': '/tmp',
        'agents'           : agents})

    rcfg = ru.Config(from_dict={
        'mem_per_node'       : 0,
        'numa_domain_map'    : {},
        'n_partitions'       : 1,
        'fake_resources'     : bool(case.get('fake')),
        'launch_methods'     : {'order': ['FORK'], 'FORK': {}},
        'system_architecture': {'smt'          : S,
                                'blocked_cores': list(case['bc']),
                                'blocked_gpus' : list(case['bg'])}})
    return cfg, rcfg


# ------------------------------------------------------------------------------
# reference model
#
def model(case):
    '''
    what the inputs of the case say: names of the allocated nodes the pilot
    may use, cores and GPUs per node.  `cores` is a set of acceptable values
    or None if nothing is configured (the RM is expected to refuse).
    '''

    rm      = case['rm']
    src     = case['src']
    C, S, G = case['C'], case['S'], case['G']
    hosts   = list(case['hosts'])
    lph     = lines_per_host(case) if 'shape' in case else None

    if   rm == 'SLURM':
        cores = {C}

    elif rm == 'PBSPRO':
        if   src == 'vnodes'  : cores = {C}
        elif case['cpn_cfg']  : cores = {C * S}
        else                  : cores = None

    elif rm in ('TORQUE', 'CCM'):
        if case['cpn_cfg']    : cores = {C, C * S}
        else                  : cores = {lph}

    elif rm == 'LSF':
        if case['cpn_cfg']    : cores = {C * S}
        else                  : cores = {lph * S}

    elif rm == 'COBALT':
        if case['cpn_cfg']    : cores = {C}
        else                  : cores = None

    elif rm == 'FORK':
        hosts = ['localhost'] * (case['req'] + case['backup'])
        if case['cpn_cfg']    : cores = {C}
        else                  : cores = {case['detected']}

    if case['backup']:
        reach  = case['reach']
        usable = [h for h, r in zip(hosts, reach) if r == 'R']
    else:
        usable = list(hosts)

    n_agents   = AGENT_LAYOUTS[case['agents']].count('node')
    n_services = 1 if case.get('services') else 0
    total      = min(case['req'], len(usable))

    # the pilot may use `requested` of the usable nodes; nodes set aside for
    # sub-agents and services are taken from those (what the RM does) or from
    # spare usable nodes (just as good): a range
    reserved   = n_agents + n_services
    return {'hosts'     : hosts,
            'usable'    : usable,
            'cores'     : cores,
            'gpus'      : G,
            'n_agents'  : n_agents,
            'n_services': n_services,
            'lo'        : total - reserved,
            'hi'        : min(case['req'], len(usable) - reserved)}


# ------------------------------------------------------------------------------
# triggers (abstraction of the input class for violation keys)
#
def t_parse(case, got=None):
    '''
    presentation class: RM, source, node file shape, what is configured.  For
    the cores clause `got` adds how the offered size relates to the inputs.
    '''
    src = case['src']
    if case['rm'] == 'CCM' and src in ('latest', 'decoy'):
        src = 'nodelist'
    t = '%s/%s' % (case['rm'], src)
    if 'shape' in case and case['src'] != 'vnodes':
        t += '/per-%s' % case['shape']
        if case.get('order') == 'interleaved':
            t += '-interleaved'
    if case.get('pseudo'):
        t += '/pseudo=%s' % case['pseudo']
    t += '/cores=%s' % ('cfg' if case['cpn_cfg'] else 'env')
    if got is not None:
        C, S = case['C'], case['S']
        lph  = lines_per_host(case) if 'shape' in case else None
        if   len(got) != 1      : rel = 'non-uniform'
        elif got[0] == lph != C : rel = 'lines-per-host'
        elif got[0] == C        : rel = 'cores'
        elif got[0] == C * S    : rel = 'cores-x-smt'
        elif got[0] == 1        : rel = '1'
        else                    : rel = 'other'
        t += '/got=%s' % rel
    return t


def t_gpus(case):
    return '%s/gpus=%s' % (case['rm'], case.get('gpu_src', 'cfg'))


def t_blocked(case):
    return '%s/blocked=%s' % (case['rm'],
                              '+'.join(x for x, y in (('cores', case['bc']),
                                                      ('gpus',  case['bg']))
                                       if y) or 'none')


def reach_class(case):
    if not case['backup']:
        return '-'
    r = case['reach']
    if set(r) == {'R'}: return 'all-ok'
    if 'R' not in r   : return 'none-ok'
    return 'ok+' + ''.join(sorted(set(r) - {'R'}))


def t_filter(case):
    n = len(model(case)['hosts'])
    return '%s/agents=%s/services=%d/backup=%d/reach=%s/req%salloc' % (
            case['rm'], case['agents'], 1 if case.get('services') else 0,
            case['backup'], reach_class(case),
            '=' if case['req'] == n else '<')


def t_layout(case):
    return '%s/agents=%s/services=%d' % (case['rm'], case['agents'],
                                         1 if case.get('services') else 0)


def t_count(case):
    m = model(case)
    if not case['backup']                 : probe = 'none'
    elif len(m['usable']) == len(m['hosts']): probe = 'all-ok'
    else                                  : probe = 'some-bad'
    return '%s/reserved=%s/backup=%d/probe=%s/req%salloc' % (
            case['rm'], '0' if not m['n_agents'] + m['n_services'] else '>0',
            case['backup'], probe,
            '=' if case['req'] == len(m['hosts']) else '<')


# ------------------------------------------------------------------------------
#
class Env(object):
    '''generated environment and cwd for one case; restores both'''

    def __init__(self, case, scratch):
        self.case    = case
        self.scratch = scratch

    def __enter__(self):
        self.saved_env = dict(os.environ)
        self.saved_cwd = os.getcwd()
        self.cdir = os.path.join(self.scratch, 'c18.%d' % os.getpid())
        if os.path.exists(self.cdir):
            shutil.rmtree(self.cdir)
        os.mkdir(self.cdir)
        for k in list(os.environ):
            if k.startswith(ENV_PREFIXES) or k in ENV_KEYS:
                del os.environ[k]
        self.env = build_env(self.case, self.cdir)
        os.environ.update(self.env)
        os.chdir(self.cdir)

        FakeProcess.calls   = list()
        FakeProcess.answers = dict()
        FakeProcess.order   = None
        if self.case['backup']:
            if self.case['rm'] == 'FORK':
                FakeProcess.order = list(self.case['reach'])
            else:
                names = list(self.case['hosts'])
                FakeProcess.answers = dict(zip(names, self.case['reach']))
        _Qstat.answer = vnode_output(self.case) \
                        if self.case['src'] == 'vnodes' else None
        _CpuCount.detected = self.case.get('detected', 4)
        return self

    def __exit__(self, *exc):
        os.chdir(self.saved_cwd)
        for k in list(os.environ):
            if k not in self.saved_env:
                del os.environ[k]
        for k, v in self.saved_env.items():
            if os.environ.get(k) != v:
                os.environ[k] = v
        shutil.rmtree(self.cdir, ignore_errors=True)
        return False


def create_rm(case):
    '''one agent process: pristine RMInfo defaults, real factory'''
    schedworld.fresh_rminfo_defaults()
    cfg, rcfg = build_cfg(case)
    return ResourceManager.create(case['rm'], cfg, rcfg,
                                  seams.null(), seams.null())


def execute(case, scratch):
    '''
    run the case: returns (first, second, registry, error) where first and
    second are info dicts (or an exception for second), error the exception
    the first RM refused with.
    '''
    install()
    with Env(case, scratch) as env:
        n = net.Net().activate()
        try:
            rm_1 = create_rm(case)
        except Exception as e:
            return None, None, copy.deepcopy(dict(n.reg)), e, env.env

        info_1 = copy.deepcopy(rm_1.info.as_dict())
        reg_1  = copy.deepcopy(dict(n.reg))
        calls  = len(FakeProcess.calls)

        # a second component (another process): same environment, same
        # registry
        try:
            rm_2   = create_rm(case)
            info_2 = copy.deepcopy(rm_2.info.as_dict())
            if len(FakeProcess.calls) != calls:
                info_2 = RuntimeError('second instance probed the nodes again')
        except Exception as e:
            info_2 = e

        return info_1, info_2, reg_1, None, env.env


# ------------------------------------------------------------------------------
# oracle
#
def diff_keys(a, b):
    return sorted(k for k in set(a) | set(b) if a.get(k) != b.get(k))


def check_case(part, case, scratch, verbose=False):

    info, info_2, reg, error, env = execute(case, scratch)
    m      = model(case)
    rm     = case['rm']
    cls    = RM_CLASS[rm]
    replay = case
    rkey   = 'rm.%s' % cls.lower()

    if verbose:
        print('case       :', case)
        print('environment:', env)
        if 'shape' in case and case['rm'] != 'FORK' and \
           case['src'] not in ('vnodes', 'nofile', 'nodir'):
            print('node file  :', ' '.join(nodefile_lines(case)))
        if case['src'] == 'vnodes':
            print('qstat -f   :', repr(vnode_output(case)))
        cfg, rcfg = build_cfg(case)
        print('cfg        :', {k: cfg[k] for k in ('nodes', 'cores', 'gpus',
                               'backup_nodes', 'cores_per_node',
                               'gpus_per_node')},
              'agents:', {k: v['target'] for k, v in cfg['agents'].items()},
              './services:', bool(case.get('services')))
        print('rcfg       :', rcfg['system_architecture'].as_dict(),
              'fake_resources:', rcfg['fake_resources'])
        if case['backup']:
            print('node probe :', case['reach'],
                  '(R reachable, U unreachable, T timeout; in allocation '
                  'order)')
        print('model      :', m)

    # --------------------------------------------------------------------------
    if error is not None:
        if verbose:
            print('refused    : %r' % error)
        entry = reg.get('rm', {}).get(cls.lower()) if reg.get('rm') else None
        if entry:
            part.violation('offered-after-refusal|%s.__init__|%s'
                           % (cls, t_count(case)),
                           {'what': 'RM raised %r but registry holds %s with '
                                    '%d nodes' % (error, rkey,
                                              len(entry.get('node_list', [])))},
                           replay)
        part.cover(refused=1)
        part.outcome((t_parse(case), t_filter(case), 'refused',
                      type(error).__name__))
        return 'refused'

    # --------------------------------------------------------------------------
    nl  = info['node_list']
    anl = info['agent_node_list']
    snl = info['service_node_list']

    if verbose:
        print('node_list        :', nl)
        print('agent_node_list  :', anl)
        print('service_node_list:', snl)
        print('backup_list      :', info.get('backup_list'))

    def names(lst):
        return [node['name'] for node in lst]

    def idxs(lst):
        return [node['index'] for node in lst]

    p_site = '%s.init_from_scratch' % cls
    f_site = 'ResourceManager._filter_nodes'

    # names as allocated, one entry per node
    alien = [x for x in names(nl) if x not in m['usable']]
    if alien:
        what = 'not allocated' if [x for x in alien if x not in m['hosts']] \
               else 'not reachable'
        part.violation('names-allocated|%s|%s'
                       % (p_site if what == 'not allocated' else f_site,
                          t_parse(case) if what == 'not allocated'
                          else t_count(case)),
                       {'what': 'offered %s, %s: %s; usable are %s'
                                % (names(nl), what, alien, m['usable'])},
                       replay)

    if rm != 'FORK' and len(set(names(nl))) != len(nl):
        part.violation('one-entry-per-node|%s|%s' % (p_site, t_parse(case)),
                       {'what': 'node offered more than once: %s'
                                % names(nl)}, replay)

    if len(set(idxs(nl))) != len(nl) or \
       any(not isinstance(i, int) or isinstance(i, bool) for i in idxs(nl)):
        part.violation('index-unique|%s|%s' % (p_site, t_parse(case)),
                       {'what': 'node indices %s' % idxs(nl)}, replay)

    # cores and gpus
    clens = sorted(set(len(node['cores']) for node in nl))
    glens = sorted(set(len(node['gpus'])  for node in nl))

    if m['cores'] is not None and not set(clens) <= m['cores']:
        part.violation('cores-len|%s|%s' % (p_site, t_parse(case, clens)),
                       {'what': 'nodes have %s cores, configured: %s '
                                '(C=%d, SMT=%d, lines/host=%s)'
                                % (clens, sorted(m['cores']), case['C'],
                                   case['S'], lines_per_host(case)
                                   if 'shape' in case else '-')}, replay)
    elif len(clens) != 1:
        part.violation('cores-len|%s|%s' % (p_site, t_parse(case, clens)),
                       {'what': 'nodes differ in size: %s' % clens}, replay)

    if glens != [m['gpus']]:
        part.violation('gpus-len|%s|%s' % (p_site, t_gpus(case)),
                       {'what': 'nodes have %s gpus, configured: %d'
                                % (glens, m['gpus'])}, replay)

    # blocked entries DOWN, and only those
    for node in nl:
        down_c = [i for i, c in enumerate(node['cores']) if c is rpc.DOWN]
        down_g = [i for i, g in enumerate(node['gpus'])  if g is rpc.DOWN]
        if down_c != sorted(case['bc']) or down_g != sorted(case['bg']):
            part.violation('blocked-marking|ResourceManager._init_from_scratch'
                           '|%s' % t_blocked(case),
                           {'what': 'node %s: cores %s gpus %s; blocked cores '
                                    '%s gpus %s' % (node['name'], node['cores'],
                                    node['gpus'], case['bc'], case['bg'])},
                           replay)
            break
        if any(c != rpc.FREE for i, c in enumerate(node['cores'])
                                    if i not in down_c) or \
           any(g != rpc.FREE for i, g in enumerate(node['gpus'])
                                    if i not in down_g):
            part.violation('usable-unless-blocked|ResourceManager._init_from_scratch|%s'
                           % t_blocked(case),
                           {'what': 'node %s: resources not blocked but not '
                                    'free: '
                                    'cores %s gpus %s' % (node['name'],
                                    node['cores'], node['gpus'])}, replay)
            break

    # reserved nodes
    for what, lst in (('agent', anl), ('service', snl)):
        common = set(idxs(nl)) & set(idxs(lst))
        if rm != 'FORK':
            common |= set(names(nl)) & set(names(lst))
        if common:
            part.violation('disjoint-%s|%s|%s' % (what, f_site, t_layout(case)),
                           {'what': 'nodes %s offered and reserved for %s: '
                                    'node_list %s, %s_node_list %s'
                                    % (sorted(common, key=str), what, names(nl), what,
                                       names(lst))}, replay)

    if len(anl) != m['n_agents']:
        part.violation('agent-size|%s|%s' % (f_site, t_layout(case)),
                       {'what': '%d nodes reserved for %d sub-agents on nodes'
                                % (len(anl), m['n_agents'])}, replay)

    if len(snl) != m['n_services']:
        part.violation('service-size|%s|%s' % (f_site, t_layout(case)),
                       {'what': '%d nodes reserved for services, ./services %s'
                                % (len(snl), 'exists' if m['n_services']
                                             else 'does not exist')}, replay)

    # size
    if not 1 <= len(nl) <= case['req']:
        part.violation('length-bounds|%s|%s' % (f_site, t_count(case)),
                       {'what': '%d nodes offered, %d requested'
                                % (len(nl), case['req'])}, replay)

    elif not m['lo'] <= len(nl) <= m['hi']:
        part.violation('one-entry-per-usable-node|%s|%s'
                       % (f_site, t_count(case)),
                       {'what': '%d nodes offered: %s; usable: %s, requested '
                                '%d, reserved %d + %d'
                                % (len(nl), names(nl), m['usable'],
                                   case['req'], m['n_agents'],
                                   m['n_services'])}, replay)

    # same view
    if isinstance(info_2, Exception):
        part.violation('same-view|ResourceManager.__init__|%s/raises' % rm,
                       {'what': 'second instance: %r' % info_2}, replay)
    elif info_2 != info:
        keys = diff_keys(info, info_2)
        part.violation('same-view|ResourceManager.__init__|%s/%s'
                       % (rm, '+'.join(keys)),
                       {'what': 'second instance differs in %s: %s'
                                % (keys, [(info.get(k), info_2.get(k))
                                          for k in keys])}, replay)
    elif verbose:
        print('second instance: equal info')

    part.cover(accepted=1)
    part.outcome((t_parse(case), t_filter(case), t_blocked(case), 'ok',
                  len(nl), clens[0] if clens else None,
                  glens[0] if glens else None))
    return {'node_list': [[node['name'], node['index'], node['cores'],
                           node['gpus']] for node in nl],
            'agent_node_list'  : names(anl),
            'service_node_list': names(snl)}


# ------------------------------------------------------------------------------
# alphabet
#
def hw_variants(full):
    '''(C, S, G, blocked cores, blocked gpus)'''
    out = list()
    for C in (2, 3, 4):
        for S in (1, 2):
            bcs = [[], [0], [C - 1], [0, 1]]
            gbs = [(0, []), (1, []), (2, []), (1, [0]), (2, [0]), (2, [1])]
            if full:
                combos = [(g, bg, bc) for g, bg in gbs for bc in bcs]
            else:
                # every blocked-core form and every GPU form at least once
                combos = [(0, [] , []      ), (1, [] , [0]   ),
                          (2, [0], [C - 1] ), (2, [1], [0, 1]),
                          (1, [0], []      ), (2, [] , []    )]
            for g, bg, bc in combos:
                out.append({'C': C, 'S': S, 'G': g, 'bc': bc, 'bg': bg})
    return out


HW_SMALL = [{'C': 2, 'S': 1, 'G': 1, 'bc': [] , 'bg': [] },
            {'C': 3, 'S': 2, 'G': 2, 'bc': [0], 'bg': [1]},
            {'C': 4, 'S': 2, 'G': 0, 'bc': [3], 'bg': [] }]


def file_shapes(n, hw):
    out = list()
    for shape in ('node', 'core', 'thread'):
        if shape == 'thread' and hw['S'] == 1:
            continue                                    # same file as `core`
        out.append({'shape': shape, 'order': 'grouped'})
        if n > 1 and shape != 'node':
            out.append({'shape': shape, 'order': 'interleaved'})
    return out


def parse_variants(rm, n, hw, primary_only=False):
    '''
    all ways the allocation of `n` nodes is presented to the RM; with
    `primary_only` the canonical form of the batch system plus one other
    '''
    out   = list()
    hosts = HOSTS[:n]
    po    = primary_only
    std   = {'hosts': hosts, 'gpu_src': 'cfg'}

    if rm == 'SLURM':
        for i, (expr, names) in enumerate(SLURM_EXPR[n]):
            for src in ('nodelist', 'job_nodelist'):
                if src == 'job_nodelist' and i:
                    continue
                for cpn_cfg in (True, False):
                    for gpu_src in ('cfg', 'gpus_on_node', 'job_gpus'):
                        if po and (i > 1 or src != 'nodelist' or
                                   gpu_src != 'cfg' or not cpn_cfg):
                            continue
                        out.append({'hosts': names, 'src': src, 'expr': expr,
                                    'cpn_cfg': cpn_cfg, 'gpu_src': gpu_src})

    elif rm == 'PBSPRO':
        for fs in file_shapes(n, hw):
            for cpn_cfg in (True, False):
                if po and (not cpn_cfg or fs['order'] != 'grouped'
                                       or fs['shape'] == 'thread'):
                    continue
                out.append(dict(std, src='nodefile', cpn_cfg=cpn_cfg, **fs))
        for wrap in (False, True):
            for cpn_cfg in (True, False):
                if po and (wrap or not cpn_cfg):
                    continue
                out.append(dict(std, src='vnodes', cpn_cfg=cpn_cfg,
                                vnode_wrap=wrap, shape='node',
                                order='grouped'))
        if not po:
            out.append(dict(std, src='nojobid', cpn_cfg=True, shape='node',
                            order='grouped'))

    elif rm == 'TORQUE':
        for fs in file_shapes(n, hw):
            for cpn_cfg in (True, False):
                if po and (fs['shape'] != 'core' or
                           (not cpn_cfg and fs['order'] != 'grouped')):
                    continue
                out.append(dict(std, src='nodefile', cpn_cfg=cpn_cfg, **fs))

    elif rm == 'LSF':
        for fs in file_shapes(n, hw):
            for pseudo, pos in [(None, None)] + \
                               [(p, q) for p in ('login', 'batch', 'both',
                                                 'unmarked')
                                       for q in ('first', 'last')]:
                for cpn_cfg in (True, False):
                    if po and (fs != {'shape': 'core', 'order': 'grouped'} or
                               pseudo not in (None, 'both') or pos == 'last' or
                               (not cpn_cfg and pseudo)):
                        continue
                    out.append(dict(std, src='hostfile', cpn_cfg=cpn_cfg,
                                    pseudo=pseudo, pseudo_pos=pos, **fs))

    elif rm == 'COBALT':
        for fs in file_shapes(n, hw):
            for cpn_cfg in (True, False):
                if po and (not cpn_cfg or fs['order'] != 'grouped'
                                       or fs['shape'] == 'thread'):
                    continue
                out.append(dict(std, src='nodefile', cpn_cfg=cpn_cfg, **fs))
        for i, (expr, names) in enumerate(COBALT_PART[n]):
            for cpn_cfg in (True, False):
                if po and (i or not cpn_cfg):
                    continue
                out.append({'hosts': names, 'src': 'partname', 'expr': expr,
                            'cpn_cfg': cpn_cfg, 'gpu_src': 'cfg'})
        if not po:
            out.append(dict(std, src='both', cpn_cfg=True, shape='node',
                            order='grouped'))

    elif rm == 'CCM':
        for src in ('latest', 'decoy'):
            for fs in file_shapes(n, hw):
                for cpn_cfg in (True, False):
                    if po and (fs['shape'] != 'core' or src != 'decoy' or
                               (not cpn_cfg and fs['order'] != 'grouped')):
                        continue
                    out.append(dict(std, src=src, cpn_cfg=cpn_cfg, **fs))
        if not po:
            out.append(dict(std, src='nofile', cpn_cfg=True, shape='core',
                            order='grouped'))
            out.append(dict(std, src='nodir',  cpn_cfg=True, shape='core',
                            order='grouped'))

    elif rm == 'FORK':
        C = hw['C']
        for fake in (True, False):
            for cpn_cfg in (True, False):
                for detected in (C, C * 4, C - 1):
                    if po and (not cpn_cfg or detected != C * 4):
                        continue
                    out.append(dict(std, src='fake' if fake else 'real',
                                    fake=fake, cpn_cfg=cpn_cfg,
                                    detected=detected))
    return out


LAYOUTS_ALL   = [(a, s) for a in ('0', '1', '2', 'L', 'L+1')
                        for s in (False, True)]
LAYOUTS_SMALL = [('0', False), ('1', False), ('2', True), ('L+1', True)]


def filter_variants(rm, n, reduced=False):
    '''requested / backup nodes, reachability, agent layout, services'''
    out = list()
    for backup in (0, 1):
        for req in range(1, n + 1):
            if rm == 'FORK' and req + backup != n:
                continue                 # Fork's allocation is what was asked
            reaches = [''.join(r) for r in itertools.product('RUT', repeat=n)] \
                      if backup else ['R' * n]
            layouts = LAYOUTS_ALL
            if reduced and backup and n == 4:
                layouts = LAYOUTS_SMALL
            for reach in reaches:
                for agents, services in layouts:
                    out.append({'req': req, 'backup': backup, 'reach': reach,
                                'agents': agents, 'services': services})
    return out


def filter_minis(n):
    out = [{'req': n, 'backup': 0, 'reach': 'R' * n, 'agents': '0',
            'services': False}]
    if n > 2:
        out.append({'req': n, 'backup': 0, 'reach': 'R' * n, 'agents': '1',
                    'services': True})
    if n > 1:
        out.append({'req': n - 1, 'backup': 1, 'reach': 'R' * (n - 1) + 'U',
                    'agents': 'L', 'services': False})
    return out


def gen_cases(quick):

    cases = list()

    # A: presentation of the allocation x hardware, plain layout
    for rm in RMS:
        for n in (1, 2, 3, 4):
            for hw in hw_variants(full=not quick):
                for pv in parse_variants(rm, n, hw):
                    fvs = filter_minis(n)[:1] if quick else filter_minis(n)
                    for fv in fvs:
                        if rm == 'FORK' and fv['req'] + fv['backup'] != n:
                            continue
                        cases.append(dict(pv, rm=rm, part='A', **hw, **fv))

    # B: requested / backup / reachability / layout, few presentations
    for rm in RMS:
        for n in (1, 2, 3, 4) + ((5,) if rm == 'FORK' else ()):
            if rm == 'FORK' and n == 5:
                fvs = [fv for fv in filter_variants(rm, 5, reduced=True)
                          if fv['backup']]
            else:
                fvs = filter_variants(rm, n, reduced=quick)
            for hw in (HW_SMALL[:1] if quick else HW_SMALL):
                pvs = parse_variants(rm, min(n, 4), hw, primary_only=True)
                if quick:
                    pvs = pvs[:1]
                for pv in pvs:
                    for fv in fvs:
                        cases.append(dict(pv, rm=rm, part='B', **hw, **fv))

    # C: blocked cores / GPUs x (backup node moving in for an unreachable one,
    #    pilot sized by cores instead of nodes)
    for rm in RMS:
        for n in (2, 3):
            for hw in HW_SMALL[1:]:
                pvs = [pv for pv in parse_variants(rm, n, hw,
                                                   primary_only=True)
                       if pv['cpn_cfg']][:1]
                for pv in pvs:
                    for first in 'UT':
                        if rm == 'FORK':
                            continue
                        cases.append(dict(pv, rm=rm, part='C', **hw,
                                          req=n - 1, backup=1,
                                          reach=first + 'R' * (n - 1),
                                          agents='0', services=False))
                    for req in range(1, n + 1):
                        if rm == 'FORK':
                            # Fork makes up its allocation from the request:
                            # there is no given node list to compare with
                            continue
                        cases.append(dict(pv, rm=rm, part='C', **hw, req=req,
                                          backup=0, reach='R' * n, agents='0',
                                          services=False, by_cores=True))

    return cases


# ------------------------------------------------------------------------------
#
_cases   = None
_scratch = None


def _job(idx):
    lo, hi = idx
    part   = report.Part()
    per_rm = dict()
    for i in range(lo, hi):
        case = _cases[i]
        res  = check_case(part, case, _scratch)
        key  = '%s_%s' % (case['rm'], 'refused' if res == 'refused'
                                                 else 'accepted')
        per_rm[key] = per_rm.get(key, 0) + 1
    part.cover(evaluations=hi - lo, **per_rm)
    return part.dump()


def run(ctx):

    global _cases, _scratch

    ctx.level = 'exploration'
    _scratch  = ctx.scratch
    _cases    = gen_cases(ctx.quick)

    chunk = max(1, min(500, len(_cases) // (ctx.workers * 8)))
    jobs  = [(lo, min(lo + chunk, len(_cases)))
             for lo in range(0, len(_cases), chunk)]

    for res in seams.pmap(_job, jobs, ctx.workers):
        ctx.merge(res)

    # written-out cases: one per stage of the RM
    picks = [lambda c: c['rm'] == 'LSF' and c.get('pseudo') == 'both'
                       and c['S'] == 2 and c['bc'] and len(c['hosts']) == 2
                       and not c['cpn_cfg'] and c['shape'] == 'core',
             lambda c: c['rm'] == 'SLURM' and c['part'] == 'B'
                       and c['reach'] == 'RURR' and c['req'] == 3
                       and c['agents'] == 'L+1' and c['services'],
             lambda c: c['rm'] == 'PBSPRO' and c['src'] == 'vnodes'
                       and len(c['hosts']) == 3 and c['bg']]
    for pick in picks:
        for case in _cases:
            if pick(case):
                res = check_case(report.Part(), case, _scratch)
                ctx.sample({'case': case, 'result': res})
                break

    # a harness in which an RM never comes up decides nothing
    # (unless other inputs already decided it)
    for rm in RMS:
        if not ctx.coverage.get('%s_accepted' % rm):
            if not getattr(ctx, '_nviol', 0):
                raise RuntimeError('harness: %s refused every input' % rm)
            ctx.notes.append('%s refused every input' % rm)

    n_a = len([c for c in _cases if c['part'] == 'A'])
    ctx.set(exhaustive=True, cases_presentation=n_a,
            cases_layout=len(_cases) - n_a,
            rule='two complete products per resource manager (SLURM, PBSPRO, '
                 'TORQUE, LSF, COBALT, FORK, CCM), allocations of 1-4 hosts: '
                 '(A) every presentation of the allocation (node file: one '
                 'line per node / core / hardware thread, grouped / '
                 'interleaved; SLURM expressions; exec_vnode; Cobalt ranges; '
                 'LSF login/batch/unmarked pseudo nodes first/last; CCM '
                 'latest/decoy files) x cores/node 2-4 x SMT 1-2 x GPUs 0-2 x '
                 'blocked cores/GPUs x cores configured or detected, %s; (B) '
                 'requested nodes 1..allocation x backup 0/1 x all 3^n '
                 'answers (reachable, unreachable, timeout) of the node probe '
                 'x agent layouts (0/1/2 sub-agents on nodes, local agents) x '
                 './services present or not, for %s.  Each case: first RM '
                 'from scratch, second RM from the registry entry.  distinct '
                 '= distinct (input class, result) pairs'
                 % ('plain layout' if ctx.quick else
                    'with three layouts (plain, agent+service, backup)',
                    'the canonical presentation' if ctx.quick else
                    'canonical and one non-canonical presentation x 3 '
                    'hardware configurations'))
    ctx.set(distinct_nontrivial=len(ctx.outcomes))
    ctx.assume('an RM instance stands for one agent process: RMInfo defaults '
               'are pristine at its creation',
               'node probe, qstat and cpu_count answers are environment '
               'choices; LaunchMethod.create is stubbed',
               'what is configured follows the node file convention of each '
               'batch system (module docstring); an RM may refuse an input')


def replay(ctx, data):
    case = data['replay']
    part = report.Part()
    check_case(part, case, ctx.scratch, verbose=True)
    for k, (d, _) in part.violations.items():
        print('VIOLATED', k, '::', d['what'])
    if not part.violations:
        print('no clause violated')
    return 1 if part.violations else 0
