def run_nodelist(ctx, pid):
    pass
