'''
H2 of C01/C02/C03: the application-level slot finder
(resource_config.NodeList / Node / NumaNode).

Explicit-state search (engine A by replay): a state is the operation history
reaching it; every transition calls the real find_slots / release_slots /
allocate_slot on a NodeList rebuilt from the node list the real RM code
produced; states are merged on a canonical form that contains everything the
code reads (occupations, lfs, mem, round-robin index, failure cache) plus the
oracle's ledger.
'''

import copy
import collections

from rpmc import seams, schedworld as sw

rp = seams.import_rp()

from radical.pilot import constants as rpc                         # noqa: E402
from radical.pilot.resource_config import (NodeList, Node, NumaNode, Slot,
                                           RankRequirements, RO,
                                           NumaDomain)            # noqa: E402

EPS = 1e-9

LAYOUTS = {
    'N1x4g2'  : dict(nodes=1, cores=4, gpus=2, lfs=2, mem=2),
    'N2x2g1'  : dict(nodes=2, cores=2, gpus=1, lfs=2, mem=2),
    'N2x4g2b' : dict(nodes=2, cores=4, gpus=2, lfs=2, mem=2,
                     blocked_cores=[0], blocked_gpus=[1]),
    # node indices are not list positions (a node was dropped from the
    # allocation, e.g. an unreachable node with backup nodes)
    'N2x2gap' : dict(nodes=2, cores=2, gpus=1, lfs=2, mem=2, gap=True),
    'N1x4numa': dict(nodes=1, cores=4, gpus=2, lfs=2, mem=2,
                     numa={0: ([0, 1], [0]), 1: ([2, 3], [1])}),
}

RRS = {
    '1c'   : dict(n_cores=1),
    '2c'   : dict(n_cores=2),
    '1c1g' : dict(n_cores=1, n_gpus=1),
    '1chg' : dict(n_cores=1, n_gpus=1, gpu_occupation=0.5),
    '1cl'  : dict(n_cores=1, lfs=1),
    '1cm'  : dict(n_cores=1, mem=2),
    'hc'   : dict(n_cores=1, core_occupation=0.5),
    '1cN'  : dict(n_cores=1, n_gpus=1, numa=True),
    '1cNl' : dict(n_cores=1, lfs=1, numa=True),
    '5c'   : dict(n_cores=5),
    # requests without a core are not placeable: every rank is a process
    '0c1g' : dict(n_cores=0, n_gpus=1),
    '0cm'  : dict(n_cores=0, mem=1),
}
INVALID_RRS = ('0c1g', '0cm')


_nl_cache = dict()


def build(layout):
    key = repr(sorted(layout.items(), key=repr))
    lay = dict(layout)
    gap  = lay.pop('gap', False)
    numa = lay.pop('numa', None)
    if key not in _nl_cache:
        if gap:
            lay['nodes'] += 1
        sw.fresh_rminfo_defaults()
        rm = sw.SynthRM(lay)
        node_list = seams.wire(rm.info.node_list)
        if gap:
            del node_list[1]
        _nl_cache[key] = node_list
    node_list = copy.deepcopy(_nl_cache[key])
    if numa:
        ndm = {k: NumaDomain(cores=c, gpus=g) for k, (c, g) in numa.items()}
        nodes = [NumaNode(n, ndm) for n in node_list]
    else:
        nodes = [Node(n) for n in node_list]
    nl = NodeList(nodes=nodes)
    nl.verify()
    return nl, node_list


def ops_for(layout_name, quick):
    ops = list()
    rrs = ['1c', '2c', '1c1g', '1chg', '1cl', '1cm']
    if not quick:
        rrs += ['hc', '5c']
    invalid = list(INVALID_RRS)
    if 'numa' in layout_name:
        rrs = ['1c', '1c1g', '1cN', '1chg', '1cNl', '1cl']
    for r in rrs:
        for n in (1, 2, 3):
            ops.append(('find', r, n))
    if 'numa' not in layout_name:
        for r in invalid:
            ops.append(('find', r, 1))
    for i in range(3):
        ops.append(('release', i))
    lay = LAYOUTS[layout_name]
    first = 1 if lay.get('blocked_cores') else 0
    ops.append(('alloc', 0, (first,), ()))         # a free (or held) core
    ops.append(('alloc', 0, (first, first + 1), (0,)))
    ops.append(('alloc', 0, (0,), (1,)))           # maybe blocked
    ops.append(('alloc', 0, (9,), ()))             # out of range
    return ops


class Violation(Exception):
    def __init__(self, prop, key, detail):
        self.prop, self.key, self.detail = prop, key, detail


def occupancy(nl):
    return [([ro.occupation for ro in n.cores],
             [ro.occupation for ro in n.gpus], n.lfs, n.mem) for n in nl.nodes]


def slot_read(s):
    return {'node_index': s.node_index, 'node_name': s.node_name,
            'cores': [(ro.index, ro.occupation) for ro in s.cores],
            'gpus' : [(ro.index, ro.occupation) for ro in s.gpus],
            'lfs'  : s.lfs or 0, 'mem': s.mem or 0}


def run_history(layout_name, hist):
    '''
    apply the operation history to a fresh NodeList; returns (canon, trace).
    Raises Violation at the first failed clause.
    '''
    nl, initial = build(LAYOUTS[layout_name])
    init_occ = occupancy(nl)
    by_index = {n['index']: n for n in initial}
    held  = list()     # list of lists of slot_read dicts (live results)
    trace = list()

    def ledger_check(site, trig):
        cores, gpus = collections.Counter(), collections.Counter()
        lfs, mem    = collections.Counter(), collections.Counter()
        for res in held:
            for s in res:
                n = s['node_index']
                ini = by_index.get(n)
                if ini is None:
                    raise Violation('C01', 'node-not-offered|%s|%s'
                                    % (site, trig), 'slot on %s/%s'
                                    % (n, s['node_name']))
                if ini['name'] != s['node_name']:
                    raise Violation('C02', 'node-name-index|%s|%s'
                                    % (site, trig), 'slot names node %s, node '
                                    '%s is %s' % (s['node_name'], n,
                                                  ini['name']))
                for kind, acc in (('cores', cores), ('gpus', gpus)):
                    for i, o in s[kind]:
                        if not 0 <= i < len(ini[kind]):
                            raise Violation('C01', 'index-range|%s|%s:%s'
                                            % (site, trig, kind),
                                            '%s %d on node %s' % (kind, i, n))
                        if ini[kind][i] is rpc.DOWN:
                            raise Violation('C01', 'blocked-granted|%s|%s:%s'
                                            % (site, trig, kind),
                                            'blocked %s %d handed out'
                                            % (kind, i))
                        acc[(n, i)] += o
                lfs[n] += s['lfs']
                mem[n] += s['mem']
        for acc, what in ((cores, 'core-shared'), (gpus, 'gpu-share-sum')):
            for k, v in acc.items():
                if v > 1 + EPS:
                    raise Violation('C01', '%s|%s|%s' % (what, site, trig),
                                    '%s occupied %.2f' % (k, v))
        for n, v in lfs.items():
            if v > (by_index[n]['lfs'] or 0) + EPS:
                raise Violation('C01', 'lfs-sum|%s|%s' % (site, trig),
                                'node %s lfs held %s' % (n, v))
        for n, v in mem.items():
            if v > (by_index[n]['mem'] or 0) + EPS:
                raise Violation('C01', 'mem-sum|%s|%s' % (site, trig),
                                'node %s mem held %s' % (n, v))

    def expected_occ():
        exp = copy.deepcopy(init_occ)
        pos = {n.index: i for i, n in enumerate(nl.nodes)}
        for res in held:
            for s in res:
                p = pos[s['node_index']]
                c, g, l, m = exp[p]
                for i, o in s['cores']: c[i] += o
                for i, o in s['gpus'] : g[i] += o
                exp[p] = (c, g, l - s['lfs'], m - s['mem'])
        return exp

    def occ_equal(a, b):
        for (c1, g1, l1, m1), (c2, g2, l2, m2) in zip(a, b):
            for x, y in zip(c1 + g1, c2 + g2):
                if (x is None) != (y is None):
                    return False
                if x is not None and abs(x - y) > EPS:
                    return False
            if l1 != l2 or m1 != m2:
                return False
        return True

    for op in hist:
        before = occupancy(nl)

        if op[0] == 'find':
            rr = RankRequirements(**RRS[op[1]])
            n  = op[2]
            try:
                res = nl.find_slots(rr, n)
                exc = None
            except Exception as e:
                res, exc = None, e
            if not res:
                trace.append((op, 'none' if exc is None
                                         else type(exc).__name__))
                if not occ_equal(before, occupancy(nl)):
                    raise Violation('C03', 'failed-find-leaks|NodeList.'
                                    'find_slots|%s' % op[1],
                                    'occupancy changed by a failed find: '
                                    '%s -> %s' % (before, occupancy(nl)))
                continue
            if op[1] in INVALID_RRS:
                raise Violation('C02', 'coreless-rank-granted|NodeList.'
                                'find_slots|%s' % op[1],
                                'request %s (no core) was granted: %s'
                                % (RRS[op[1]], [slot_read(s) for s in res]))
            got = [slot_read(s) for s in res]
            trace.append((op, [(s['node_index'],
                                [i for i, _ in s['cores']],
                                [i for i, _ in s['gpus']]) for s in got]))
            # C02: shape
            d = RRS[op[1]]
            if len(got) != n:
                raise Violation('C02', 'slot-count|NodeList.find_slots|%s'
                                % op[1], '%d slots for %d' % (len(got), n))
            for s in got:
                ci = [i for i, _ in s['cores']]
                gi = [i for i, _ in s['gpus']]
                ok = len(ci) == d.get('n_cores', 1) == len(set(ci)) and \
                     len(gi) == d.get('n_gpus', 0) == len(set(gi)) and \
                     all(abs(o - d.get('core_occupation', 1.0)) < EPS
                         for _, o in s['cores']) and \
                     all(abs(o - d.get('gpu_occupation', 1.0)) < EPS
                         for _, o in s['gpus']) and \
                     s['lfs'] == d.get('lfs', 0) and s['mem'] == d.get('mem', 0)
                if not ok:
                    raise Violation('C02', 'slot-shape|Node.find_slot|%s'
                                    % op[1], 'slot %s for %s' % (s, d))
            held.append(got)
            ledger_check('NodeList.find_slots', op[1])

        elif op[0] == 'release':
            if op[1] >= len(held):
                trace.append((op, 'skip'))
                continue
            res = held.pop(op[1])
            slots = [Slot(cores=[RO(index=i, occupation=o)
                                 for i, o in s['cores']],
                          gpus=[RO(index=i, occupation=o)
                                for i, o in s['gpus']],
                          lfs=s['lfs'], mem=s['mem'],
                          node_index=s['node_index'],
                          node_name=s['node_name']) for s in res]
            try:
                nl.release_slots(slots)
                trace.append((op, 'ok'))
            except Exception as e:
                raise Violation('C03', 'release-raises|NodeList.release_slots|'
                                '%s' % type(e).__name__, repr(e))
            if not occ_equal(expected_occ(), occupancy(nl)):
                raise Violation('C03', 'release-restores|NodeList.release_slots'
                                '|-', 'after release: %s, ledger expects %s'
                                % (occupancy(nl), expected_occ()))

        elif op[0] == 'alloc':
            _, pos, cores, gpus = op
            node = nl.nodes[pos]
            slot = Slot(cores=[RO(index=i, occupation=1.0) for i in cores],
                        gpus=[RO(index=i, occupation=1.0) for i in gpus],
                        lfs=0, mem=0, node_index=node.index,
                        node_name=node.name)
            try:
                node.allocate_slot(slot)
                ok = True
            except Exception as e:
                ok = False
                trace.append((op, type(e).__name__))
            if ok:
                trace.append((op, 'ok'))
                held.append([slot_read(slot)])
                ledger_check('Node.allocate_slot', 'explicit')
            elif not occ_equal(before, occupancy(nl)):
                raise Violation('C03', 'refused-alloc-leaks|Node.allocate_slot'
                                '|-', 'occupancy changed by a refused '
                                'allocate_slot')

        # scheduler view == ledger view after every operation
        if not occ_equal(expected_occ(), occupancy(nl)):
            raise Violation('C03', 'occupancy-drift|%s|-' % op[0],
                            'after %s: %s, ledger expects %s'
                            % (op, occupancy(nl), expected_occ()))

    if not held and not occ_equal(init_occ, occupancy(nl)):
        raise Violation('C03', 'not-restored|NodeList|-',
                        'nothing held but %s != initial %s'
                        % (occupancy(nl), init_occ))

    lf = nl.__last_failed_rr__
    canon = (repr(occupancy(nl)), nl.__index__,
             None if lf is None else repr(dict(lf)), nl.__last_failed_n__,
             repr(held))
    return canon, trace


def bfs(layout_name, quick, pid, ctx, first):
    '''
    BFS over operation histories starting with operation `first` (the search
    is partitioned by first operation to use all cores; states are merged
    within a partition)
    '''
    ops   = ops_for(layout_name, quick)
    # thorough: one level deeper for C01 (3.8 M states, ~15 min); C02 and C03
    # read their clauses off the same histories and stay at depth 4
    depth = 4 if (quick or pid != 'C01') else 5
    seen  = dict()
    front = collections.deque()
    n_trans = 0

    def step(nxt):
        nonlocal n_trans
        n_trans += 1
        try:
            canon, trace = run_history(layout_name, nxt)
        except Violation as v:
            if v.prop == pid:
                ctx.violation('%s:%s' % (v.key, layout_name),
                              {'what': v.detail, 'history': nxt},
                              {'kind': 'nodelist', 'layout': layout_name,
                               'history': nxt})
            return
        ctx.outcome(('nodelist', layout_name, repr(trace[-1])))
        if canon not in seen:
            seen[canon] = nxt
            front.append(nxt)

    step((ops[first],))
    while front:
        hist = front.popleft()
        if len(hist) >= depth:
            continue
        for op in ops:
            step(hist + (op,))
    return len(seen), n_trans


def _job(args):
    from rpmc import report
    layout_name, quick, pid, first = args
    part = report.Part()
    states, trans = bfs(layout_name, quick, pid, part, first)
    part.cover(states=states, transitions=trans, nodelist_states=states,
               nodelist_transitions=trans,
               traces_validated_against_impl=trans)
    if first == 0:
        part.sample({'nodelist_layout': layout_name, 'first_op': first,
                     'states': states, 'transitions': trans})
    return part.dump()


def run_nodelist(ctx, pid):
    jobs = [(name, ctx.quick, pid, i) for name in LAYOUTS
            for i in range(len(ops_for(name, ctx.quick)))]
    for res in seams.pmap(_job, jobs, ctx.workers):
        ctx.merge(res)
    ctx.assume('NodeList is built from the node list produced by the real RM '
               'code, as Pilot.nodelist does')


def replay_nodelist(r):
    try:
        canon, trace = run_history(r['layout'],
                                   tuple(tuple(tuple(y) if isinstance(y, list)
                                               else y for y in x)
                                         for x in r['history']))
        for t in trace:
            print('   ', t)
        print('no violation')
        return 0
    except Violation as v:
        print('VIOLATED', v.prop, v.key, v.detail)
        return 1
