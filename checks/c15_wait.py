'''
C15 -- Waiting on tasks and pilots returns when it should.

The real Task.wait / Pilot.wait / TaskManager.wait_tasks / PilotManager.
wait_pilots run in the calling thread on bare managers with real facades; the
`time` module of the four source files is a virtual clock, and every
`time.sleep(0.1)` is an environment choice point: advance one of the awaited
entities along its trajectory (up to two steps per poll), or let time pass.
All choice sequences are enumerated (rpmc.envdfs).
'''

import itertools

from rpmc import seams, net, report, envdfs, clientworld as cw

rp = seams.import_rp()

from radical.pilot import states as rps                            # noqa: E402
from radical.pilot import task          as task_mod                # noqa: E402
from radical.pilot import pilot         as pilot_mod               # noqa: E402
from radical.pilot import task_manager  as tmgr_mod                # noqa: E402
from radical.pilot import pilot_manager as pmgr_mod                # noqa: E402

EPS   = 1e-6
POLL  = 0.1
SLACK = 0.2
NEVER = 0.5
FINAL = rps.FINAL

T_CHAIN = [rps.NEW, rps.TMGR_SCHEDULING, rps.AGENT_EXECUTING,
           rps.TMGR_STAGING_OUTPUT]
P_CHAIN = [rps.NEW, rps.PMGR_LAUNCHING, rps.PMGR_ACTIVE]


class Horizon(BaseException):
    pass


class Clock(object):
    '''virtual `time` module; sleep is the environment's turn'''

    def __init__(self, world):
        self.now   = 5000.0
        self.world = world

    def time(self):
        return self.now

    def sleep(self, dt):
        self.now += dt
        self.world.on_sleep()


def trajectories(chain):
    '''prefix-closed paths: (start index, list of further states, label)'''
    out = list()
    n = len(chain)
    # run to a final state from the start, failing/cancelling at any point
    out.append((0, chain[1:] + [rps.DONE], 'done'))
    for k in range(0, n):
        out.append((0, chain[1:k + 1] + [rps.FAILED],   'fail@%d' % k))
    out.append((0, chain[1:2] + [rps.CANCELED], 'cancel@1'))
    # stall forever in a non-final state
    for k in range(0, n):
        out.append((0, chain[1:k + 1], 'stall@%d' % k))
    # already final at call time
    out.append((rps.DONE,   [], 'is-done'))
    out.append((rps.FAILED, [], 'is-failed'))
    # starts in the middle
    out.append((n - 1, [rps.DONE], 'late-done'))
    return out


class World(object):

    def __init__(self, scn, chooser):
        self.scn = scn
        self.ch  = chooser
        net.install()
        self.net = net.Net().activate()
        kind = scn['kind']
        self.chain = T_CHAIN if kind in ('task', 'tasks') else P_CHAIN
        self.ents  = list()
        if kind in ('task', 'tasks'):
            self.mgr = cw.make_tmgr()
            tds = [rp.TaskDescription({'executable': '/bin/true',
                                       'uid': 't%d' % i})
                   for i in range(len(scn['traj']))]
            self.ents = self.mgr.submit_tasks(tds)
        else:
            self.mgr = cw.make_pmgr()
            self.ents = [cw.make_pilot(self.mgr, 'p%d' % i)
                         for i in range(len(scn['traj']))]
        self.todo = list()
        for e, (start, steps, _) in zip(self.ents, scn['traj']):
            e._state = self.chain[start] if isinstance(start, int) else start
            self.todo.append(list(steps))
        req = scn['state']
        self.requested = FINAL if not req else \
                         (req if isinstance(req, list) else [req])
        self.clock   = Clock(self)
        self.start   = self.clock.now
        self.val     = rps._task_state_values if kind in ('task', 'tasks') \
                       else rps._pilot_state_values
        self.hit     = [self.reached(e.state) for e in self.ents]
        self.t_star  = None
        self.passes  = 0
        self.sleeps  = 0
        self.live0   = [e.state not in FINAL for e in self.ents]
        self.trace   = list()
        self.update_satisfied()

    def reached(self, state):
        '''the state model is linear: being in a later (non-final) state
        means the requested one has been reached'''
        if state in self.requested:
            return True
        if state in FINAL:
            return False
        return any(r not in FINAL and self.val[state] >= self.val[r]
                   for r in self.requested)

    def satisfied_now(self):
        return all(h or e.state in FINAL
                   for h, e in zip(self.hit, self.ents))

    def update_satisfied(self):
        if self.t_star is None and self.satisfied_now():
            self.t_star = self.clock.now

    def deadline(self):
        T = self.scn['timeout']
        cands = list()
        if self.t_star is not None: cands.append(self.t_star)
        if T                      : cands.append(self.start + T)
        return min(cands) if cands else None

    def on_sleep(self):
        self.sleeps += 1
        moved = 0
        while moved < self.scn.get('max_adv', 2):
            opts = [i for i, t in enumerate(self.todo) if t]
            if not opts:
                break
            # bounded silence: an update arrives at least every 3rd poll
            force = self.passes >= self.scn.get('max_silent', 2) and moved == 0
            n = len(opts) + (0 if force else 1)
            c = self.ch.choose(n, 'sleep')
            if not force:
                if c == 0:
                    break
                c -= 1
            i = opts[c]
            s = self.todo[i].pop(0)
            self.ents[i]._state = s
            if self.reached(s):
                self.hit[i] = True
            self.trace.append((round(self.clock.now - self.start, 1),
                               self.ents[i].uid, s))
            moved += 1
            self.update_satisfied()
        self.passes = 0 if moved else self.passes + 1

        d = self.deadline()
        if d is not None:
            if self.clock.now > d + NEVER + EPS:
                raise Horizon()
        elif not any(self.todo) and self.passes > 6:
            # nothing will ever happen, no deadline: blocking is legitimate
            raise Horizon()

    def call(self):
        scn  = self.scn
        kind = scn['kind']
        kw   = dict()
        if scn['state'] is not None: kw['state']   = scn['state']
        if scn['timeout']          : kw['timeout'] = scn['timeout']
        if kind == 'task' : return self.ents[0].wait(**kw)
        if kind == 'pilot': return self.ents[0].wait(**kw)
        uids = scn['uids']
        if uids == 'all'   : pass
        elif uids == 'one' : kw['uids'] = self.ents[0].uid
        else               : kw['uids'] = [e.uid for e in self.ents]
        if kind == 'tasks' : return self.mgr.wait_tasks(**kw)
        if kind == 'pilots': return self.mgr.wait_pilots(**kw)


def run_one(scn, chooser):
    mods = (task_mod, pilot_mod, tmgr_mod, pmgr_mod)
    old  = [m.time for m in mods]
    w    = World(scn, chooser)
    for m in mods:
        m.time = w.clock
    res = {'returned': False, 'exc': None}
    try:
        res['value']    = w.call()
        res['returned'] = True
    except Horizon:
        pass
    except Exception as e:
        res['exc'] = e
    finally:
        for m, t in zip(mods, old):
            m.time = t
    res['world'] = w
    return res


def judge(part, scn, ch, res):
    w      = res['world']
    t_r    = w.clock.now
    d      = w.deadline()
    labels = '+'.join(t[2] for t in scn['traj'])
    req    = scn['state']
    reqk   = 'default' if req is None else \
             ('%s:%s' % ('list' if isinstance(req, list) else 'str',
                         '+'.join('final' if s in FINAL else 'nonfinal'
                                  for s in w.requested)))
    site   = {'task': 'Task.wait', 'pilot': 'Pilot.wait',
              'tasks': 'TaskManager.wait_tasks',
              'pilots': 'PilotManager.wait_pilots'}[scn['kind']]
    replay = {'scenario': scn['name'], 'choices': list(ch.choices)}
    info   = {'scenario': scn['name'], 'trace': w.trace,
              't_star': None if w.t_star is None
                        else round(w.t_star - w.start, 2),
              'returned_at': round(t_r - w.start, 2) if res['returned']
                             else None,
              'value': repr(res.get('value'))}

    def viol(clause, trig, what):
        info2 = dict(info); info2['what'] = what
        part.violation('%s|%s|%s' % (clause, site, trig), info2, replay)

    missed = 'seen' if all(e.state in w.requested or e.state in FINAL or not h
                           for e, h in zip(w.ents, w.hit)) else 'passed'

    if res['exc'] is not None:
        viol('raises', '%s:%s' % (reqk, type(res['exc']).__name__),
             'wait raised %r' % res['exc'])
        return 'raise'

    if not res['returned']:
        if d is not None:
            viol('never-returns', '%s:%s:%s:%s'
                 % (reqk, 'timeout' if scn['timeout'] and
                    (w.t_star is None or w.start + scn['timeout'] < w.t_star)
                    else 'satisfied', missed,
                    'final' if all(e.state in FINAL for e in w.ents)
                    else 'live'),
                 'still waiting %.1fs after it should have returned' % NEVER)
            return 'never'
        return 'blocked-ok'

    # returned
    if d is not None and t_r > d + SLACK + EPS:
        viol('late-return', '%s:%s' % (reqk, missed),
             'returned %.2fs after the deadline' % (t_r - d))
    T = scn['timeout']
    if w.t_star is None and not (T and t_r >= w.start + T - EPS):
        viol('early-return', reqk, 'returned although nothing awaited was '
                                   'reached and no timeout expired')
    actual = [e.state for e in w.ents]
    val    = res['value']
    if scn['kind'] in ('task', 'pilot') or scn.get('uids') == 'one':
        ok = val == actual[0]
        exp = actual[0]
    elif scn['kind'] == 'pilots' and scn.get('uids') == 'all':
        # documented: without uids, the pilots which are not yet final are
        # awaited (and reported)
        exp = [a for a, l in zip(actual, w.live0) if l]
        ok  = isinstance(val, list) and val == exp
    else:
        ok = isinstance(val, list) and val == actual
        exp = actual
    if not ok:
        viol('return-value', '%s:%s' % (reqk, 'final' if w.ents[0].state in
                                        FINAL else 'live'),
             'returned %r, actual state(s) %r' % (val, exp))
    return 'ok'


# ------------------------------------------------------------------------------
#
def scenarios(quick):
    out = list()

    def add(kind, traj, state, timeout, uids=None):
        name = '%s/%s/%s/%s/%s' % (kind, '+'.join(t[2] for t in traj),
                                   state, timeout, uids)
        scn = {'name': name, 'kind': kind, 'traj': traj, 'state': state,
               'timeout': timeout, 'uids': uids}
        if len(traj) > 1:
            # pairs: one step per poll, at most one silent poll (passing
            # through a state between polls is covered by the single-entity
            # scenarios)
            scn.update({'max_adv': 1, 'max_silent': 1})
        out.append(scn)

    # (lists are given in both orders of the state model and such that the
    #  alphabetical and the model order of the names differ)
    t_states = [None, rps.DONE, [rps.DONE], [rps.AGENT_EXECUTING],
                [rps.AGENT_EXECUTING, rps.DONE], rps.FAILED,
                [rps.CANCELED, rps.FAILED], rps.TMGR_SCHEDULING,
                [rps.TMGR_SCHEDULING, rps.AGENT_EXECUTING],
                [rps.FAILED, rps.TMGR_STAGING_OUTPUT]]
    p_states = [None, rps.DONE, [rps.PMGR_ACTIVE], rps.PMGR_ACTIVE,
                [rps.PMGR_ACTIVE, rps.DONE], rps.FAILED,
                [rps.CANCELED, rps.FAILED],
                [rps.PMGR_LAUNCHING, rps.PMGR_ACTIVE]]
    timeouts = [None, 0.35, 1.0]

    tt = trajectories(T_CHAIN)
    pt = trajectories(P_CHAIN)

    for traj, st, to in itertools.product(tt, t_states, timeouts):
        add('task', [traj], st, to)
        add('tasks', [traj], st, to, 'one')
    for traj, st, to in itertools.product(pt, p_states, timeouts):
        add('pilot', [traj], st, to)
        add('pilots', [traj], st, to, 'one')

    # two entities
    t2 = tt if not quick else [t for t in tt if t[2] in
                               ('done', 'fail@1', 'stall@2', 'is-done',
                                'cancel@1')]
    p2 = pt if not quick else [t for t in pt if t[2] in
                               ('done', 'fail@1', 'stall@1', 'is-failed')]
    ts2 = t_states if not quick else [None, [rps.AGENT_EXECUTING], rps.DONE]
    ps2 = p_states if not quick else [None, [rps.PMGR_ACTIVE], rps.DONE]
    to2 = timeouts if not quick else [None, 1.0]
    for a, b, st, to, uids in itertools.product(t2, t2, ts2, to2,
                                                ('all', 'list')):
        add('tasks', [a, b], st, to, uids)
    for a, b, st, to, uids in itertools.product(p2, p2, ps2, to2,
                                                ('all', 'list')):
        add('pilots', [a, b], st, to, uids)
    return out


_scns = None


def _job(idx):
    part = report.Part()
    scn  = _scns[idx]
    n    = 0
    for ch, res in envdfs.explore(lambda c: run_one(scn, c), max_exec=200000):
        if ch is None:
            part.cap('scenario %s: execution cap hit, %d prefixes left'
                     % (scn['name'], res))
            break
        n += 1
        out = judge(part, scn, ch, res)
        part.outcome((scn['name'], out, len(res['world'].trace),
                      res['world'].sleeps))
    part.cover(executions=n, transitions=n, scenarios=1,
               traces_validated_against_impl=n)
    if idx % 211 == 0:
        part.sample({'scenario': scn['name'], 'executions': n})
    return part.dump()


# ------------------------------------------------------------------------------
# a wait call next to the notification thread (engine B): the subscriber thread
# applies the awaited state and runs the application's state callback; the
# callback takes its time - in the limit it waits for the thread which sits in
# the wait call.  The wait call returns (shortly after the state is reached)
# without waiting for the callback: with the callback blocked for good, every
# schedule must still let the wait call return.
#
def _cb_job(args):
    from rpmc import clientrace, sched as rs
    kind, api, final = args
    part = report.Part()
    mods = (task_mod, pilot_mod, tmgr_mod, pmgr_mod)
    from radical.pilot import constants as rpc
    from radical.pilot.task_manager  import TaskManager
    from radical.pilot.pilot_manager import PilotManager
    from radical.pilot.task  import Task
    from radical.pilot.pilot import Pilot

    class W(object):
        pass

    def make_world(s):
        net.install()
        w = W()
        w.net = net.Net().activate()
        w.returned = False
        w.cb_seen  = list()
        if kind == 'task':
            w.mgr = cw.make_tmgr()
            w.ent = w.mgr.submit_tasks([rp.TaskDescription(
                        {'executable': '/bin/true', 'uid': 't0'})])[0]
            clientrace.control_locks(s, w.mgr, ['_tasks_lock', '_tcb_lock',
                                                '_pilots_lock'])
        else:
            w.mgr = cw.make_pmgr()
            w.ent = cw.make_pilot(w.mgr, 'p0')
            clientrace.control_locks(s, w.mgr, ['_pilots_lock', '_pcb_lock'])
        clientrace.control_locks(s, w.ent, ['_cb_lock'])

        def app_cb(ent, state, *a):
            # an application callback which does not come back before the
            # waiting thread has got its answer
            w.cb_seen.append(state)
            if state == target:
                s.block_until(lambda: w.returned)
        w.mgr.register_callback(app_cb)
        class PollClock(object):
            # the wait loops poll with time.sleep(0.1): a poll point of the
            # controlled scheduler (idle until something changed)
            def time(self_): return s.now
            def sleep(self_, dt): s.poll_point()
        w.clock = PollClock()
        for m in mods:
            m.time = w.clock
        return w

    target = (rps.DONE if final else
              rps.AGENT_EXECUTING if kind == 'task' else rps.PMGR_ACTIVE)

    def bodies(w):
        d = {'uid': w.ent.uid, 'type': kind, 'state': target}
        if final:
            d['target_state'] = target

        def notify():
            w.mgr._state_sub_cb(rpc.STATE_PUBSUB, seams.wire(
                                {'cmd': 'update', 'arg': [d]}))

        def wait():
            if api == 'entity':
                w.value = w.ent.wait(state=None if final else target)
            elif kind == 'task':
                w.value = w.mgr.wait_tasks(uids=[w.ent.uid],
                                           state=None if final else target)
            else:
                w.value = w.mgr.wait_pilots(uids=[w.ent.uid],
                                            state=None if final else target)
            w.returned = True
            s_ = rs_sched[0]
            s_.bump(force=True)
        return [('notify', notify), ('wait', wait, True)]

    rs_sched = [None]
    real_make = make_world

    def make_world2(s):
        rs_sched[0] = s
        return real_make(s)

    replay = {'part': 'callback', 'case': list(args)}

    def judge(w, s, res):
        if res != 'done' or not w.returned:
            stuck = list(s.stuck)
            part.violation(
                'wait-blocked-by-callback|%s|%s:%s'
                % ('TaskManager._update_tasks' if kind == 'task'
                   else 'PilotManager._update_pilot',
                   api, 'final' if final else 'non-final'),
                {'what': '%s %s(%s) does not return while the application\'s '
                         'state callback for %s is still running (%s; threads '
                         '%s): the call needs a lock which the notification '
                         'thread holds while it invokes callbacks'
                         % (kind, 'wait' if api == 'entity' else
                            'wait_%ss' % kind, target, target, res, stuck)},
                dict(replay, schedule=list(s.choices)))
        part.outcome(('cb', kind, api, final, res, w.returned))

    old = [m.time for m in mods]
    try:
        n, capped = clientrace.explore(
            make_world2, bodies,
            [TaskManager._update_tasks, TaskManager._task_cb,
             PilotManager._update_pilot, PilotManager._call_pilot_callbacks,
             Task._update, Pilot._update, TaskManager.wait_tasks,
             PilotManager.wait_pilots, Task.wait, Pilot.wait], 1, judge)
    finally:
        for m, t in zip(mods, old):
            m.time = t
    part.cover(executions=n, callback_cases=1,
               traces_validated_against_impl=n)
    return part.dump()


def run_callbacks(ctx):
    jobs = [(kind, api, final) for kind in ('task', 'pilot')
                               for api in ('entity', 'manager')
                               for final in (False, True)]
    for res in seams.pmap(_cb_job, jobs, ctx.workers):
        ctx.merge(res)


def run(ctx):
    global _scns
    ctx.level = 'model_checking'
    run_callbacks(ctx)
    _scns = scenarios(ctx.quick)
    import random
    order = list(range(len(_scns)))
    random.Random(ctx.seed).shuffle(order)
    for res in seams.pmap(_job, order, ctx.workers, chunksize=8):
        ctx.merge(res)
    ctx.set(states=ctx.coverage.get('executions', 0),
            rule='every choice sequence (advance entity k / let time pass, at '
                 'most 2 steps per poll, at most 2 silent polls while steps '
                 'remain) for every (API, requested states, trajectories, '
                 'timeout) scenario; states = complete executions')
    ctx.set(distinct_nontrivial=len(ctx.outcomes))
    ctx.assume('entity states are set by the harness (trajectories), the '
               'wait loops only read them', 'poll period 0.1 s virtual; '
               'deadline = min(first satisfaction, timeout) + 0.2 s; never '
               'returns = still looping 0.5 s later')


def replay(ctx, data):
    r = data['replay']
    scn = [s for s in scenarios(False) + scenarios(True)
           if s['name'] == r['scenario']][0]
    ch  = envdfs.Chooser(r['choices'])
    res = run_one(scn, ch)
    part = report.Part()
    print(scn['name'], judge(part, scn, ch, res))
    print('trace', res['world'].trace, 'value', res.get('value'))
    for k, (d, _) in part.violations.items():
        print('VIOLATED', k, d)
    return 1 if part.violations else 0
