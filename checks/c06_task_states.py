'''
C06 -- Applications observe the linear task state model.

Engine A: explicit-state search over the real TaskManager._state_sub_cb ->
_update_tasks -> Task._update -> _task_cb path on a bare TaskManager holding
real Task objects.  A state is (Task.state of t1, t2); a transition is one
batch of notifications.  The graph is finite and closed completely; every
transition is compared with the per-task reference automaton (DESIGN.md A.3).
'''

import copy
import itertools
import collections

from rpmc import seams, net, clientworld as cw

rp = seams.import_rp()

from radical.pilot import states    as rps                         # noqa: E402
from radical.pilot import constants as rpc                         # noqa: E402

VAL   = rps._task_state_values
ORDER = [s for s, v in sorted(((s, v) for s, v in VAL.items()
                               if s is not None and s not in
                               (rps.FAILED, rps.CANCELED)),
                              key=lambda x: x[1])]          # NEW .. DONE
FINAL = rps.FINAL

NOTIF_STATES = [rps.TMGR_SCHEDULING, rps.AGENT_STAGING_INPUT,
                rps.AGENT_EXECUTING, rps.TMGR_STAGING_OUTPUT,
                rps.DONE, rps.FAILED, rps.CANCELED]
UIDS = ['t1', 't2', 'unknown']


# ------------------------------------------------------------------------------
# reference automaton A.3
#
def ref_step(cur, s):
    '''returns (new state, announcements)'''
    if cur in FINAL:
        return cur, []
    if s in (rps.FAILED, rps.CANCELED):
        return s, [s]
    if VAL[s] > VAL[cur]:
        return s, [x for x in ORDER if VAL[cur] < VAL[x] <= VAL[s]]
    return cur, []


def ref_batch(states, batch):
    states = dict(states)
    ann    = {u: [] for u in states}
    for uid, s in batch:
        if uid not in states:
            continue
        states[uid], a = ref_step(states[uid], s)
        ann[uid] += a
    return states, ann


# ------------------------------------------------------------------------------
#
class World(object):

    def __init__(self):
        net.install()
        self.net = net.Net().activate()
        self.tm  = cw.make_tmgr()
        tds = [rp.TaskDescription({'executable': '/bin/true', 'uid': u})
               for u in ('t1', 't2')]
        self.tasks = {t.uid: t for t in self.tm.submit_tasks(tds)}
        self.log_all = list()
        self.log_uid = {'t1': list(), 't2': list()}
        self.tm.register_callback(self._cb_all)
        for uid in self.tasks:
            self.tasks[uid].register_callback(self._cb_uid)

    def _cb_all(self, task, state):
        self.log_all.append((task.uid, state, task.state))

    def _cb_uid(self, task, state):
        self.log_uid[task.uid].append(state)

    def states(self):
        return {u: t.state for u, t in self.tasks.items()}

    def apply(self, batch):
        '''one state-pubsub message; returns the escaped exception, if any'''
        arg = list()
        for uid, s in batch:
            d = {'uid': uid, 'type': 'task', 'state': s}
            if s in FINAL:
                d.update({'target_state': s, 'exit_code': 0 if s == rps.DONE
                                                             else 1})
            arg.append(d)
        msg = seams.wire({'cmd': 'update', 'arg': arg})
        try:
            self.tm._state_sub_cb(rpc.STATE_PUBSUB, msg)
            return None
        except Exception as e:
            return e


def build(hist):
    w = World()
    for b in hist:
        w.apply(b)
    w.log_all = list()
    w.log_uid = {'t1': list(), 't2': list()}
    return w


def batches(max_len):
    notifs = [(u, s) for u in UIDS for s in NOTIF_STATES]
    for n in range(1, max_len + 1):
        for b in itertools.product(notifs, repeat=n):
            yield b


def klass(cur, s):
    '''abstract a notification relative to the task's state (finding keys)'''
    if cur in FINAL:
        return '%s->%s' % (cur, s if s in FINAL else 'nonfinal')
    if s in (rps.FAILED, rps.CANCELED):
        return 'live->%s' % s
    d = VAL[s] - VAL[cur]
    return 'live:%s' % ('dup' if d == 0 else 'back' if d < 0 else
                        'next' if d == 1 else 'skip')


def check_transition(ctx, hist, batch):

    w      = build(hist)
    before = w.states()
    exc    = w.apply(batch)
    after  = w.states()
    ref_states, ref_ann = ref_batch(before, batch)

    replay = {'history': [list(map(list, b)) for b in hist],
              'batch'  : list(map(list, batch))}
    shape  = ','.join('%s:%s' % (u if u == 'unknown' else 'task',
                                 klass(before.get(u, rps.NEW), s))
                      for u, s in batch)

    for uid in before:
        mine   = [s for u, s in batch if u == uid]
        got    = [s for u, s, _ in w.log_all if u == uid]
        others = [klass(before.get(u, rps.NEW), s) for u, s in batch
                  if u != uid]
        trig   = '|'.join(klass(before[uid], s) for s in mine) or 'none'

        if after[uid] != ref_states[uid]:
            if before[uid] in FINAL and after[uid] != before[uid]:
                clause = 'final-changed'
                trig   = '%s->%s' % (before[uid], after[uid])
            elif exc is not None:
                clause = 'batch-isolation'
                trig   = '%s:%s' % (type(exc).__name__, shape)
            else:
                clause = 'state-mismatch'
            ctx.violation('%s|TaskManager._update_tasks|%s' % (clause, trig),
                          {'what': '%s: state %s after batch %s from %s, '
                                   'reference %s; exception %r'
                                   % (uid, after[uid], list(batch), before,
                                      ref_states[uid], exc)}, replay)
        elif got != ref_ann[uid]:
            ctx.violation('callback-sequence|TaskManager._task_cb|%s' % trig,
                          {'what': '%s: callbacks %s for batch %s from %s, '
                                   'reference %s'
                                   % (uid, got, list(batch), before,
                                      ref_ann[uid])}, replay)
        elif w.log_uid[uid] != got:
            ctx.violation('callback-per-task|TaskManager._task_cb|%s' % trig,
                          {'what': '%s: per-task callback saw %s, manager '
                                   'callback %s' % (uid, w.log_uid[uid], got)},
                          replay)
        # the state the callback can read must be the announced one or later
        for u, s, seen in w.log_all:
            if u == uid and seen not in FINAL and VAL[seen] < VAL[s]:
                ctx.violation('callback-state-behind|TaskManager._task_cb|-',
                              {'what': '%s announced %s while Task.state=%s'
                                       % (u, s, seen)}, replay)

    if exc is not None and not any(u in before for u, _ in batch):
        ctx.violation('unknown-raises|TaskManager._update_tasks|-',
                      {'what': 'notification for unknown task raised %r' % exc},
                      replay)

    ctx.outcome((tuple(sorted(before.items())), shape,
                 tuple(sorted(after.items()))))
    return after


_blist = None


def _job(args):
    from rpmc import report
    hist, lo, hi = args
    part   = report.Part()
    afters = set()
    for i in range(lo, hi):
        b = _blist[i]
        after = check_transition(part, hist, b)
        afters.add((tuple(sorted(after.items())), b))
        if i in (5, 300):
            part.sample({'history': hist, 'batch': b, 'after': after})
    part.cover(transitions=hi - lo)
    # keep one witness batch per successor state
    succ = dict()
    for key, b in afters:
        succ.setdefault(key, b)
    return part.dump(), succ


# ------------------------------------------------------------------------------
# Threads: a TaskManager has ONE state subscriber thread, so two notification
# batches are never applied concurrently (an exploration of two threads inside
# _state_sub_cb reports callbacks of the slower thread after the final state
# announced by the faster one - a schedule the deployment cannot produce; that
# part was removed again).  What does run next to the subscriber thread is the
# handler of a pilot's end, which checks and fails tasks on the same Task
# objects: that pair is explored (engine B, all schedules within the delay
# bound) by the race part shared with C13, judged here by C06's clauses (one
# final state announced, Task.state equals the last announcement).
#
def run_race(ctx):
    from checks import c13_pilot_death
    c13_pilot_death.run_race(ctx, deep=not ctx.quick)


# ------------------------------------------------------------------------------
# callbacks which change the callback registry while they are being notified
# (a one-shot callback unregisters itself, a callback registers another one):
# the other observers still see every announcement
#
def run_callback_mutation(ctx):
    notes = [(u, s) for u in ('t1', 't2')
                    for s in (rps.AGENT_EXECUTING, rps.DONE, rps.FAILED)]
    n = 0
    for scope in ('tmgr', 'task', 'both'):
        for action in ('unregister-self', 'register-other', 'unregister-all',
                       'sys-exit'):
            for batch in itertools.product(notes, repeat=2):
                n += 1
                w   = World()
                obs = list()
                w.tm.register_callback(lambda t, s: obs.append((t.uid, s)))
                late = list()

                def mutate(t, s, scope_=None):
                    if mutate.done:
                        return
                    mutate.done = True
                    if action == 'sys-exit':
                        # the documented idiom of the examples: leave on error
                        import sys
                        sys.exit(1)
                    if action == 'unregister-self':
                        if scope_ == 'tmgr':
                            w.tm.unregister_callback(mutate_tm)
                        else:
                            w.tm.unregister_callback(mutate_t1, uid='t1')
                    elif action == 'register-other':
                        w.tm.register_callback(
                            lambda t_, s_: late.append((t_.uid, s_)))
                    else:
                        w.tm.unregister_callback(uid='t1')
                mutate.done = False
                mutate_tm = lambda t, s: mutate(t, s, 'tmgr')
                mutate_t1 = lambda t, s: mutate(t, s, 'task')
                if scope in ('tmgr', 'both'):
                    w.tm.register_callback(mutate_tm)
                if scope in ('task', 'both') or action == 'unregister-all':
                    w.tm.register_callback(mutate_t1, uid='t1')
                w.tm.register_callback(lambda t, s: obs.append(('#2', t.uid,
                                                                s)))
                w.log_all = list()
                try:
                    exc = w.apply(batch)
                except BaseException as e:          # SystemExit and friends
                    exc = e
                _, ann = ref_batch({'t1': rps.NEW, 't2': rps.NEW}, batch)
                want = sorted((u, s) for u, ss in ann.items() for s in ss)
                got1 = sorted(x for x in obs if len(x) == 2)
                got2 = sorted(x[1:] for x in obs if len(x) == 3)
                if got1 != want or got2 != want or exc is not None:
                    ctx.violation(
                        'observer-misses-announcements|TaskManager._task_cb|'
                        '%s:%s' % (scope, action),
                        {'what': 'a callback %s (%s level) during '
                                 'notification of %s: first observer saw %d, '
                                 'last observer %d of %d announcements; '
                                 'exception %r' % (action, scope, batch,
                                                   len(got1), len(got2),
                                                   len(want), exc)},
                        {'history': [], 'batch': [list(x) for x in batch]})
                ctx.outcome(('cbmut', scope, action, len(want)))
    ctx.cover(evaluations=n, callback_mutation_cases=n)


def run(ctx):
    global _blist
    ctx.level = 'model_checking'
    run_race(ctx)
    run_callback_mutation(ctx)
    max_len   = 2 if ctx.quick else 3
    _blist    = list(batches(max_len))
    chunk     = max(1, len(_blist) // (ctx.workers * 2))

    seen  = dict()
    init  = tuple(sorted(World().states().items()))
    seen[init] = ()
    front = [()]
    while front:
        jobs = [(hist, lo, min(lo + chunk, len(_blist)))
                for hist in front for lo in range(0, len(_blist), chunk)]
        nxt  = list()
        for (dump, succ), job in zip(seams.pmap(_job, jobs, ctx.workers),
                                     jobs):
            ctx.merge(dump)
            for key, b in sorted(succ.items()):
                if key not in seen:
                    seen[key] = job[0] + (b,)
                    nxt.append(job[0] + (b,))
        front = nxt

    n_trans = ctx.coverage.get('transitions', 0)
    ctx.set(states=len(seen), traces_validated_against_impl=n_trans,
            exhaustive=True, max_batch_len=max_len,
            rule='state = (Task.state of t1, t2); transition = one batch of '
                 '1..%d notifications over 3 uids x 7 states; the state graph '
                 'is closed completely (BFS until no new state)' % max_len)
    ctx.set(distinct_nontrivial=len(ctx.outcomes))
    ctx.assume('reference automaton A.3 is the reading of the property',
               'bulk callbacks (RADICAL_PILOT_BULK_CB) are not explored')


def replay(ctx, data):
    r = data['replay']
    if 'race' in r:
        from checks import c13_pilot_death
        return c13_pilot_death.replay(ctx, data)
    hist  = [tuple(tuple(x) for x in b) for b in r['history']]
    batch = tuple(tuple(x) for x in r['batch'])
    w = build(hist)
    print('before :', w.states())
    exc = w.apply(batch)
    print('batch  :', batch)
    print('after  :', w.states(), 'exception:', repr(exc))
    print('cb log :', w.log_all)
    print('ref    :', ref_batch(build(hist).states(), batch))
    return 0
