'''
C17 -- Every shipped platform resolves and pilots are sized to fit.

Engine C (DESIGN.md 3.3, section "C17", appendix A.11): complete enumeration of
the shipped resource configurations x access schemas x a bounded alphabet of
pilot sizes, on the real code, against an independent reference.

Harness
-------
* the resource configurations are loaded by the real
  `Session._init_cfg_from_scratch` on a bare session (only the logger /
  profiler / reporter getters are stubbed);
* every (resource, schema) pair goes through the real
  `Session.get_resource_config`;
* every pilot size goes through the real
  `PMGRLaunchingComponent._start_pilot_bulk` -> `_prepare_pilot` on a bare
  launching component: the sandbox getters are the real `Session._get_*`, the
  staging helper and the job launcher are stand-ins (the launcher receives the
  job description), the `tar` callout is answered without running it and the
  shell which expands `$VAR` in the remote workdir is the local shell, asked
  once per distinct string (with a plain echo as fall back, see `_sh_callout`);
* resolution: the four factories are *called* with every constructor stubbed,
  so that the factories' own lookup tables decide; launch methods are resolved
  by the real `ResourceManager._prepare_launch_methods` on a bare manager.

Reference
---------
plain integer arithmetic on the values read from the shipped JSON files
(appendix A.11), existence of `agent_<name>.json` next to them.
'''

import os
import re
import sys
import copy
import shutil
import signal
import tempfile
import traceback

from rpmc import seams, report

rp = seams.import_rp()

import radical.utils as ru                                         # noqa: E402

from radical.pilot.session                     import Session     # noqa: E402
from radical.pilot.pmgr.launching.base         import \
                                          PMGRLaunchingComponent  # noqa: E402
from radical.pilot.agent.resource_manager.base import \
                                          ResourceManager, RMInfo  # noqa: E402
from radical.pilot.agent.launch_method.base    import LaunchMethod  # noqa: E402
from radical.pilot.agent.scheduler.base        import \
                                          AgentSchedulingComponent  # noqa: E402
from radical.pilot.agent.executing.base        import \
                                          AgentExecutingComponent  # noqa: E402

# psi_j.py switches the root logger to DEBUG before it imports psij: import
# psij first, quietly, and reset the level afterwards
import logging                                                     # noqa: E402
try:
    import psij as _psij                                           # noqa: E402
except ImportError:
    _psij = None
from radical.pilot.pmgr.launching.psi_j        import \
                                          PilotLauncherPSIJ  # noqa: E402
logging.getLogger().setLevel(logging.ERROR)
logging.getLogger('psij').setLevel(logging.ERROR)
_JEX = dict()      # psij executors, one per batch system and process

RP_DIR   = os.path.dirname(os.path.abspath(rp.__file__))
CFG_DIR  = os.path.join(RP_DIR, 'configs')

SITE_GRC = 'Session.get_resource_config'
SITE_PP  = 'PMGRLaunchingComponent._prepare_pilot'


# ------------------------------------------------------------------------------
# logger stand-in: `_prepare_pilot` stores `log.level` / `log.debug_level` in
# the agent config, which is then written as json
#
class _Log(seams.NullLog):
    level       = 'OFF'
    debug_level = 0


_LOG = _Log()


# ------------------------------------------------------------------------------
# reference: the shipped files, read as plain json
#
def shipped_raw():
    '''label -> plain dict as written in configs/resource_<site>.json'''
    raw = dict()
    for fname in sorted(os.listdir(CFG_DIR)):
        if not fname.startswith('resource_') or not fname.endswith('.json'):
            continue
        site = fname[len('resource_'):-len('.json')]
        data = ru.read_json(os.path.join(CFG_DIR, fname))
        for res, cfg in data.items():
            raw['%s.%s' % (site, res)] = cfg
    return raw


def unreadable_files():
    '''shipped resource / agent config files which are not valid json'''
    bad = list()
    for fname in sorted(os.listdir(CFG_DIR)):
        if fname.endswith('.json') and \
           (fname.startswith('resource_') or fname.startswith('agent_')):
            try:
                data = ru.read_json(os.path.join(CFG_DIR, fname))
                assert isinstance(data, dict), type(data)
            except Exception as e:
                bad.append((fname, repr(e)))
    return bad


def _raw_value(raw, schema, key, default=None):
    '''a schema entry overrides the platform entry (documented merge)'''
    scfg = (raw.get('schemas') or {}).get(schema)
    if isinstance(scfg, dict) and key in scfg:
        return scfg[key]
    val = raw.get(key)
    return default if val is None else val


def ceil_div(a, b):
    return (a + b - 1) // b


def node_size(raw, schema, env_smt):
    '''usable cores / gpus per node (appendix A.11); 0: unknown / none'''
    cpn = _raw_value(raw, schema, 'cores_per_node', 0)
    gpn = _raw_value(raw, schema, 'gpus_per_node',  0)
    sa  = _raw_value(raw, schema, 'system_architecture', {}) or {}
    smt = int(env_smt or sa.get('smt') or 1)
    bc  = len(sa.get('blocked_cores') or [])
    bg  = len(sa.get('blocked_gpus')  or [])
    u   = cpn * smt - bc if cpn else 0
    g   = gpn - bg       if gpn else 0
    return {'cpn': cpn, 'gpn': gpn, 'smt': smt, 'cfg_smt': sa.get('smt'),
            'blocked_cores': bc, 'blocked_gpus': bg, 'u': u, 'g': g}


def reference_nodes(ns, nodes, cores, gpus):
    '''smallest whole number of nodes covering the request; None: unknown'''
    u, g = ns['u'], ns['g']
    if u <= 0:
        return None
    if nodes:
        return nodes
    n = ceil_div(cores, u)
    if g > 0:
        n = max(n, ceil_div(gpus, g))
    # self check of the reference: n covers, n - 1 does not
    assert n * u >= cores and (g <= 0 or n * g >= gpus)
    assert n == 0 or (n - 1) * u < cores or (g > 0 and (n - 1) * g < gpus)
    return n


# ------------------------------------------------------------------------------
# environment answers
#
_orig_sh_callout = ru.sh_callout
_sh_cache        = dict()
_sh_notes        = set()


def _sh_callout(cmd, *args, **kwargs):
    '''
    The two shell callouts on the way to the job description are environment:
    `echo "WORKDIR: <raw>"` expands `$VAR` in the remote working directory (on
    the target machine, in production) and `tar` packs the session tarball.
    The first is answered by the local shell, once per distinct string; if
    the local /bin/sh cannot expand it (bash syntax under dash), the variables
    expand to nothing -- as they would for unset variables.
    '''
    if isinstance(cmd, str) and cmd.startswith(' echo "WORKDIR: '):
        if cmd not in _sh_cache:
            out, err, ret = _orig_sh_callout(cmd, *args, **kwargs)
            if ret or 'WORKDIR:' not in out:
                raw = cmd[len(' echo "'):-1]
                out = re.sub(r'\$\{[^}]*\}|\$\w+', '', raw) + '\n'
                _sh_notes.add('local shell could not expand %r (%s): variables '
                              'expanded to nothing' % (raw, err.strip()))
                err, ret = '', 0
            _sh_cache[cmd] = (out, err, ret)
        return _sh_cache[cmd]

    if isinstance(cmd, str) and re.match(r'^cd \S+ && tar zchf \S+ \*$', cmd):
        return '', '', 0

    return _orig_sh_callout(cmd, *args, **kwargs)


class _Launcher(object):
    '''stands for SAGA / PSI/J: takes the job descriptions'''

    def __init__(self):
        self.jobs = list()
        self.psij_jobs = list()

    def can_launch(self, rcfg, pilots):
        return True

    def launch_pilots(self, rcfg, pilots):
        for pilot in pilots:
            self.jobs.append(pilot['jd_dict'])
        # the job descriptions are turned into batch jobs by the real PSI/J
        # launcher (up to, not including, submission) where it is in charge
        if _psij is None:
            return
        lnch = PilotLauncherPSIJ.__new__(PilotLauncherPSIJ)
        lnch._log, lnch._prof = _LOG, seams.null()
        lnch._jobs, lnch._pilots = dict(), dict()
        lnch._lock = seams.NoLock()
        schema = lnch._get_schema(rcfg)
        if not schema or schema not in _psij.JobExecutor.get_executor_names():
            return
        launcher = self

        class Rec(object):
            def submit(self_, job):
                launcher.psij_jobs.append(job)
        lnch._jex = {schema: Rec()}
        lnch.launch_pilots(rcfg, pilots)

    def kill_pilots(self, pids):
        pass


# ------------------------------------------------------------------------------
# constructor stubs for the factories
#
def _subclasses(cls):
    out = [cls]
    for sub in cls.__subclasses__():
        out += _subclasses(sub)
    return out


def _stub_init(self, *args, **kwargs):
    self._c17_stubbed = True


class _AgentSession(object):
    '''what the component factories read from the agent session'''

    def __init__(self, rcfg):
        # the agent session holds the resource config as ru.Config
        self.rcfg = ru.Config(cfg=copy.deepcopy(ru.as_dict(rcfg)))
        self.cfg  = ru.Config(cfg={})
        self.uid  = 'session.verif'


def stub_factory_ctors():
    '''
    The factories import their implementations when called: call each one with
    a name no table can contain, then replace the constructors of everything
    which derives from the four base classes.
    '''
    # importing the Popen executor installs SIGTERM / SIGINT handlers which
    # do not terminate the process: worker processes of the pool would
    # survive Pool.terminate().  Keep the handlers this process had.
    saved = dict()
    for sig in (signal.SIGTERM, signal.SIGINT):
        try   : saved[sig] = signal.getsignal(sig)
        except ValueError: pass

    bogus = _AgentSession({'agent_scheduler': '\0', 'agent_spawner': '\0',
                           'launch_methods' : {}})
    for call in (lambda: ResourceManager.get_manager('\0'),
                 lambda: LaunchMethod.create('\0', None, None, None, None),
                 lambda: AgentSchedulingComponent.create(None, bogus),
                 lambda: AgentExecutingComponent.create(None, bogus)):
        try:
            call()
        except (ValueError, RuntimeError):
            pass

    for base in (ResourceManager, LaunchMethod, AgentSchedulingComponent,
                 AgentExecutingComponent):
        for cls in _subclasses(base):
            cls.__init__ = _stub_init

    for sig, handler in saved.items():
        try   : signal.signal(sig, handler)
        except (ValueError, TypeError): pass


# ------------------------------------------------------------------------------
#
class World(object):
    '''bare session + bare launching component, one per process'''

    def __init__(self, scratch):

        self.tmp = os.path.join(scratch, 'c17.%d' % os.getpid())
        os.makedirs(self.tmp, exist_ok=True)
        tempfile.tempdir = self.tmp

        # only the shipped configurations: no user level overrides
        os.environ['RADICAL_CONFIG_USER_DIR'] = self.tmp

        # `radical-utils-env.sh` (staged with every pilot) is installed next
        # to the interpreter
        bindir = os.path.dirname(os.path.abspath(sys.executable))
        if bindir not in os.environ.get('PATH', '').split(os.pathsep):
            os.environ['PATH'] = bindir + os.pathsep + os.environ.get('PATH', '')

        ru.sh_callout = _sh_callout
        stub_factory_ctors()

        self.raw     = shipped_raw()
        self.session = self._make_session()
        self.labels  = self.session.list_resources()
        self.npilot  = 0

        self.launcher  = _Launcher()
        self.component = self._make_component()

    # --------------------------------------------------------------------------
    def _make_session(self):

        s = Session.__new__(Session)
        s._uid   = 'session.verif'
        s._role  = Session._PRIMARY
        s._cfg   = None
        s._get_logger   = lambda *a, **kw: _LOG
        s._get_profiler = lambda *a, **kw: seams.null()
        s._get_reporter = lambda *a, **kw: seams.null()

        # the real loader: session config, all resource configs
        s._init_cfg_from_scratch()

        s._cfg['proxy_url'] = 'tcp://localhost:10001/'
        s._cache_lock = seams.NoLock()
        self._reset_cache(s)
        return s

    @staticmethod
    def _reset_cache(s):
        # as in Session.__init__
        s._cache = {'endpoint_fs'     : dict(),
                    'resource_sandbox': dict(),
                    'session_sandbox' : dict(),
                    'pilot_sandbox'   : dict(),
                    'client_sandbox'  : s._cfg.client_sandbox,
                    'js_shells'       : dict(),
                    'fs_dirs'         : dict()}

    def reset_cache(self):
        # the sandbox cache is keyed by resource label only: every (resource,
        # schema) pair starts from an empty cache, as a fresh session would
        self._reset_cache(self.session)

    # --------------------------------------------------------------------------
    def _make_component(self):

        c = seams.bare(PMGRLaunchingComponent, uid='pmgr.0000.launching.0000')
        c._log        = _LOG
        c._session    = self.session
        c._cfg        = ru.Config(cfg={'base': self.tmp})
        c._pmgr       = 'pmgr.0000'
        c._pilots     = dict()
        c._lock       = seams.NoLock()
        c._sandboxes  = dict()
        c._cancelled  = list()
        c._mod_dir    = os.path.dirname(os.path.abspath(
                           sys.modules[PMGRLaunchingComponent.__module__]
                           .__file__))
        c._root_dir   = '%s/../../' % c._mod_dir
        c._rp_version = rp.version
        c._launchers  = {'VERIF': self.launcher}
        c._stage_in   = lambda pilot, sds: None
        return c

    # --------------------------------------------------------------------------
    def schemas(self, label):
        site, res = label.split('.', 1)
        return list(self.session._rcfgs[site][res]['schemas'] or {})

    # --------------------------------------------------------------------------
    @staticmethod
    def describe(label, schema, size, raw):
        '''verified pilot description; ValueError: cannot be submitted'''
        d = {'resource': label, 'runtime': 10, 'project': 'p1'}
        if schema:
            d['access_schema'] = schema
        for k in ('nodes', 'cores', 'gpus', 'backup_nodes'):
            if size.get(k):
                d[k] = size[k]
        for ma in raw.get('mandatory_args') or []:
            d.setdefault(ma, 'x')

        pd = rp.PilotDescription(d)
        pd.verify()
        return pd

    def make_pilot(self, pd):
        '''
        pilot dict as the PilotManager hands it to the launching component:
        description as dict, sandboxes filled in by the session (Pilot ctor)
        '''
        self.npilot += 1
        s     = self.session
        pilot = {'uid'             : 'pilot.%06d' % self.npilot,
                 'type'            : 'pilot',
                 'state'           : rp.PMGR_LAUNCHING_PENDING,
                 'pmgr'            : 'pmgr.0000',
                 'description'     : pd.as_dict(),
                 'pilot_sandbox'   : '',
                 'resource_sandbox': '',
                 'session_sandbox' : '',
                 'client_sandbox'  : ''}
        s._get_jsurl(pilot)
        pilot['endpoint_fs']      = str(s._get_endpoint_fs     (pilot))
        pilot['resource_sandbox'] = str(s._get_resource_sandbox(pilot))
        pilot['session_sandbox']  = str(s._get_session_sandbox (pilot))
        pilot['pilot_sandbox']    = str(s._get_pilot_sandbox   (pilot))
        pilot['client_sandbox']   = str(s._get_client_sandbox())
        return pilot

    # --------------------------------------------------------------------------
    def launch(self, label, schema, pd, env_smt):
        '''
        real _start_pilot_bulk; returns (pilot, jd_dict, agent cfg as written)
        '''

        if env_smt: os.environ['RADICAL_SMT'] = str(env_smt)
        else      : os.environ.pop('RADICAL_SMT', None)

        self.launcher.jobs = list()
        self.component._pilots.clear()
        try:
            pilot = self.make_pilot(pd)
            self.component._start_pilot_bulk(label, schema, [pilot])

            assert len(self.launcher.jobs) == 1, self.launcher.jobs
            jd  = self.launcher.jobs[0]

            # what the agent is told: the file staged as agent_0.cfg
            src = [sd['source'] for sd in pilot['sds']
                   if str(sd['target']).endswith('/agent_0.cfg')]
            assert len(src) == 1, pilot['sds']
            told = ru.read_json(src[0])
            return pilot, jd, told

        finally:
            os.environ.pop('RADICAL_SMT', None)
            for entry in os.listdir(self.tmp):
                path = os.path.join(self.tmp, entry)
                if os.path.isdir(path): shutil.rmtree(path, ignore_errors=True)
                else                  : os.unlink(path)


def _launch_bulk(self, label, schema, pds, env_smt):
    '''
    real _start_pilot_bulk with several pilots in one bulk; returns the list
    of (node_count, total_cpu_count, total_gpu_count, agent nodes, agent
    backup_nodes, agent cores, agent gpus) per pilot, in order
    '''
    if env_smt: os.environ['RADICAL_SMT'] = str(env_smt)
    else      : os.environ.pop('RADICAL_SMT', None)
    self.launcher.jobs = list()
    self.component._pilots.clear()
    try:
        pilots = [self.make_pilot(pd) for pd in pds]
        self.component._start_pilot_bulk(label, schema, pilots)
        assert len(self.launcher.jobs) == len(pilots), self.launcher.jobs
        out = list()
        for pilot, jd in zip(pilots, self.launcher.jobs):
            src = [sd['source'] for sd in pilot['sds']
                   if str(sd['target']).endswith('/agent_0.cfg')]
            told = ru.read_json(src[0])
            out.append((jd.node_count, jd.total_cpu_count, jd.total_gpu_count,
                        told.get('nodes'), told.get('backup_nodes'),
                        told.get('cores'), told.get('gpus')))
        return out
    finally:
        os.environ.pop('RADICAL_SMT', None)
        for entry in os.listdir(self.tmp):
            path = os.path.join(self.tmp, entry)
            if os.path.isdir(path): shutil.rmtree(path, ignore_errors=True)
            else                  : os.unlink(path)


World.launch_bulk = _launch_bulk


def check_bulk(w, label, schema, raw, env_smt, sizes, record):
    '''
    history independence: pilots submitted together in one bulk are sized as
    if each were submitted alone
    '''
    pds = list()
    for size in sizes:
        try:
            pds.append(w.describe(label, schema, size, raw))
        except ValueError:
            return None
    try:
        w.reset_cache()
        alone = list()
        for pd in pds:
            alone += w.launch_bulk(label, schema, [pd], env_smt)
            w.reset_cache()
        both = w.launch_bulk(label, schema, pds, env_smt)
    except Exception:
        return None          # refusals are the single-pilot clauses' business
    for i, (a, b) in enumerate(zip(alone, both)):
        if a != b:
            ns = node_size(raw, schema, env_smt)
            record('bulk-position', SITE_PP, None,
                   '%s [%s] RADICAL_SMT=%s: pilot %s as #%d of a bulk %s is '
                   'sized (job nodes, cpus, gpus, agent nodes, backup, cores, '
                   'gpus) = %s, alone %s'
                   % (label, schema, env_smt or 'unset', sizes[i], i + 1,
                      sizes, b, a),
                   {'kind': 'bulk', 'label': label, 'schema': schema,
                    'env_smt': env_smt, 'sizes': sizes},
                   key='pilot-%d-of-bulk:smt%s'
                       % (i + 1, '>1' if (ns['smt'] or 1) > 1 else '=1'))
    return ('bulk', tuple(both))


_world = None


def world():
    global _world
    if _world is None or _world.tmp.rsplit('.', 1)[1] != str(os.getpid()):
        _world = World(os.environ.get('RPMC_SCRATCH') or tempfile.gettempdir())
    return _world


# ------------------------------------------------------------------------------
#
def _rp_site(exc):
    '''innermost radical.pilot function on the traceback'''
    site = '?'
    for fs in traceback.extract_tb(exc.__traceback__):
        if os.path.realpath(fs.filename).startswith(os.path.realpath(RP_DIR)):
            site = fs.name
    return site


def _diagnose_grc(raw, schema):
    '''which config key makes get_resource_config refuse the platform'''
    bad = sorted(k for k, v in (raw.get('schemas') or {}).items()
                 if not isinstance(v, dict))
    if bad:
        return 'schemas.%s' % ','.join(bad)
    if not schema:
        return 'default_schema=%s' % raw.get('default_schema')
    return 'schemas.%s' % schema


# ------------------------------------------------------------------------------
# resolution
#
def check_resolution(w, part, label, schema, rcfg, raw):
    '''
    every name the configuration gives must be known to the factory which
    will be asked for it in the agent
    '''
    replay = {'kind': 'resolve', 'label': label, 'schema': schema}
    names  = dict()

    def violation(clause, site, key, what):
        part.violation('%s|%s|%s:%s' % (clause, site, label, key),
                       {'what': '%s [%s]: %s' % (label, schema, what)}, replay)

    # -- resource manager ------------------------------------------------------
    rm_name = rcfg.resource_manager
    rm      = None
    try:
        rm = ResourceManager.create(rm_name, ru.Config(cfg={}), rcfg, _LOG,
                                    seams.null())
        assert isinstance(rm, ResourceManager), rm
        names['rm'] = type(rm).__name__
    except RuntimeError as e:
        violation('unknown-resource-manager', 'ResourceManager.create',
                  'resource_manager=%s' % rm_name, repr(e))

    # -- launch methods --------------------------------------------------------
    lms   = copy.deepcopy(ru.as_dict(rcfg.launch_methods))
    order = list(lms.get('order') or [k for k in lms])
    if rm is None:
        rm = ResourceManager.__new__(ResourceManager)
    rm._log     = _LOG
    rm._prof    = seams.null()
    rm._cfg     = ru.Config(cfg={'pid': 'pilot.0000', 'reg_addr': 'tcp://-',
                                 'resource': label})
    rm._rm_info = RMInfo({'launch_methods': lms})
    try:
        try:
            rm._prepare_launch_methods()
        except RuntimeError as e:
            violation('no-launch-method',
                      'ResourceManager._prepare_launch_methods',
                      'launch_methods.order=%s' % ','.join(order), repr(e))
        for name in order:
            if name not in rm._launch_order:
                violation('unknown-launch-method', 'LaunchMethod.create',
                          'launch_methods.order=%s' % name,
                          'launch method %s is skipped by the resource manager '
                          '(%s)' % (name, _lm_error(name)))
        names['lm'] = tuple('%s:%s' % (n, type(rm._launchers[n]).__name__)
                            for n in rm._launch_order)
    except KeyError as e:
        violation('launch-method-not-configured',
                  'ResourceManager._prepare_launch_methods',
                  'launch_methods.order=%s' % e.args[0],
                  '`order` names %r which has no entry in launch_methods'
                  % e.args[0])

    for name in lms:
        if name == 'order' or name in order:
            continue
        err = _lm_error(name)
        if err:
            violation('unknown-launch-method', 'LaunchMethod.create',
                      'launch_methods.%s' % name, err)

    # -- scheduler, executor ---------------------------------------------------
    asession = _AgentSession(rcfg)
    try:
        sched = AgentSchedulingComponent.create(ru.Config(cfg={}), asession)
        assert isinstance(sched, AgentSchedulingComponent), sched
        names['scheduler'] = type(sched).__name__
    except ValueError as e:
        violation('unknown-scheduler', 'AgentSchedulingComponent.create',
                  'agent_scheduler=%s' % rcfg.agent_scheduler, repr(e))
    try:
        execu = AgentExecutingComponent.create(ru.Config(cfg={}), asession)
        assert isinstance(execu, AgentExecutingComponent), execu
        names['executor'] = type(execu).__name__
    except ValueError as e:
        violation('unknown-spawner', 'AgentExecutingComponent.create',
                  'agent_spawner=%s' % rcfg.agent_spawner, repr(e))

    # -- agent configuration ---------------------------------------------------
    acfg = rcfg.agent_config
    if isinstance(acfg, str):
        # `ru.Config` answers a name it cannot find with an empty config
        fname = os.path.join(CFG_DIR, 'agent_%s.json' % acfg)
        found = os.path.isfile(fname)
        if found:
            try:
                found = bool(ru.read_json(fname))
            except Exception:
                found = False
        loaded = ru.Config('radical.pilot', category='agent', name=acfg)
        if not found or not loaded:
            violation('agent-config-missing', SITE_PP,
                      'agent_config=%s' % acfg,
                      'no usable %s; ru.Config loads %r'
                      % (fname, ru.as_dict(loaded)))
        names['agent_config'] = acfg
    elif isinstance(acfg, dict):
        names['agent_config'] = '<inline>'
    else:
        violation('agent-config-missing', SITE_PP,
                  'agent_config=%r' % (acfg,), 'neither a name nor a dict')

    # -- batch job launcher ------------------------------------------------------
    # "can be turned into a batch job": the endpoint names one batch system
    # next to any number of access mechanisms, in either order; the pilot
    # launcher which speaks to batch systems (PSI/J, installed here) must
    # accept it and pick the executor of that batch system.  Endpoints which
    # name only an access mechanism (ssh://host) belong to the optional SAGA
    # launcher and are an outcome class only.
    ep     = str(rcfg.job_manager_endpoint or '')
    tokens = ep.split(':')[0].split('+')
    batch  = [t for t in tokens if t not in ('ssh', 'gsissh')]
    if _psij is None:
        part.assume('psij is not installed: launcher clause not evaluated')
    elif len(batch) == 1 and batch[0]:
        want = {'fork': 'local', 'pbspro': 'pbs'}.get(batch[0], batch[0])
        lnch = PilotLauncherPSIJ.__new__(PilotLauncherPSIJ)
        lnch._log  = _LOG
        lnch._jex  = _JEX
        lnch._job_status_cb = lambda *a, **k: None
        got = ok = None
        try:
            got = lnch._get_schema(rcfg)
            ok  = lnch.can_launch(rcfg, [])
        except Exception as e:
            got = repr(e)
        if want not in _psij.JobExecutor.get_executor_names():
            part.outcome(('launcher', 'no-psij-executor', want))
        elif not ok or got != want:
            violation('no-batch-launcher', 'PilotLauncherPSIJ.can_launch',
                      'job_manager_endpoint=%s' % ep.split(':')[0],
                      'endpoint %s names batch system %r but the launcher '
                      'resolves %r, can_launch=%r' % (ep, batch[0], got, ok))
        names['launcher'] = 'psij:%s' % got
    else:
        names['launcher'] = 'access-only:%s' % '+'.join(tokens)

    part.outcome(('resolve', repr(sorted(names.items()))))
    return names


def _lm_error(name):
    try:
        lm = LaunchMethod.create(name, ru.Config(cfg={}), None, _LOG,
                                 seams.null())
        assert isinstance(lm, LaunchMethod), lm
        return None
    except ValueError as e:
        return repr(e)


# ------------------------------------------------------------------------------
# sizing
#
def sizes_for(ns, tier):
    '''pilot sizes for a node size (appendix: alphabet of C17)'''
    u, g, cpn, gpn = ns['u'], ns['g'], ns['cpn'], ns['gpn']
    out = list()

    quick = tier == 'quick'
    nodes = (1, 2, 5)         if quick else (1, 2, 3, 4, 5, 8, 17)
    backs = (0, 1)            if quick else (0, 1, 2)
    for n in nodes:
        for b in backs:
            out.append({'nodes': n, 'backup_nodes': b})

    if u > 0:
        cores = {1, u - 1, u, u + 1, 2 * u + 1,
                 cpn - 1, cpn, cpn + 1, 2 * cpn + 1}
        if not quick:
            cores |= {2, u // 2, 2 * u - 1, 2 * u, 3 * u, 3 * u + 1,
                      7 * u + 3, 2 * cpn, 16 * u}
    else:
        cores = {1, 7, 64}
    cores = sorted(c for c in cores if c > 0)

    gpus = {0, 1, g, g + 1, gpn, gpn + 1} if (g > 0 or gpn > 0) else {0, 1, 4}
    if not quick and g > 0:
        gpus |= {g - 1, 2 * g, 2 * g + 1, 5 * g + 1}
    gpus = sorted(x for x in gpus if x >= 0)

    for c in cores:
        for x in gpus:
            out.append({'cores': c, 'gpus': x})

    if not quick and u > 0:
        # every core count up to two nodes and a bit
        seen = set(cores)
        for c in range(1, 2 * u + 3):
            if c not in seen:
                out.append({'cores': c, 'gpus': 0})

    # sizes a PilotDescription does not accept (never reach the launcher)
    out.append({'cores': cores[0], 'backup_nodes': 1})
    out.append({'nodes': 1, 'cores': cores[0]})
    out.append({})
    return out


def size_features(ns, env_smt, size, nref):
    '''attributes of a sizing case which may distinguish a failure'''
    f = set()
    f.add('nodes-given' if size.get('nodes') else 'cores-given')
    if ns['blocked_cores']              : f.add('blocked-cores')
    if ns['blocked_gpus']               : f.add('blocked-gpus')
    if env_smt                          : f.add('env-smt')
    elif ns['smt'] > 1                  : f.add('smt')
    if size.get('backup_nodes')         : f.add('backup')
    if ns['u'] <= 0                     : f.add('no-node-size')
    if size.get('gpus')                 : f.add('gpus')
    if not size.get('nodes') and ns['u'] > 0:
        u, g   = ns['u'], ns['g']
        c, x   = size.get('cores', 0), size.get('gpus', 0)
        nc, ng = ceil_div(c, u), (ceil_div(x, g) if g > 0 else 0)
        # which of the two requests decides, and does it fill whole nodes
        if g > 0 and x * u > c * g:
            f.add('gpu-bound')
            if x % g                    : f.add('partial-node')
        elif c % u                      : f.add('partial-node')
        if ng > nc                      : f.add('gpu-bound')
    if nref is not None and nref > 1    : f.add('multi-node')
    return frozenset(f)


FEATURE_ORDER = ['nodes-given', 'cores-given', 'no-node-size', 'partial-node',
                 'gpu-bound', 'gpus', 'backup', 'blocked-cores',
                 'blocked-gpus', 'smt', 'env-smt', 'multi-node']


def trigger_of(features):
    return ':'.join(f for f in FEATURE_ORDER if f in features) or '-'


def check_size(w, label, schema, raw, env_smt, size, record):
    '''
    one pilot size on one (resource, schema); `record(clause, site, features,
    what, replay)` is called for every failed oracle clause.  Returns the
    observation (for coverage).
    '''
    ns     = node_size(raw, schema, env_smt)
    replay = {'kind': 'size', 'label': label, 'schema': schema,
              'env_smt': env_smt, 'size': size}
    nodes  = size.get('nodes', 0)
    cores  = size.get('cores', 0)
    gpus   = size.get('gpus',  0)
    backup = size.get('backup_nodes', 0)

    try:
        pd = w.describe(label, schema, size, raw)
    except ValueError as e:
        # PilotDescription.verify refuses it: never reaches the launcher
        return ('not-a-pilot', str(e))

    nref = reference_nodes(ns, nodes, cores, gpus)
    feat = size_features(ns, env_smt, size, nref)
    u, g = ns['u'], ns['g']
    case = '%s [%s] RADICAL_SMT=%s %s (cores/node %s x smt %s - %s blocked = ' \
           '%s usable, gpus/node %s - %s blocked = %s usable)' \
         % (label, schema, env_smt or 'unset', size, ns['cpn'], ns['smt'],
            ns['blocked_cores'], u, ns['gpn'], ns['blocked_gpus'], g)

    try:
        pilot, jd, told = w.launch(label, schema, pd, env_smt)

    except RuntimeError as e:
        if nodes and u <= 0 and 'use "cores"' in str(e):
            # documented: a platform without node size takes cores, not nodes
            return ('refused', 'nodes-given', 'no-node-size')
        record('no-job', _rp_site(e), None,
               '%s: %r' % (case, e), replay, key='%s:RuntimeError' % label)
        return ('raised', 'RuntimeError')

    except Exception as e:
        record('no-job', _rp_site(e), None,
               '%s: %r' % (case, e), replay,
               key='%s:%s' % (label, type(e).__name__))
        return ('raised', type(e).__name__)

    j_nodes, j_cpus, j_gpus = jd.node_count, jd.total_cpu_count, \
                              jd.total_gpu_count
    a_nodes, a_back          = told.get('nodes'), told.get('backup_nodes')
    a_cpus,  a_gpus          = told.get('cores'), told.get('gpus')
    got = 'job: node_count=%s total_cpu_count=%s total_gpu_count=%s; agent: ' \
          'nodes=%s backup_nodes=%s cores=%s gpus=%s' \
        % (j_nodes, j_cpus, j_gpus, a_nodes, a_back, a_cpus, a_gpus)

    def fail(clause, what):
        record(clause, SITE_PP, feat, '%s: %s; %s' % (case, what, got), replay)

    # -- the job fits the request ----------------------------------------------
    if nref is not None:
        if j_nodes != nref + backup:
            fail('node-count', 'expected %d node(s) + %d backup'
                               % (nref, backup))
        if j_cpus != j_nodes * u:
            fail('cpu-count', 'expected node_count x %d usable cores' % u)
        if g > 0 and j_gpus != j_nodes * g:
            fail('gpu-count', 'expected node_count x %d usable gpus' % g)

    # -- the agent is told what the job requests -------------------------------
    try   : a_sum = a_nodes + a_back
    except: a_sum = None
    if a_sum != j_nodes:
        fail('agent-nodes', 'agent nodes + backup_nodes != job node_count')
    if a_cpus != j_cpus:
        fail('agent-cores', 'agent cores != job total_cpu_count')
    if a_gpus != j_gpus:
        fail('agent-gpus', 'agent gpus != job total_gpu_count')

    # ... and the same node size: cores (hardware threads included) and GPUs
    # per node, before the agent takes the blocked ones off
    if ns['cpn'] and told.get('cores_per_node') != ns['cpn'] * ns['smt']:
        fail('agent-cores-per-node', 'agent cores_per_node %s != %s x smt %s'
             % (told.get('cores_per_node'), ns['cpn'], ns['smt']))
    if ns['cpn'] and (told.get('gpus_per_node') or 0) != (ns['gpn'] or 0):
        fail('agent-gpus-per-node', 'agent gpus_per_node %s != %s'
             % (told.get('gpus_per_node'), ns['gpn']))

    # the in-memory agent config is the one that was written
    cfg = pilot['cfg']
    if (cfg['nodes'], cfg['backup_nodes'], cfg['cores'], cfg['gpus']) != \
       (a_nodes, a_back, a_cpus, a_gpus):
        fail('agent-cfg-file', 'agent_0.cfg differs from pilot["cfg"]')

    return ('job', u, g, nodes, cores, gpus, backup, j_nodes, j_cpus, j_gpus)


# ------------------------------------------------------------------------------
# one platform: all schemas x RADICAL_SMT x sizes
#
def check_platform(w, label, tier):

    part  = report.Part()
    fails = dict()    # (clause, site, features | key) -> [count, what, replay]
    raw   = w.raw.get(label)
    neval = 0
    npair = 0

    def record(clause, site, features, what, replay, key=None):
        k = (clause, site, features if key is None else key)
        if k not in fails:
            fails[k] = [0, what, replay]
        fails[k][0] += 1

    if raw is None:
        # not a shipped file: nothing to say about it
        return {'part': part.dump(), 'fails': [], 'notes':
                ['resource %s is not in the shipped files: skipped' % label]}

    schemas = w.schemas(label)
    assert sorted(schemas) == sorted(raw.get('schemas') or {}), label

    env_smts = (None, 2) if tier == 'quick' else (None, 1, 2, 4)

    for schema in schemas + [None]:

        w.reset_cache()
        neval += 1
        try:
            rcfg = w.session.get_resource_config(label, schema)
        except Exception as e:
            part.violation('config-rejected|%s|%s:%s'
                           % (SITE_GRC, label, _diagnose_grc(raw, schema)),
                           {'what': '%s [%s]: %r' % (label, schema, e)},
                           {'kind': 'resolve', 'label': label,
                            'schema': schema})
            part.outcome(('config-rejected', type(e).__name__))
            continue

        if schema is None:
            # a description without access schema: the default resolves
            part.outcome(('default-schema', bool(rcfg.default_schema)))
            continue

        npair += 1
        names = check_resolution(w, part, label, schema, rcfg, raw)

        for env_smt in env_smts:
            ns = node_size(raw, schema, env_smt)
            for size in sizes_for(ns, tier):
                w.reset_cache()
                obs = check_size(w, label, schema, raw, env_smt, size, record)
                neval += 1
                part.outcome(obs)
                if label == 'ornl.frontier' and env_smt is None \
                        and size in ({'cores': 113, 'gpus': 0},
                                     {'nodes': 2, 'backup_nodes': 1},
                                     {'cores': 1, 'gpus': 9}):
                    part.sample({'resource': label, 'schema': schema,
                                 'request': size, 'usable cores/node': ns['u'],
                                 'usable gpus/node': ns['g'],
                                 'resolved': names,
                                 'job (nodes, cpus, gpus)': list(obs[-3:])})

            # two pilots in one bulk, both orders
            sizes = [sz for sz in sizes_for(ns, tier)][:6]
            pairs = [(sizes[0], sizes[-1]), (sizes[-1], sizes[0])] \
                    if len(sizes) >= 2 else []
            if len(sizes) >= 4:
                pairs.append((sizes[1], sizes[2]))
            for pair in pairs:
                obs = check_bulk(w, label, schema, raw, env_smt, list(pair),
                                 record)
                if obs:
                    neval += 1
                    part.outcome(obs)

    # resolution is a function of (platform, schema): after everything this
    # session has resolved and prepared so far, each schema still resolves to
    # what a brand-new session gives, whichever schema was asked for before
    fresh = dict()
    for schema in schemas:
        try:
            fresh[schema] = ru.as_dict(World._make_session(w)
                                       .get_resource_config(label, schema))
        except Exception:
            pass
    for first in schemas:
        for second in schemas:
            if second not in fresh or first not in fresh:
                continue
            neval += 1
            try:
                w.session.get_resource_config(label, first)
                got = ru.as_dict(w.session.get_resource_config(label, second))
            except Exception as e:
                got = repr(e)
            if got != fresh[second]:
                diff = sorted(k for k in set(got) | set(fresh[second])
                              if got.get(k) != fresh[second].get(k)) \
                       if isinstance(got, dict) else got
                part.violation('resolution-depends-on-history|%s|%s:%s'
                               % (SITE_GRC, label, ','.join(map(str, diff))
                                  if isinstance(diff, list) else 'raises'),
                               {'what': '%s: schema %r resolved after %r '
                                        'differs from a fresh session in %s'
                                        % (label, second, first, diff)},
                               {'kind': 'resolve', 'label': label,
                                'schema': second})
    part.cover(evaluations=neval, pairs=npair, platforms=1)

    return {'part' : part.dump(),
            'fails': [(k, v) for k, v in fails.items()],
            'notes': sorted(_sh_notes)}


# ------------------------------------------------------------------------------
#
_tier = 'quick'


def _job(label):
    return check_platform(world(), label, _tier)


def reduce_fails(ctx, fails):
    '''
    sizing failures are reported for the minimal sets of distinguishing
    attributes: a failing case class is dropped if a class with fewer
    attributes fails the same clause (the shrunk counterexample names the
    root cause, appendix B)
    '''
    by_clause = dict()
    for (clause, site, feat), (n, what, replay) in fails.items():
        if not isinstance(feat, frozenset):
            # keyed by platform
            ctx.violation('%s|%s|%s' % (clause, site, feat),
                          {'what': what, 'cases': n}, replay)
            continue
        by_clause.setdefault((clause, site), dict())[feat] = (n, what, replay)

    for (clause, site), classes in sorted(by_clause.items()):
        total = sum(n for n, _, _ in classes.values())
        for feat, (n, what, replay) in sorted(classes.items(),
                                              key=lambda x: sorted(x[0])):
            if any(other < feat for other in classes):
                continue
            ctx.violation('%s|%s|%s' % (clause, site, trigger_of(feat)),
                          {'what': what, 'cases_in_class': n,
                           'cases_failing_clause': total}, replay)


def run(ctx):
    global _tier
    ctx.level = 'exploration'
    _tier     = ctx.tier

    os.environ['RPMC_SCRATCH'] = ctx.scratch

    bad = unreadable_files()
    for fname, err in bad:
        ctx.violation('config-unreadable|ru.Config|%s' % fname,
                      {'what': 'configs/%s cannot be read: %s' % (fname, err)},
                      {'kind': 'file', 'file': fname})
    if bad:
        # none of the platforms in these files (or no platform at all) loads
        ctx.cover(evaluations=len(bad))
        ctx.cap('unreadable configuration files: nothing else was checked')
        ctx.set(distinct_nontrivial=len(ctx.outcomes))
        return

    w      = world()
    labels = list(w.labels)

    shipped = set(w.raw)
    if set(labels) != shipped:
        ctx.notes.append('resource labels known to the session differ from '
                         'the shipped files: %s'
                         % sorted(set(labels) ^ shipped))

    fails = dict()
    notes = set()
    # big platforms first, one platform per job, long-lived workers
    for res in seams.pmap(_job, labels, ctx.workers):
        ctx.merge(res['part'])
        for k, v in res['fails']:
            if k not in fails:
                fails[k] = list(v)
            else:
                fails[k][0] += v[0]
                if len(str(v[1])) < len(str(fails[k][1])):
                    fails[k][1:] = v[1:]
        notes.update(res['notes'])

    reduce_fails(ctx, fails)
    ctx.notes.extend(sorted(notes))

    ctx.set(exhaustive=True,
            rule='all shipped resource configurations (%d) x all access '
                 'schemas + the default x RADICAL_SMT in %s x pilot sizes: '
                 'nodes x backup nodes, cores at the node boundaries (1, '
                 'u-1, u, u+1, 2u+1 for usable and for configured cores per '
                 'node) x gpus (0, 1, g, g+1)%s, and the sizes a '
                 'PilotDescription refuses; resolution once per (resource, '
                 'schema).  distinct = distinct (usable node size, request, '
                 'job figures) and distinct resolved component sets'
                 % (len(labels),
                    '{unset, 2}' if ctx.quick else '{unset, 1, 2, 4}',
                    '' if ctx.quick else ', every core count up to 2u+2'))
    ctx.assume('the shell which expands $VAR in default_remote_workdir, the '
               'tarball, file staging and the batch system adaptor are '
               'environment: stand-ins answer for them',
               'factories are called with all constructors stubbed: a name '
               'resolves iff the factory finds a class for it',
               'reference node size: cores_per_node x smt - blocked_cores, '
               'gpus_per_node - blocked_gpus, read from the json files')
    ctx.set(distinct_nontrivial=len(ctx.outcomes))


# ------------------------------------------------------------------------------
#
def replay(ctx, data):

    r = data['replay']
    os.environ['RPMC_SCRATCH'] = ctx.scratch
    if r['kind'] == 'file':
        bad = [b for b in unreadable_files() if b[0] == r['file']]
        print('replaying', r, '->', bad or 'readable')
        return 1 if bad else 0
    w     = world()
    label = r['label']
    raw   = w.raw[label]
    print('replaying', r)
    print('detail   :', data.get('detail'))

    found = list()

    if r['kind'] == 'resolve':
        part = report.Part()
        try:
            rcfg = w.session.get_resource_config(label, r['schema'])
        except Exception as e:
            print('get_resource_config(%r, %r) raised %r'
                  % (label, r['schema'], e))
            return 1
        for k in ('resource_manager', 'agent_scheduler', 'agent_spawner',
                  'agent_config'):
            print('  %-17s: %r' % (k, rcfg[k]))
        print('  launch_methods   : %s' % sorted(rcfg.launch_methods))
        print('  order            : %s' % rcfg.launch_methods.get('order'))
        if r['schema']:
            names = check_resolution(w, part, label, r['schema'], rcfg, raw)
            print('resolved :', names)
        for k, (d, _) in part.violations.items():
            print('VIOLATED', k, d['what'])
            found.append(k)

    else:
        def record(clause, site, features, what, replay, key=None):
            k = '%s|%s|%s' % (clause, site, trigger_of(features)
                                            if key is None else key)
            print('VIOLATED', k, what)
            found.append(k)
        w.reset_cache()
        obs = check_size(w, label, r['schema'], raw, r['env_smt'], r['size'],
                         record)
        print('node size:', node_size(raw, r['schema'], r['env_smt']))
        print('observed :', obs)

    return 1 if found else 0
