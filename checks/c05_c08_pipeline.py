'''
C05 -- Every submitted task ends in one final state that tells the truth.
C08 -- Cancel stops the named tasks and nothing else.

Engine A (explicit-state BFS over cloneable worlds, rpmc.pipeworld): the real
client and agent components process tasks end to end; every order of component
steps, process exits, unschedule deliveries and - for C08 - every placement of
the cancel request and of its delivery to each component is explored, states
merged on a canonical form.  At every quiescent state all delivery orders of
the buffered state notifications to the client are enumerated and the final
Task states / callback logs are judged.

C08 additionally reports the scheduler part (rpmc.schedworld, cancel family)
and the executor part (checks.c07_executor).
'''

import os
import copy
import shutil
import collections

from rpmc import seams, report, pipeworld as pw

rp = seams.import_rp()

import radical.utils as ru                                         # noqa: E402
from radical.pilot import states    as rps                         # noqa: E402
from radical.pilot import constants as rpc                         # noqa: E402

FINAL = rps.FINAL
FULL  = [s for s, v in sorted(rps._task_state_values.items(),
                              key=lambda x: (x[1], str(x[0])))
         if s is not None and s not in (rps.NEW, rps.FAILED, rps.CANCELED)]

STAGE_FAULT = {
    'stage:tmgr_in'  : {'input_staging' : [{'source': 'client:///missing.dat',
                                            'target': 'task:///x.dat',
                                            'action': rpc.TRANSFER}]},
    'stage:agent_in' : {'input_staging' : [{'source': 'pilot:///missing.dat',
                                            'target': 'task:///x.dat',
                                            'action': rpc.COPY}]},
    'stage:agent_out': {'output_staging': [{'source': 'task:///missing.out',
                                            'target': 'pilot:///y.dat',
                                            'action': rpc.COPY}]},
    'stage:tmgr_out' : {'output_staging': [{'source': 'task:///missing.out',
                                            'target': 'client:///y.dat',
                                            'action': rpc.TRANSFER}]},
}
RAISE_AT = ['tmgr_sched', 'tmgr_in', 'agent_in', 'sched', 'exec', 'agent_out',
            'tmgr_out']
L2 = dict(nodes=1, cores=2, gpus=0)
L1 = dict(nodes=1, cores=1, gpus=0)


def scenarios(pid, quick):
    out = list()

    def add(name, tasks, exit, layout=L2, **kw):
        scn = {'name': name, 'tasks': tasks, 'exit': exit, 'layout': layout}
        scn.update(kw)
        out.append(scn)

    if pid == 'C05':
        faults = [None, 'exit1', 'nolauncher', 'popen', 'exec'] + \
                 sorted(STAGE_FAULT) + ['raise:%s' % c for c in RAISE_AT]
        for f in faults:
            d = dict(STAGE_FAULT.get(f, {}))
            # sequential: the follow-up task arrives after the fault
            add('seq/%s' % f,
                [{'uid': 't1', 'descr': d}, {'uid': 't2', 'after': 't1'}],
                {'t1': 1 if f == 'exit1' else 0, 't2': 0},
                fault=f, fault_uid='t1')
        for f in faults:
            if f is None or f.startswith('raise:'):
                continue      # a failing work routine fails its whole bulk
            d = dict(STAGE_FAULT.get(f, {}))
            # the faulty task and a good one travel in one bulk
            add('bulk/%s' % f,
                [{'uid': 't1', 'descr': d, 'with_next': True}, {'uid': 't2'}],
                {'t1': 1 if f == 'exit1' else 0, 't2': 0},
                fault=f, fault_uid='t1')
        # one bulk spread over two pilots by the client side scheduler; the
        # second pilot's agent is outside the world
        for order in ((0, 1), (1, 0)):
            d = dict(STAGE_FAULT['stage:tmgr_in'])
            tasks = [{'uid': 't1', 'descr': d}, {'uid': 't2'}]
            tasks = [dict(tasks[i]) for i in order]
            tasks[0]['with_next'] = True
            add('pilots2/stage:tmgr_in/%d%d' % order, tasks,
                {'t1': 0, 't2': 0}, fault='stage:tmgr_in', fault_uid='t1',
                pilots=2)
        # two tasks pushed one by one which the queue hands to the executor
        # (the output stager) as one bulk
        for f in ('nolauncher', 'popen', 'exec', 'exit1', 'stage:agent_out'):
            d = dict(STAGE_FAULT.get(f, {}))
            for order in ((0, 1), (1, 0)):
                tasks = [{'uid': 't1', 'descr': d}, {'uid': 't2'}]
                tasks = [dict(tasks[i]) for i in order]
                tasks[0]['with_next'] = True
                add('merge/%s/%d%d' % ((f,) + order), tasks,
                    {'t1': 1 if f == 'exit1' else 0, 't2': 0},
                    fault=f, fault_uid='t1', merge_at=['exec', 'agent_out'])
        # a bulk whose work routine raises while one of its tasks is named
        # by a cancel request: that task ends CANCELED (request seen first)
        # or FAILED (with the bulk) - one of them, announced once
        for c in (['agent_in', 'exec'] if quick else RAISE_AT):
            add('bulk-cancel/raise:%s' % c,
                [{'uid': 't1', 'with_next': True}, {'uid': 't2'}],
                {'t1': 0, 't2': 0}, fault='raise:%s' % c, fault_uid='t1',
                cancel=['t2'])
        if not quick:
            for f in faults:
                d = dict(STAGE_FAULT.get(f, {}))
                # concurrent: both tasks in flight
                add('par/%s' % f,
                    [{'uid': 't1', 'descr': d}, {'uid': 't2'}],
                    {'t1': 1 if f == 'exit1' else 0, 't2': 0},
                    fault=f, fault_uid='t1')
            add('par/exit1+exit1', [{'uid': 't1'}, {'uid': 't2'}],
                {'t1': 1, 't2': 1}, fault='exit1', fault_uid='t1',
                also_exit1=['t2'])

    if pid == 'C08':
        add('cancel1/solo', [{'uid': 't1'}], {'t1': 0}, cancel=['t1'])
        add('cancel1/solo-noexit', [{'uid': 't1'}], {}, cancel=['t1'])
        # named task and bystander submitted together: one bulk through the
        # pipeline
        add('cancel1/bulk', [{'uid': 't1', 'with_next': True}, {'uid': 't2'}],
            {'t1': 0, 't2': 0}, cancel=['t1'])
        if not quick:
            add('cancel2/bulk', [{'uid': 't1', 'with_next': True},
                                 {'uid': 't2'}],
                {'t1': 0, 't2': 0}, cancel=['t2'])
            add('cancel1/bulk-wait', [{'uid': 't1', 'with_next': True},
                                      {'uid': 't2'}],
                {'t1': 0, 't2': 0}, layout=L1, cancel=['t1'])
            add('cancel1/par', [{'uid': 't1'}, {'uid': 't2'}],
                {'t1': 0, 't2': 0}, cancel=['t1'])
            add('cancel2/par', [{'uid': 't1'}, {'uid': 't2'}],
                {'t1': 0, 't2': 0}, cancel=['t2'])
            add('cancel1/wait', [{'uid': 't1'}, {'uid': 't2'}],
                {'t1': 0, 't2': 0}, layout=L1, cancel=['t1'])
            add('cancel2/wait', [{'uid': 't1'}, {'uid': 't2'}],
                {'t1': 0, 't2': 0}, layout=L1, cancel=['t2'])
            add('cancel1/par-noexit', [{'uid': 't1'}, {'uid': 't2'}],
                {'t2': 0}, cancel=['t1'])
    return out


# ------------------------------------------------------------------------------
#
def judge(part, pid, w, scn):

    replay = {'scenario': scn['name'], 'history': [list(e)
                                                   for e in w.history]}
    fault  = scn.get('fault')
    named  = set(scn.get('cancel') or []) if w.cancel_sent else set()

    def viol(prop, clause, site, trig, what):
        if prop != pid:
            return
        part.violation('%s|%s|%s' % (clause, site, trig),
                       {'what': what, 'scenario': scn['name'],
                        'history': [list(e) for e in w.history][-30:],
                        'raised': w.raised[-3:]}, replay)

    try:
        outs = w.client_outcomes()
    except OverflowError:
        part.cap('scenario %s: client delivery orders capped' % scn['name'])
        return

    # resources are back (C08 / C03)
    c = w.sched_child
    if not w.sched_dead:
        held = [uid for uid in w.submitted
                if w.position(uid) is not None]
        if not held and (c._active_cnt != 0 or any(
                a['cores'] != b['cores'] or a['gpus'] != b['gpus']
                for a, b in zip(c.nodes, w.initial))):
            viol('C08', 'resources-not-restored', 'AgentSchedulingComponent',
                 'cancel' if named else 'no-cancel',
                 'all tasks gone, node map %s, _active_cnt %s'
                 % ([n['cores'] for n in c.nodes], c._active_cnt))

    # exactly one final state: however the notifications reach the client,
    # no component announces a different, second final state for a task
    pubs = dict()
    for pub, msgs in sorted(w.client_fifos.items()):
        for m in msgs:
            for t in ru.as_list(m['arg']):
                if t['state'] in FINAL:
                    pubs.setdefault(t['uid'], list()).append(
                                                        (t['state'], pub))
    for uid, fin in sorted(pubs.items()):
        if len(set(x[0] for x in fin)) > 1:
            viol('C05', 'final-published-twice', 'BaseComponent.advance',
                 '+'.join(sorted(x[0] for x in fin)),
                 '%s is announced in final states %s' % (uid, fin))

    for finals, log in outs:
        state = {u: (s, ec, exc) for u, s, ec, exc in finals}
        for spec in scn['tasks']:
            uid = spec['uid']
            if uid not in state:
                continue
            s, ec, has_exc = state[uid]
            cbs   = [x for x in log if x[0] == uid]
            fcbs  = [x[1] for x in cbs if x[1] in FINAL]
            is_faulty = fault and (uid == scn.get('fault_uid') or
                                   uid in w.fault_bulk)
            role  = 'named' if uid in named else \
                    'faulty:%s' % fault if is_faulty else 'bystander'

            if s not in FINAL and w.sunk(uid):
                continue       # handed to the pilot outside this world
            if s not in FINAL:
                for prop in ('C05', 'C08'):
                    viol(prop, 'never-final', _site_of(w, uid), role,
                         '%s ends in %s (position %s); exceptions %s'
                         % (uid, s, w.position(uid), w.raised[-2:]))
                continue
            if len(fcbs) != 1:
                viol('C05', 'final-callbacks', 'TaskManager._update_tasks',
                     '%s:n=%d' % (role, len(fcbs)),
                     '%s: final states announced: %s' % (uid, fcbs))
            if any(str(x[1]).startswith('exception:') for x in cbs):
                viol('C05', 'client-exception', 'TaskManager._state_sub_cb',
                     role, 'state notification raised: %s'
                           % [x for x in cbs
                              if str(x[1]).startswith('exception:')])

            code = scn['exit'].get(uid)
            proc = w.procs.get(uid)
            if uid in named:
                ok = s == rps.CANCELED or \
                     (proc is not None and proc.code == code and
                      s == (rps.DONE if code == 0 else rps.FAILED)) or \
                     (str(fault).startswith('raise:') and s == rps.FAILED
                      and has_exc)       # failed with its bulk
                if not ok:
                    for prop in ('C05', 'C08'):
                        viol(prop, 'named-final-state', _site_of(w, uid),
                             '%s:%s' % (role, s),
                             '%s: cancel requested, final %s, process %s'
                             % (uid, s, proc.code if proc else None))
            elif is_faulty and fault != 'exit1':
                if s != rps.FAILED:
                    viol('C05', 'fault-not-failed', _site_of(w, uid), role,
                         '%s: fault %s, final state %s' % (uid, fault, s))
                elif not has_exc:
                    viol('C05', 'exception-not-recorded', _site_of(w, uid),
                         role, '%s FAILED by %s without exception on the task'
                               % (uid, fault))
            else:
                want = rps.DONE if code == 0 else rps.FAILED
                if s != want:
                    prop = 'C08' if named else 'C05'
                    viol(prop, 'bystander-final-state' if named
                               else 'wrong-final-state', _site_of(w, uid),
                         '%s:%s' % (role, s),
                         '%s: exit code %s, no fault, final %s (exc %s)'
                         % (uid, code, s, has_exc))
                    if named:
                        viol('C05', 'wrong-final-state', _site_of(w, uid),
                             '%s:%s' % (role, s), '%s final %s' % (uid, s))
                elif s == rps.FAILED and ec != code:
                    viol('C05', 'exit-code-not-recorded', 'Task._update', role,
                         '%s FAILED, exit_code %s, process exit %s'
                         % (uid, ec, code))
                elif s == rps.DONE and ec not in (0, None):
                    viol('C05', 'done-with-exit-code', 'Task._update', role,
                         '%s DONE with exit_code %s' % (uid, ec))
                if s == rps.CANCELED:
                    viol('C05', 'canceled-unrequested', _site_of(w, uid), role,
                         '%s CANCELED without request' % uid)
                # a bystander's observations are those of the undisturbed run
                if named and s == rps.DONE:
                    seq = [x[1] for x in cbs]
                    if seq != FULL:
                        viol('C08', 'bystander-observations',
                             'TaskManager._task_cb', role,
                             '%s callbacks %s' % (uid, seq))

        part.outcome((scn['name'], finals))


def run_flux_outcomes(ctx):
    '''
    the Flux executor turns the job's events into the task's outcome: every
    end of a job (exit status 0 / non-zero, wait status of a signal death,
    finish event without status, cancel / timeout / other exception, launch
    failure), after every prefix of life-cycle events - the task is handed
    on once, DONE only for exit status 0, CANCELED only if cancelled
    '''
    from radical.pilot.agent.executing import flux as fx

    class Ev(object):
        def __init__(self, name, **ctx_):
            self.name, self.context, self.timestamp = name, ctx_, 1000.0

    ends = [('finish', {'status': 0},    rps.DONE),
            ('finish', {'status': 256},  rps.FAILED),     # exit 1
            ('finish', {'status': 9},    rps.FAILED),     # SIGKILL
            ('finish', {'status': 139},  rps.FAILED),     # SIGSEGV + core
            ('finish', {},               rps.FAILED),     # no status at all
            ('exception', {'type': 'cancel'},  rps.CANCELED),
            ('exception', {'type': 'timeout'}, rps.CANCELED),
            ('exception', {'type': 'exec'},    rps.FAILED),
            ('lm_failed', {},                  rps.FAILED)]
    prefixes = [[], ['start'], ['alloc', 'start'], ['start', 'unschedule']]
    n = 0
    for pre in prefixes:
        for name, cx, want in ends:
            n += 1
            f = fx.Flux.__new__(fx.Flux)
            f._log, f._prof = seams.null(), seams.null()
            f._event_map = {'cleanup': None,
                            'finish' : rps.AGENT_STAGING_OUTPUT_PENDING,
                            'free': None, 'clean': None, 'priority': None,
                            'exception': rps.FAILED}
            task = {'uid': 't1', 'type': 'task', 'origin': 'client',
                    'state': rps.AGENT_EXECUTING, 'description':
                    {'post_launch': [], 'timeout': 0, 'startup_timeout': 0},
                    'task_sandbox_path': '/tmp'}
            f._tasks = {'j1': task}
            log = list()
            f.advance_tasks  = lambda t, st, publish=True, push=True, ts=None: \
                               log.append((st, t.get('target_state'),
                                           t.get('exit_code'), push))
            f.handle_timeout = lambda t: None
            replay = {'kind': 'flux', 'events': pre + [name], 'context': cx}
            try:
                for p in pre:
                    f._handle_event_cb('j1', Ev(p))
                f._handle_event_cb('j1', Ev(name, **cx))
            except Exception as e:
                ctx.violation('flux-outcome|Flux._handle_event_cb|%s:raises'
                              % name, {'what': '%s %s after %s: %r'
                                               % (name, cx, pre, e)}, replay)
                continue
            final = [(st, tgt, ec) for st, tgt, ec, _ in log
                     if st in (rps.AGENT_STAGING_OUTPUT_PENDING, rps.FAILED)]
            got = None
            if len(final) == 1:
                st, tgt, ec = final[0]
                got = st if st == rps.FAILED else tgt
            trig = '%s:%s' % (name, 'signal' if cx.get('status') in (9, 139)
                              else 'nostatus' if name == 'finish' and not cx
                              else cx.get('status', cx.get('type', '-')))
            if got != want:
                ctx.violation('flux-outcome|Flux._handle_event_cb|%s' % trig,
                              {'what': 'job event %s %s after %s: handed on '
                                       'as %s (%s), expected %s'
                                       % (name, cx, pre, got, log, want)},
                              replay)
            elif want == rps.DONE and final[0][2] not in (0, None) or \
                 want == rps.FAILED and name == 'finish' and not final[0][2]:
                ctx.violation('flux-exit-code|Flux._handle_event_cb|%s' % trig,
                              {'what': 'job event %s %s: exit code %r '
                                       'recorded for a %s task'
                                       % (name, cx, final[0][2], want)},
                              replay)
            ctx.outcome(('flux', tuple(pre), name, repr(cx), got))
    ctx.cover(evaluations=n, flux_outcome_cases=n)


def _site_of(w, uid):
    pos = w.position(uid)
    return 'pipeline' if pos is None else pw.CHAIN[pos]


# ------------------------------------------------------------------------------
#
def bfs(pid, scn, part, root, max_states):

    if os.path.exists(root):
        shutil.rmtree(root)
    w0 = pw.Pipe(root, scn).activate()
    w0.raised, w0.sched_dead = list(), False
    seen  = {w0.canon()}
    front = collections.deque([w0])
    n_trans = n_quiet = 0

    while front:
        w = front.popleft()
        w.activate()
        evs = w.enabled()
        if w.sched_dead:
            evs = [e for e in evs if e[0] != 'loop']
        if not evs:
            n_quiet += 1
            judge(part, pid, w, scn)
            continue
        for ev in evs:
            n_trans += 1
            w2 = copy.deepcopy(w)
            w2.activate()
            try:
                w2.apply(ev)
            except Exception as e:
                # the component's main loop / the subscriber thread logs the
                # exception and carries on - except for the scheduler process,
                # whose loop has no handler
                w2.raised.append((list(ev), repr(e)))
                if ev[0] == 'loop':
                    w2.sched_dead = True
                w2.collect_pubsub()
                w2.purge()
            k = w2.canon() + (w2.sched_dead, len(w2.raised))
            if k not in seen:
                seen.add(k)
                front.append(w2)
                if len(seen) >= max_states:
                    part.cap('scenario %s: state cap %d hit'
                             % (scn['name'], max_states))
                    return len(seen), n_trans, n_quiet
    shutil.rmtree(root, ignore_errors=True)
    return len(seen), n_trans, n_quiet


_scns = None
_pid  = None
_cap  = None


def _job(i):
    part = report.Part()
    scn  = _scns[i]
    root = os.path.join(os.environ.get('RPMC_SCRATCH', '/tmp'),
                        'pipe.%d.%d' % (os.getpid(), i))
    st, tr, q = bfs(_pid, scn, part, root, _cap)
    part.cover(states=st, transitions=tr, quiescent=q, scenarios=1,
               traces_validated_against_impl=tr)
    part.sample({'scenario': scn['name'], 'states': st, 'transitions': tr,
                 'quiescent': q})
    return part.dump()


def run(ctx):
    global _scns, _pid, _cap
    ctx.level = 'model_checking'
    _pid  = ctx.pid
    _scns = scenarios(ctx.pid, ctx.quick)
    _cap  = 60000 if ctx.quick else 400000
    for res in seams.pmap(_job, range(len(_scns)), ctx.workers):
        ctx.merge(res)

    if ctx.pid == 'C08':
        # the request landing inside the scheduler loop / inside the executor
        from checks import c01_c04_agent_sched as sched_check
        from checks import c07_executor
        sched_check.run_sched(ctx, 'C08')
        c07_executor.run_exec(ctx, 'C08')
        # ... and meeting tasks in the scheduler's raptor backlog
        from checks import c20_master
        c20_master.run_backlog_cancel(ctx)

    if ctx.pid == 'C05':
        run_flux_outcomes(ctx)
    if ctx.pid == 'C05':
        # the executor's interleavings: exactly one hand-on per task
        from checks import c07_executor
        c07_executor.run_exec(ctx, 'C05')

    ctx.set(rule='explicit-state BFS over pipeline worlds (deepcopy clones): '
                 'events = one work_cb() of a component with pending input, '
                 'proxy hand-over, two iterations of the scheduler loop, one '
                 'watcher pass, process exit, unschedule delivery, cancel '
                 'request, its delivery to each component; states merged on '
                 'queue contents, scheduler/executor state, pending control '
                 'deliveries (where still relevant) and buffered client '
                 'notifications; at quiescence all client delivery orders')
    ctx.set(distinct_nontrivial=len(ctx.outcomes))
    ctx.assume('executor handlers and scheduler loop iterations are atomic '
               'steps here; their internal interleavings are decided by C07 '
               'and C04 (DESIGN.md section 5)',
               'state notifications do not feed back into the pipeline and '
               'are explored separately per quiescent state',
               'reliable in-order queues; per-publisher FIFO pubsub')


def replay(ctx, data):
    r = data['replay']
    if 'schedule' in r:
        from checks import c07_executor
        return c07_executor.replay(ctx, data)
    if 'choices' in r:
        from checks import c01_c04_agent_sched as sched_check
        return sched_check.replay(ctx, data)
    scn = [s for s in scenarios('C05', False) + scenarios('C08', False)
           if s['name'] == r['scenario']][0]
    root = os.path.join(ctx.scratch, 'pipe')
    w = pw.Pipe(root, scn).activate()
    w.raised, w.sched_dead = list(), False
    for ev in r['history']:
        print('event', ev)
        try:
            w.apply(tuple(ev))
        except Exception as e:
            print('   raised', repr(e))
            w.raised.append((ev, repr(e)))
            w.collect_pubsub()
    part = report.Part()
    for pid in ('C05', 'C08'):
        judge(part, pid, w, scn)
    for k, (d, _) in part.violations.items():
        print('VIOLATED', k, d['what'])
    return 1 if part.violations else 0
