'''
C13 -- A dying pilot fails its own tasks and only those.

Engine C/A: complete product of (binding x state) for three real Task objects
on a bare TaskManager, established through the real _update_tasks; then the
real _pilot_state_cb is driven with every ending order of two pilots.
'''

import itertools

from rpmc import seams, net, report, clientworld as cw

rp = seams.import_rp()

import radical.utils as ru                                         # noqa: E402
from radical.pilot import states    as rps                         # noqa: E402
from radical.pilot import constants as rpc                         # noqa: E402

TASK_STATES = [rps.NEW, rps.TMGR_SCHEDULING, rps.AGENT_EXECUTING,
               rps.TMGR_STAGING_OUTPUT, rps.DONE, rps.FAILED, rps.CANCELED]
BINDINGS    = ['p1', 'p2', None]
UIDS        = ['t1', 't2', 't3']

# pilot endings: list of (pid, state) callbacks in order
def endings():
    out = list()
    for fin in rps.FINAL:
        out.append([('p1', fin)])
        out.append([('p2', fin)])
        out.append([('p1', fin), ('p2', fin)])
        out.append([('p2', fin), ('p1', fin)])
    out.append([('p1', rps.PMGR_ACTIVE), ('p1', rps.FAILED)])
    out.append([('p1', rps.PMGR_ACTIVE)])
    out.append([('p1', rps.FAILED), ('p1', rps.FAILED)])
    out.append([('p1', rps.DONE), ('p2', rps.CANCELED)])
    # one callback invocation with several pilots (bulk form), every order
    for fin in (rps.DONE, rps.FAILED):
        out.append([(('p1', fin), ('p2', rps.PMGR_ACTIVE))])
        out.append([(('p2', rps.PMGR_ACTIVE), ('p1', fin))])
        out.append([(('p1', rps.PMGR_ACTIVE), ('p2', fin))])
        out.append([(('p1', fin), ('p2', fin))])
    out.append([(('p1', rps.FAILED), ('p2', rps.DONE))])
    return out


ENDINGS = endings()


class World(object):

    def __init__(self, cfg, late=False, prior_exc=False):
        '''
        late: the tasks were bound to their pilot by the client side scheduler
        (no `pilot` in the description): the client learns about them from
        what the components publish - for a non-final state that is uid, type
        and state only (the real BaseComponent.advance() is used to produce
        the messages)
        '''
        self.late  = late
        self.prior_exc = prior_exc   # non-final tasks carry earlier error info
        self.bound = {uid: pid for uid, (pid, _) in zip(UIDS, cfg)}
        net.install()
        self.net = net.Net().activate()
        self.tm  = cw.make_tmgr()
        self.pm  = cw.make_pmgr(self.tm._session)
        self.pilots = {pid: cw.make_pilot(self.pm, pid, rps.PMGR_ACTIVE)
                       for pid in ('p1', 'p2')}
        tds = [rp.TaskDescription({'executable': '/bin/true', 'uid': u})
               for u in UIDS]
        self.tasks = {t.uid: t for t in self.tm.submit_tasks(tds)}
        self.cb_log = list()
        self.tm.register_callback(lambda t, s: self.cb_log.append((t.uid, s)))

        # establish binding and state through the real update path
        self.setup_exc = None
        try:
            self._setup(cfg, late)
        except AssertionError:
            raise
        except Exception as e:
            # a legal notification made the handler raise
            self.setup_exc = e
        self.cb_log = list()
        self.n_pub  = len(self.net.pub_log)

    def _setup(self, cfg, late):
        for uid, (pid, state) in zip(UIDS, cfg):
            d = {'uid': uid, 'type': 'task', 'state': state}
            if pid:
                d['pilot'] = pid
            if state in rps.FINAL:
                d['target_state'] = state
                if state == rps.FAILED:
                    d['exception'] = 'RuntimeError("task failed")'
            elif self.prior_exc and state != rps.NEW:
                # e.g. a function task whose payload raised, on its way back
                d['exception']        = 'ValueError("payload raised")'
                d['exception_detail'] = 'traceback of the payload'
            if state == rps.NEW:
                # no state change: binding set the way _update does it
                if pid and not late:
                    self.tasks[uid]._pilot = pid
                continue
            if late and pid:
                # the real client side scheduler binds the task
                # (_assign_pilot) and advances it; later components advance
                # the same dict; the agent's output stager marks it `$all`
                # before it hands it back.  The client sees what the real
                # advance() publishes.
                sched = self._scheduler()
                full  = self.tasks[uid].as_dict()
                doc   = {'uid': pid, 'type': 'pilot',
                         'description': {'cores': 8,
                                         'resource': 'local.localhost'},
                         'pilot_sandbox': '/tmp/rp.verif/%s' % pid}
                sched._assign_pilot(full, doc)
                chain = [rps.TMGR_STAGING_INPUT_PENDING]
                if state == rps.TMGR_STAGING_OUTPUT:
                    chain += [rps.AGENT_EXECUTING,
                              rps.TMGR_STAGING_OUTPUT_PENDING, state]
                elif state in rps.FINAL:
                    chain += [rps.AGENT_EXECUTING]
                    full.update(d)
                    chain.append(state)
                else:
                    chain.append(state)
                for st in chain:
                    if st == rps.TMGR_STAGING_OUTPUT_PENDING:
                        full['$all'] = True
                    n0 = len(self.net.pub_log)
                    sched.advance([full], st, publish=True, push=False)
                    for ch, _, msg in self.net.pub_log[n0:]:
                        if ch == rpc.STATE_PUBSUB:
                            self.tm._state_sub_cb(rpc.STATE_PUBSUB,
                                                  seams.wire(msg))
                assert self.tasks[uid].state == state, \
                       (uid, state, self.tasks[uid].state)
                continue
            self.tm._update_tasks([seams.wire(d)])
            assert self.tasks[uid].state == state, (uid, state)
            assert (self.tasks[uid].pilot or None) == pid, \
                   (uid, pid, self.tasks[uid].pilot)

    def _scheduler(self):
        if getattr(self, '_sched', None) is None:
            from radical.pilot.tmgr.scheduler.round_robin import RoundRobin
            sess = self.tm._session
            sc = seams.bare(RoundRobin, uid='tmgr.0000.scheduling.0')
            sc._session     = sess
            sc._reg         = sess._reg
            sc._tasks       = dict()
            sc._tasks_lock  = ru.RLock()
            sc._client_sandbox = '/tmp/rp.verif/client'
            sc.register_publisher(rpc.STATE_PUBSUB)
            self._sched = sc
        return self._sched

    def snapshot(self):
        # (state, pilot the task IS bound to, exception, detail)
        return {u: (t.state, self.bound[u], t.exception, t.exception_detail)
                for u, t in self.tasks.items()}


def run_case(part, cfg, ending, late=False, prior_exc=False):

    w = World(cfg, late, prior_exc)
    replay = {'cfg': [list(c) for c in cfg], 'ending': ending, 'late': late,
              'prior_exc': prior_exc}
    if w.setup_exc is not None:
        part.violation('notification-raises|TaskManager._update_tasks|%s'
                       % type(w.setup_exc).__name__,
                       {'what': 'bringing the tasks into %s through in-order '
                                'notifications raised %r' % (cfg, w.setup_exc)},
                       replay)
        return
    shape  = lambda uid, pid: '%s:%s' % (
             'own' if w.bound[uid] == pid else
             'unbound' if not w.bound[uid] else 'other',
             'final' if before[uid][0] in rps.FINAL else 'live')

    for step in ending:
        if isinstance(step[0], str):
            step = (step,)
        before = w.snapshot()
        plist  = list()
        for pid, pstate in step:
            w.pilots[pid]._state = pstate
            plist.append(w.pilots[pid])
        n_pub = len(w.net.pub_log)
        try:
            if len(plist) == 1:
                w.tm._pilot_state_cb(plist, step[0][1])
            else:
                w.tm._pilot_state_cb(plist)
            exc = None
        except Exception as e:
            exc = e
        after = w.snapshot()
        kind  = 'single' if len(step) == 1 else 'bulk'

        if exc is not None:
            part.violation('callback-raises|TaskManager._pilot_state_cb|%s'
                           % type(exc).__name__,
                           {'what': '%r for pilots %s' % (exc, step)},
                           replay)
            continue

        dead = [pid for pid, pstate in step if pstate in rps.FINAL]
        changed = set()
        for uid in UIDS:
            b_state, b_pilot, b_exc, b_det = before[uid]
            a_state, a_pilot, a_exc, a_det = after[uid]
            own = b_pilot in dead and b_state not in rps.FINAL
            pid = b_pilot if own else step[0][0]
            if own:
                if a_state != rps.FAILED:
                    part.violation('own-task-not-failed|_pilot_state_cb|%s:%s%s'
                                   % (b_state, kind,
                                      ':late-bound' if late else ''),
                                   {'what': '%s bound to dead pilot %s stays %s'
                                            ' (callback for %s)'
                                            % (uid, pid, a_state, step)},
                                   replay)
                elif pid not in '%s %s' % (a_exc, a_det):
                    part.violation('explanation|_pilot_state_cb|%s%s'
                                   % (kind, ':prior-error' if prior_exc
                                      else ''),
                                   {'what': '%s failed without naming %s: '
                                            '%r / %r' % (uid, pid, a_exc, a_det)},
                                   replay)
                changed.add(uid)
            elif after[uid] != before[uid]:
                part.violation('bystander-changed|_pilot_state_cb|%s:%s'
                               % (shape(uid, dead[0] if dead else pid), kind),
                               {'what': '%s changed from %s to %s on callback '
                                        'for %s' % (uid, before[uid],
                                                    after[uid], step)}, replay)

        published = set()
        for ch, pub, msg in w.net.pub_log[n_pub:]:
            if ch == rpc.STATE_PUBSUB and msg.get('cmd') == 'update':
                for t in msg['arg']:
                    published.add(t['uid'])
        if published != changed:
            part.violation('published-set|_pilot_state_cb|%s:%s'
                           % ('extra' if published - changed else 'missing',
                              kind),
                           {'what': 'published %s, changed %s for %s'
                                    % (sorted(published), sorted(changed),
                                       step)}, replay)

    part.outcome((tuple(cfg), repr(ending),
                  tuple(sorted((u, v[0]) for u, v in w.snapshot().items()))))


_cfgs = None


def _job(idx):
    part = report.Part()
    lo, hi = idx
    n = 0
    for cfg in _cfgs[lo:hi]:
        for ending in ENDINGS:
            run_case(part, cfg, ending)
            n += 1
            # the same with tasks bound by the client side scheduler, for the
            # configurations in which t3 is a fixed bystander
            if cfg[2] == (None, rps.NEW):
                run_case(part, cfg, ending, prior_exc=True)
                n += 1
            if cfg[2] == (None, rps.NEW) and not any(
                    pid and st in (rps.NEW, rps.TMGR_SCHEDULING)
                    for pid, st in cfg):
                run_case(part, cfg, ending, late=True)
                n += 1
    part.cover(evaluations=n)
    if lo == 0:
        part.sample({'tasks (pilot, state)': _cfgs[lo], 'ending': ENDINGS[2]})
    return part.dump()


# ------------------------------------------------------------------------------
# the pilot's end is handled by one thread (pilot state callback) while the
# state subscriber thread applies a task notification: engine B, every
# schedule within the delay bound
#
RACE_TASK_STATES  = [rps.AGENT_EXECUTING, rps.TMGR_STAGING_OUTPUT]
RACE_NOTIFICATION = [rps.AGENT_STAGING_OUTPUT, rps.TMGR_STAGING_OUTPUT,
                     rps.DONE, rps.FAILED, rps.CANCELED]


def _race_job(args):
    from rpmc import clientrace, sched as rs
    from radical.pilot.task_manager import TaskManager
    from radical.pilot.task         import Task
    t1_state, notif, p_end, bound = args
    part = report.Part()
    cfg  = (('p1', t1_state), ('p2', rps.AGENT_EXECUTING), ('p1', rps.DONE))

    w_probe = World(cfg)
    if w_probe.setup_exc is not None:
        part.violation('notification-raises|TaskManager._update_tasks|%s'
                       % type(w_probe.setup_exc).__name__,
                       {'what': 'bringing the tasks into %s through in-order '
                                'notifications raised %r'
                                % (cfg, w_probe.setup_exc)},
                       {'race': [t1_state, notif, p_end]})
        return part.dump()

    def make_world(s):
        w = World(cfg)
        clientrace.control_locks(s, w.tm, ['_tasks_lock', '_tcb_lock',
                                           '_pilots_lock'])
        for t in w.tasks.values():
            clientrace.control_locks(s, t, ['_cb_lock'])
        w.pilots['p1']._state = p_end
        return w

    def bodies(w):
        d = {'uid': 't1', 'type': 'task', 'state': notif, 'pilot': 'p1'}
        if notif in rps.FINAL:
            d['target_state'] = notif
        if notif == rps.FAILED:
            d['exception'] = 'RuntimeError("task failed")'
        return [('pilot-end', lambda: w.tm._pilot_state_cb([w.pilots['p1']],
                                                           p_end)),
                ('task-note', lambda: w.tm._state_sub_cb(
                    rpc.STATE_PUBSUB,
                    seams.wire({'cmd': 'update', 'arg': [d]})))]

    # sequential reference: the real handlers one after the other
    allowed, seq_exc = set(), set()
    for order in ((0, 1), (1, 0)):
        w0 = make_world(rs.Sched())
        bs = bodies(w0)
        for i in order:
            try:
                bs[i][1]()
            except Exception as e:
                seq_exc.add(type(e).__name__)
        allowed.add(tuple(sorted((u, t.state) for u, t in w0.tasks.items())))

    replay = {'race': [t1_state, notif, p_end]}
    trig   = '%s:%s:%s' % (t1_state, 'final' if notif in rps.FINAL
                           else 'live', p_end)

    def judge(w, s, res):
        rp_ = dict(replay, schedule=list(s.choices))

        def viol(clause, what):
            part.violation('%s|_pilot_state_cb+_update_tasks|%s'
                           % (clause, trig),
                           {'what': '%s; t1 in %s on p1, pilot ends %s while '
                                    'notification %s arrives; callbacks %s'
                                    % (what, t1_state, p_end, notif,
                                       w.cb_log)}, rp_)
        if res != 'done':
            viol('race-' + res, 'threads did not finish')
        for t in s.threads:
            if t.exc is not None and type(t.exc).__name__ not in seq_exc:
                viol('race-handler-raises', '%s raised %r' % (t.name, t.exc))
        end = tuple(sorted((u, t.state) for u, t in w.tasks.items()))
        if end not in allowed:
            viol('race-not-sequential', 'task states %s, sequential orders '
                 'give %s' % (end, sorted(allowed)))
        for uid in UIDS:
            fins = [st for u, st in w.cb_log if u == uid and st in rps.FINAL]
            if len(set(fins)) > 1:
                viol('race-relabelled', '%s announced in final states %s'
                                        % (uid, fins))
            if fins and w.tasks[uid].state != fins[-1]:
                viol('race-state-vs-announcement', '%s is %s, announced %s'
                     % (uid, w.tasks[uid].state, fins))
        # what the pilot-end handler publishes for a task agrees with what
        # the task ends as (other subscribers act on the publication)
        for ch, pub, msg in w.net.pub_log[w.n_pub:]:
            if ch == rpc.STATE_PUBSUB and msg.get('cmd') == 'update':
                for t in msg['arg']:
                    if t['state'] in rps.FINAL and \
                       w.tasks[t['uid']].state != t['state']:
                        viol('race-published-vs-state',
                             '%s published as %s, is %s'
                             % (t['uid'], t['state'], w.tasks[t['uid']].state))
        if w.tasks['t2'].state != rps.AGENT_EXECUTING or \
           w.tasks['t3'].state != rps.DONE:
            viol('race-bystander-changed', 't2/t3: %s' % (end,))
        part.outcome(('race', t1_state, notif, p_end, end,
                      tuple(w.cb_log)))

    n, capped = clientrace.explore(
        make_world, bodies,
        [TaskManager._pilot_state_cb, TaskManager._update_tasks,
         TaskManager._state_sub_cb, Task._update], bound, judge)
    if capped:
        part.cap('race %s: %d schedules left' % (replay, capped))
    part.cover(executions=n, race_cases=1, traces_validated_against_impl=n)
    return part.dump()


def run_add_pilots(ctx):
    '''
    the death handler is attached by the real TaskManager.add_pilots(): every
    way of adding two pilots (one call each / one call for both, both orders),
    then each pilot ends through the real PilotManager notification path;
    the tasks of the pilot which ended are failed, whichever position it had
    '''
    n = 0
    for how, app_cb in itertools.product(('separate', 'bulk-p1p2', 'bulk-p2p1'),
                                         ('none', 'raises', 'exits')):
        for dead in ('p1', 'p2', 'both'):
            for fin in rps.FINAL:
                n += 1
                cfg = (('p1', rps.AGENT_EXECUTING), ('p2', rps.AGENT_EXECUTING),
                       (None, rps.NEW))
                w = World(cfg)
                if app_cb != 'none':
                    # the application's own pilot callback does not survive
                    # a final state (the examples call sys.exit() there)
                    def on_pilot(pilot, state, *a):
                        if state in rps.FINAL:
                            if app_cb == 'exits':
                                raise SystemExit(1)
                            raise RuntimeError('application callback')
                    w.pm.register_callback(on_pilot)
                how_ = how
                how  = how_ if app_cb == 'none' else '%s:app-cb-%s' % (how_,
                                                                      app_cb)
                order = {'separate' : [['p1'], ['p2']],
                         'bulk-p1p2': [['p1', 'p2']],
                         'bulk-p2p1': [['p2', 'p1']]}[how_]
                for bulk in order:
                    w.tm.add_pilots([w.pilots[p] for p in bulk])
                for pid in (('p1', 'p2') if dead == 'both' else (dead,)):
                    try:
                        w.pm._state_sub_cb(rpc.STATE_PUBSUB, seams.wire(
                            {'cmd': 'update',
                             'arg': [{'uid': pid, 'type': 'pilot',
                                      'state': fin}]}))
                    except BaseException:
                        # the subscriber thread logs it / ends; what matters
                        # is what happened to the tasks before
                        pass
                replay = {'add_pilots': [how, dead, fin]}
                for uid, pid in (('t1', 'p1'), ('t2', 'p2')):
                    should = dead in (pid, 'both')
                    st = w.tasks[uid].state
                    if should and st != rps.FAILED:
                        ctx.violation('own-task-not-failed|TaskManager.'
                                      'add_pilots|%s:%s' % (how, pid),
                                      {'what': 'pilots added %s; %s ended %s: '
                                               '%s (on %s) is %s'
                                               % (how, dead, fin, uid, pid,
                                                  st)}, replay)
                    if not should and st != rps.AGENT_EXECUTING:
                        ctx.violation('bystander-changed|TaskManager.'
                                      'add_pilots|%s:%s' % (how, pid),
                                      {'what': 'pilots added %s; %s ended %s: '
                                               '%s (on %s) is %s'
                                               % (how, dead, fin, uid, pid,
                                                  st)}, replay)
                ctx.outcome(('add_pilots', how, dead, fin,
                             w.tasks['t1'].state, w.tasks['t2'].state))
                how = how_
    ctx.cover(evaluations=n, add_pilots_cases=n)


def run_race(ctx, deep=True):
    # a DONE notification against the pilot's end needs two deviations (the
    # notification thread is stopped inside Task._update, the pilot-end
    # handler runs, the notification thread goes on): bound 2 for those
    bound = 1 if ctx.quick else 2
    jobs  = [(ts, nt, pe, 2 if (nt == rps.DONE and
                                (deep or (ts == rps.TMGR_STAGING_OUTPUT and
                                          pe == rps.FAILED))) else bound)
             for ts in RACE_TASK_STATES
             for nt in RACE_NOTIFICATION
             for pe in rps.FINAL]
    for res in seams.pmap(_race_job, jobs, ctx.workers):
        ctx.merge(res)
    ctx.set(race_delay_bound=bound)


def run(ctx):
    global _cfgs
    ctx.level = 'model_checking'
    run_race(ctx)
    run_add_pilots(ctx)
    per_task  = list(itertools.product(BINDINGS, TASK_STATES))
    if ctx.quick:
        # t3 ranges over a reduced set (one of each kind) in quick mode
        third = [('p1', rps.AGENT_EXECUTING), ('p2', rps.AGENT_EXECUTING),
                 (None, rps.NEW), ('p1', rps.DONE), ('p2', rps.CANCELED)]
    else:
        third = per_task
    _cfgs = [c for c in itertools.product(per_task, per_task, third)]
    chunk = max(1, len(_cfgs) // (ctx.workers * 4))
    jobs  = [(lo, min(lo + chunk, len(_cfgs)))
             for lo in range(0, len(_cfgs), chunk)]
    for res in seams.pmap(_job, jobs, ctx.workers):
        ctx.merge(res)
    ctx.set(exhaustive=True, configurations=len(_cfgs), endings=len(ENDINGS),
            rule='complete product: (pilot binding x task state) for t1, t2 '
                 '(21 x 21) x %d for t3, x %d pilot ending sequences; '
                 'distinct = distinct (configuration, ending, result)'
                 % (len(third), len(ENDINGS)))
    ctx.set(distinct_nontrivial=len(ctx.outcomes))
    ctx.assume('binding and progress are established through the real '
               '_update_tasks; pilots are real Pilot facades with the state '
               'set by the harness')


def replay(ctx, data):
    r = data['replay']
    if 'race' in r:
        # all schedules of that case again (deterministic); the recorded
        # schedule is among them
        res = _race_job(tuple(r['race']) + (2,))
        print('race', r['race'], 'recorded schedule', r.get('schedule'))
        for key, detail, _ in res['violations']:
            print('VIOLATED', key, detail['what'])
        return 1 if res['violations'] else 0
    part = report.Part()
    cfg = [tuple(c) if c[0] is None or isinstance(c[0], str) else tuple(c)
           for c in r['cfg']]
    cfg = [(c[0], c[1]) for c in cfg]
    ending = [tuple(tuple(x) if isinstance(x, list) else x for x in e)
              for e in r['ending']]
    run_case(part, cfg, ending, late=bool(r.get('late')),
             prior_exc=bool(r.get('prior_exc')))
    print('cfg', cfg, 'ending', ending, 'late', r.get('late'))
    for k, (d, _) in part.violations.items():
        print('VIOLATED', k, d['what'])
    return 1 if part.violations else 0
