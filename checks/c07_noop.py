'''
C07, part "noop": the NOOP executor (agent/executing/noop.py).

The real `NOOP.work()` and the real body of `NOOP._collect()` run on a bare
component; `time` in noop.py is a virtual clock.  `_collect` is an endless
polling loop: the harness lets it make exactly one pass per `C` event (the
`_terminate` flag it polls answers "go on" once, then "stop").

Alphabet: task kinds (what the description makes the executor do)
  ok     executable 'true'            : due at once
  sleep  executable 'sleep', ['1']    : due one virtual second later
  badarg executable 'sleep', ['x']    : due at once (argument not a number)
  fail   executable None              : `_handle_task` raises (launch fault)
events: W (the next bulk enters through work()), C (one collector pass),
T (virtual time + 1.5 s).  Every bulk composition of 1..n kinds x 1..2 bulks x
every event history of the given depth in which the bulks enter in order; each
history is followed by the drain T C T C.

Oracle per uid (A.5): one AGENT_EXECUTING announcement, first; exactly one
hand-on (AGENT_STAGING_OUTPUT_PENDING pushed, or FAILED); exactly one
unschedule publication; nothing left in `_tasks` after the drain.
'''

import itertools

from rpmc import seams

KINDS = {'ok'    : ('true',  []),
         'sleep' : ('sleep', ['1']),
         'badarg': ('sleep', ['x']),
         'fail'  : (None,    [])}


class _Clock(object):
    def __init__(self):
        self.now = 1000.0

    def time(self):
        return self.now

    def sleep(self, dt):
        pass


class _Once(object):
    '''the flag `_collect` polls: lets the loop body run once per pass'''
    def __init__(self):
        self.left = 0

    def is_set(self):
        if self.left > 0:
            self.left -= 1
            return False
        return True

    def set(self):
        self.left = 0


class _Lock(object):
    def __enter__(self): return self
    def __exit__(self, *a): return False


def build():
    seams.import_rp()
    import radical.pilot.agent.executing.noop as mod
    import radical.pilot.constants as rpc
    c = mod.NOOP.__new__(mod.NOOP)
    c._log        = seams.null()
    c._prof       = seams.null()
    c._uid        = 'agent_executing.0000'
    c._terminate  = _Once()
    c._tasks_lock = _Lock()
    c._tasks      = list()
    c._delay      = 1.0
    log = list()

    def publish(channel, msg, **kw):
        if channel == rpc.AGENT_UNSCHEDULE_PUBSUB:
            for t in (msg if isinstance(msg, list) else [msg]):
                log.append(('unschedule', t['uid']))

    def advance(things, state=None, publish=True, push=False, **kw):
        for t in (things if isinstance(things, list) else [things]):
            log.append(('advance', t['uid'], state, bool(push)))

    c.publish = publish
    c.advance = advance
    clock = _Clock()
    return mod, c, clock, log


def run_history(bulks, hist):
    '''-> (log, left-over uids); bulks: list of lists of kinds'''
    mod, c, clock, log = build()
    old = mod.time
    mod.time = clock
    try:
        todo = list()
        for b, bulk in enumerate(bulks):
            todo.append([{'uid'        : 't.%d.%d' % (b, i),
                          'origin'     : 'client',
                          'description': {'executable': KINDS[k][0],
                                          'arguments' : list(KINDS[k][1])}}
                         for i, k in enumerate(bulk)])
        for ev in list(hist) + ['T', 'C', 'T', 'C']:
            if ev == 'W':
                if todo:
                    c.work(todo.pop(0))
            elif ev == 'C':
                c._terminate.left = 1
                c._collect()
            elif ev == 'T':
                clock.now += 1.5
        assert not todo
        return log, [t['uid'] for t in c._tasks]
    finally:
        mod.time = old


def judge(bulks, log, left):
    '''-> list of (clause, trigger, what)'''
    import radical.pilot.states as rps
    out  = list()
    uids = ['t.%d.%d' % (b, i) for b, bulk in enumerate(bulks)
                               for i in range(len(bulk))]
    kind = {'t.%d.%d' % (b, i): k for b, bulk in enumerate(bulks)
                                  for i, k in enumerate(bulk)}
    for uid in uids:
        mine  = [e for e in log if e[1] == uid]
        start = [e for e in mine if e[0] == 'advance'
                                 and e[2] == rps.AGENT_EXECUTING]
        hand  = [e for e in mine if e[0] == 'advance'
                                 and e[2] != rps.AGENT_EXECUTING]
        uns   = [e for e in mine if e[0] == 'unschedule']
        trig  = 'noop:%s' % kind[uid]
        if len(start) != 1 or (mine and mine[0] not in start):
            out.append(('start-count', trig, '%s: %d start announcements, '
                        'log %s' % (uid, len(start), mine)))
        if len(hand) != 1:
            out.append(('hand-on-count', trig, '%s handed on %d times: %s'
                        % (uid, len(hand), hand)))
        if len(uns) != 1:
            out.append(('unschedule-count', trig, '%s: %d unschedule '
                        'publications' % (uid, len(uns))))
        if uid in left:
            out.append(('left-behind', trig, '%s still in _tasks after the '
                        'drain' % uid))
        if len(hand) == 1:
            want = rps.FAILED if kind[uid] == 'fail' \
                   else rps.AGENT_STAGING_OUTPUT_PENDING
            if hand[0][2] != want:
                out.append(('outcome', trig, '%s handed on as %s, expected %s'
                            % (uid, hand[0][2], want)))
    return out


def histories(n_bulks, depth):
    for n in range(n_bulks, depth + 1):
        for h in itertools.product('WCT', repeat=n):
            if h.count('W') == n_bulks:
                yield h


def run_noop(ctx):
    quick  = ctx.quick
    max_sz = 2 if quick else 3
    depth  = 4 if quick else 6
    kinds  = sorted(KINDS)
    comps  = [c for n in range(1, max_sz + 1)
                for c in itertools.product(kinds, repeat=n)]
    n = 0
    outcomes = set()
    for n_bulks in (1, 2):
        for bulks in itertools.product(comps, repeat=n_bulks):
            if n_bulks == 2 and sum(len(b) for b in bulks) > max_sz + 1:
                continue
            for hist in histories(n_bulks, depth):
                log, left = run_history(bulks, hist)
                n += 1
                outcomes.add(tuple((e[0], e[1].split('.')[1]) + tuple(e[2:])
                                   for e in log))
                for clause, trig, what in judge(bulks, log, left):
                    ctx.violation('%s|NOOP|%s' % (clause, trig),
                                  {'what': what, 'bulks': bulks,
                                   'history': ''.join(hist)},
                                  {'noop': True, 'bulks': bulks,
                                   'history': ''.join(hist)})
    ctx.cover(noop_histories=n, executions=n, states=n, transitions=n)
    ctx.set(noop_distinct_logs=len(outcomes))
    for o in sorted(outcomes)[:40]:
        ctx.outcome(('noop',) + o)
    ctx.assume('NOOP executor: one collector pass per C event; the virtual '
               'clock moves only at T events')


def replay_noop(r):
    bulks = [list(b) for b in r['bulks']]
    log, left = run_history(bulks, r['history'])
    for e in log:
        print('  ', e)
    print('left in _tasks:', left)
    bad = judge(bulks, log, left)
    for clause, trig, what in bad:
        print('VIOLATED', clause, trig, what)
    return 1 if bad else 0
