'''
C16 -- Client and agents exchange each forwarded message exactly once.

Engine A (BFS by replay): for each side (client, pilot.0 .. pilot.N-1) a bare
Session on which the REAL Session._crosswire_proxy() is called; the four
pubsub_fwd closures per side run on the in-memory net in manual delivery mode,
so that every delivery order of every (publisher -> subscriber) FIFO is
explored.  State = pending FIFO contents + per-side delivery counts.
'''

import itertools
import collections

from rpmc import seams, net, report

rp = seams.import_rp()

import radical.utils as ru                                         # noqa: E402
from radical.pilot import constants as rpc                         # noqa: E402
from radical.pilot import session   as smod                        # noqa: E402
from radical.pilot.session import Session                          # noqa: E402

LOCAL = {'control': rpc.CONTROL_PUBSUB, 'state': rpc.STATE_PUBSUB}
PROXY = {'control': rpc.PROXY_CONTROL_PUBSUB, 'state': rpc.PROXY_STATE_PUBSUB}


class Violation(Exception):
    def __init__(self, key, what):
        self.key, self.what = key, what


class World(object):

    def __init__(self, n_pilots, messages):
        net.install()
        self.net = net.Net().activate()
        self.net.auto = False
        self.sides = ['client'] + ['pilot.%04d' % i for i in range(n_pilots)]
        self.messages = messages
        self.delivered = collections.Counter()    # (msg id, side) -> count
        self.pubs = dict()
        self.port_replies = list()
        self.rpc_server = dict()      # message index -> side which answers
        self.rpc_served = set()

        for side in self.sides:
            reg = net.Registry()
            b = dict()
            for ch in LOCAL.values():
                b[ch] = {'addr_pub': 'mem://@%s/%s/pub' % (side, ch),
                         'addr_sub': 'mem://@%s/%s/sub' % (side, ch)}
            for ch in PROXY.values():
                b[ch] = {'addr_pub': 'mem://@proxy/%s/pub' % ch,
                         'addr_sub': 'mem://@proxy/%s/sub' % ch}
            dict.__setitem__(reg, 'bridges', b)
            s = Session.__new__(Session)
            s._cfg     = ru.Config(from_dict={'path': '/tmp'})
            s._reg     = reg
            s._log     = seams.null()
            s._prof    = seams.null()
            s._module  = side
            s._to_stop = list()
            s._role    = Session._PRIMARY if side == 'client' \
                         else Session._AGENT_0
            s._crosswire_proxy()

            # application subscribers and publishers of this side
            for kind, ch in LOCAL.items():
                sub = ru.zmq.Subscriber(ch, url=b[ch]['addr_sub'])
                sub.subscribe(ch, cb=self._app_cb(side))
                self.pubs[(side, kind)] = ru.zmq.Publisher(
                                              ch, url=b[ch]['addr_pub'])

        # publish the messages (they sit in the FIFOs until delivered)
        for i, (kind, side, fwd, origin) in enumerate(messages):
            if fwd == 'rpc_round':
                # a request which a component of another side answers: the
                # reply is made by the real Component._handle_rpc_msg()
                from radical.pilot.messages import RPCRequestMessage
                msg = RPCRequestMessage(uid='rpc.%d' % i, cmd='c16_test',
                                        args=[], kwargs={}).as_dict()
                msg['arg'] = {'id': i}
                others = [s_ for s_ in self.sides if s_ != side]
                self.rpc_server[i] = others[0]
            elif isinstance(fwd, str) and fwd.startswith('rpc_req'):
                # typed messages as Component.rpc() publishes them (their
                # class default says fwd=True)
                from radical.pilot.messages import RPCRequestMessage
                msg = RPCRequestMessage(uid='rpc.%d' % i, cmd='test',
                                        args=[], kwargs={})
                msg = msg.as_dict()
                msg['arg'] = {'id': i}
                # addressed requests (`Component.rpc(..., rpc_addr=...)`):
                # the address names who is to act, every side still sees it
                if fwd.endswith('@other'):
                    msg['addr'] = [s_ for s_ in self.sides if s_ != side][0]
                elif fwd.endswith('@comp'):
                    msg['addr'] = 'agent_staging_input.0000'
            elif fwd == 'rpc_res':
                from radical.pilot.messages import RPCResultMessage
                msg = RPCResultMessage(uid='rpc.%d' % i, val=1).as_dict()
                msg['arg'] = {'id': i}
            elif isinstance(fwd, str) and fwd.startswith('port'):
                # the message enters through the agent's command port: the
                # real Agent_0.command_port() relays it to the control pubsub
                msg = {'cmd': 'test', 'arg': {'id': i}}
                if 'typed' in fwd:
                    msg = {'_msg_type': 'rpc_req', 'uid': 'rpc.%d' % i,
                           'cmd': 'test', 'args': [], 'kwargs': {},
                           'arg': {'id': i}}
                if fwd.endswith(':True') : msg['fwd'] = True
                if fwd.endswith(':False'): msg['fwd'] = False
                self._through_command_port(side, msg)
                continue
            else:
                msg = {'cmd': 'test', 'arg': {'id': i}}
                if fwd    is not None: msg['fwd']    = fwd
                if origin is not None: msg['origin'] = origin
            self.pubs[(side, kind)].put(LOCAL[kind], msg)
        self.n_deliveries = 0
        self.cb_errors    = list()

    def _through_command_port(self, side, msg):
        import json
        from radical.pilot.agent import agent_0 as a0mod
        world = self

        class Done(BaseException):
            pass

        class Conn(object):
            def recv(self_, n): return json.dumps(msg).encode()
            def sendall(self_, data): world.port_replies.append(data)
            def close(self_): pass

        class Sock(object):
            n = 0
            def bind(self_, addr): pass
            def listen(self_, n): pass
            def accept(self_):
                Sock.n += 1
                if Sock.n > 1:
                    raise Done()
                return Conn(), ('127.0.0.1', 1)

        class FakeSocket(object):
            AF_INET, SOCK_STREAM = 0, 0
            def socket(self_, *a): return Sock()

        a = a0mod.Agent_0.__new__(a0mod.Agent_0)
        a._log    = seams.null()
        a.publish = lambda ch, m: world.pubs[(side, 'control')].put(ch, m)
        saved = (a0mod.socket, ru.find_port, ru.get_hostip, ru.write_json)
        a0mod.socket  = FakeSocket()
        ru.find_port  = lambda *a_, **k: 10000
        ru.get_hostip = lambda *a_, **k: '127.0.0.1'
        ru.write_json = lambda *a_, **k: None
        try:
            a.command_port()
        except Done:
            pass
        finally:
            a0mod.socket, ru.find_port, ru.get_hostip, ru.write_json = saved

    def _app_cb(self, side):
        def cb(topic, msg):
            if msg.get('_msg_type') == 'rpc_res' and 'arg' not in msg:
                # the reply to request i
                i = int(str(msg['uid']).split('.')[-1])
                self.delivered[(('reply', i), side)] += 1
                return
            i = msg['arg']['id']
            self.delivered[(i, side)] += 1
            if self.rpc_server.get(i) == side and \
               msg.get('_msg_type') == 'rpc_req' and \
               (i, side) not in self.rpc_served:
                self.rpc_served.add((i, side))
                self._serve_rpc(side, topic, msg)
        return cb

    def _serve_rpc(self, side, topic, msg):
        from radical.pilot.utils.component import BaseComponent
        c = BaseComponent.__new__(BaseComponent)
        c._log  = seams.null()
        c._prof = seams.null()
        c._uid  = 'component.%s' % side
        c._rpc_handlers = {'c16_test': [lambda *a, **k: 1, None]}
        c._rpc_reqs     = dict()
        c.publish = lambda ch, m: self.pubs[(side, 'control')].put(
                                      LOCAL['control'],
                                      m.as_dict() if hasattr(m, 'as_dict')
                                      else m)
        c.control_cb = lambda *a, **k: None
        c._control_cb(topic, msg)

    def enabled(self):
        return self.net.pending()

    def deliver(self, key):
        try:
            self.net.deliver(key)
        except Exception as e:
            # the subscriber thread logs a failing callback and carries on:
            # what the forwarder did not get done shows in the delivery counts
            if isinstance(e, KeyError) and e.args and e.args[0] == key:
                raise                    # the harness' own lookup
            self.cb_errors.append(repr(e))
        self.n_deliveries += 1

    def canon(self):
        pend = tuple((k, tuple(repr(sorted(m.items(), key=repr))
                               for _, m in self.net.fifos[k]))
                     for k in self.net.pending())
        return (pend, tuple(sorted(self.delivered.items(), key=repr)))

    def check(self, final):
        n = len(self.sides)
        for i, (kind, side, fwd, origin) in enumerate(self.messages):
            shape = '%s:fwd=%s:origin=%s' % (
                kind, fwd, 'none' if origin is None else
                'self' if origin == side else
                'other' if origin in self.sides else 'unknown')
            if fwd == 'rpc_round':
                fwd = True
            if isinstance(fwd, str) and fwd.startswith('port'):
                # relayed with the flag it carries; without one it stays
                fwd = fwd.endswith(':True')
            if fwd and origin in (None, side):
                ref = {s: 1 for s in self.sides}
            else:
                ref = {s: (1 if s == side else 0) for s in self.sides}
            for s in self.sides:
                got = self.delivered[(i, s)]
                if got > ref[s]:
                    clause = 'delivered-twice' if got > 1 else \
                             'leaked-to-other-side'
                    if s == side and got > 1:
                        clause = 'echoed-to-origin'
                    raise Violation('%s|Session.crosswire_pubsub|%s'
                                    % (clause, shape),
                                    'message %d %s: side %s got it %d times, '
                                    'reference %d'
                                    % (i, self.messages[i], s, got, ref[s]))
                if final and got < ref[s]:
                    raise Violation('not-delivered|Session.crosswire_pubsub|%s'
                                    % shape,
                                    'message %d %s: side %s got it %d times, '
                                    'reference %d'
                                    % (i, self.messages[i], s, got, ref[s]))
        for i, server in sorted(self.rpc_server.items()):
            for s in self.sides:
                got = self.delivered[(('reply', i), s)]
                if got > 1 or (final and got < 1):
                    raise Violation('%s|Component._handle_rpc_msg+Session.'
                                    'crosswire_pubsub|rpc-reply:%s'
                                    % ('delivered-twice' if got > 1
                                       else 'not-delivered',
                                       'requester' if s == self.messages[i][1]
                                       else 'server' if s == server
                                       else 'third-side'),
                                    'request %d from %s answered on %s: the '
                                    'reply reached side %s %d times'
                                    % (i, self.messages[i][1], server, s, got))
        if self.n_deliveries > (len(self.messages) + len(self.rpc_server)) \
                               * 4 * (n + 1):
            raise Violation('circulation|Session.crosswire_pubsub|-',
                            '%d deliveries for %d messages on %d sides'
                            % (self.n_deliveries, len(self.messages), n))


def build(n_pilots, messages, hist):
    w = World(n_pilots, messages)
    for k in hist:
        w.deliver(k)
    return w


def bfs(n_pilots, messages, part):
    seen  = dict()
    w0    = World(n_pilots, messages)
    seen[w0.canon()] = ()
    front = collections.deque([()])
    n_trans = 0
    n_quiet = 0
    replay  = {'n_pilots': n_pilots, 'messages': [list(m) for m in messages]}
    while front:
        hist = front.popleft()
        w = build(n_pilots, messages, hist)
        en = w.enabled()
        if not en:
            n_quiet += 1
            try:
                w.check(final=True)
            except Violation as v:
                part.violation(v.key, {'what': v.what, 'history': hist},
                               dict(replay, history=[list(k) for k in hist]))
            part.outcome((n_pilots, tuple(messages),
                          tuple(sorted(w.delivered.items(), key=repr))))
            continue
        for k in en:
            n_trans += 1
            w2 = build(n_pilots, messages, hist)
            try:
                w2.deliver(k)
                w2.check(final=False)
            except Violation as v:
                part.violation(v.key, {'what': v.what,
                                       'history': hist + (k,)},
                               dict(replay, history=[list(x)
                                                     for x in hist + (k,)]))
                continue
            c = w2.canon()
            if c not in seen:
                seen[c] = hist + (k,)
                front.append(hist + (k,))
    return len(seen), n_trans, n_quiet


def message_alphabet(n_pilots):
    sides = ['client'] + ['pilot.%04d' % i for i in range(n_pilots)]
    out = list()
    for kind in ('control', 'state'):
        for side in sides:
            others = [s for s in sides if s != side][:1]
            for fwd in (None, False, True):
                for origin in [None, side] + others + ['elsewhere']:
                    out.append((kind, side, fwd, origin))
    # typed RPC messages travel on the control pubsub
    for side in sides:
        out.append(('control', side, 'rpc_req', None))
        out.append(('control', side, 'rpc_req@other', None))
        out.append(('control', side, 'rpc_req@comp', None))
        out.append(('control', side, 'rpc_res', None))
    # a request published on one side and answered on another
    for side in sides:
        out.append(('control', side, 'rpc_round', None))
    # messages entering a pilot through its command port
    for side in sides[1:2]:
        for flag in ('port:none', 'port:False', 'port:True',
                     'port-typed:none', 'port-typed:False', 'port-typed:True'):
            out.append(('control', side, flag, None))
    return out


_jobs = None


def _job(i):
    part = report.Part()
    n_pilots, messages = _jobs[i]
    st, tr, q = bfs(n_pilots, messages, part)
    part.cover(states=st, transitions=tr, quiescent=q,
               traces_validated_against_impl=tr, histories=1)
    if i % 97 == 0:
        part.sample({'pilots': n_pilots, 'messages': messages, 'states': st,
                     'transitions': tr})
    return part.dump()


def run(ctx):
    global _jobs
    ctx.level = 'model_checking'
    _jobs = list()
    for n_pilots in ((1, 2) if ctx.quick else (1, 2, 3)):
        alpha = message_alphabet(n_pilots)
        for m in alpha:
            if m[2] == 'rpc_round' and n_pilots > 2:
                continue      # request and reply on four sides: too many orders
            _jobs.append((n_pilots, (m,)))
        if n_pilots <= (1 if ctx.quick else 2):
            # pairs of messages: interleaved deliveries
            red = [m for m in alpha if m[2] is True or m[3] is not None
                                       or isinstance(m[2], str)]
            # of the command-port entries the two unflagged ones go into pairs
            red = [m for m in red if not (isinstance(m[2], str) and
                                          m[2].startswith('port') and
                                          not m[2].endswith(':none'))]
            if ctx.quick or n_pilots > 1:
                # round trips double the messages in flight: singles only
                red = [m for m in red if m[2] != 'rpc_round']
            for a, b in itertools.product(red, repeat=2):
                # quick, and two pilots: pairs on one channel; one pilot in
                # the thorough tier: all pairs
                if a[0] == b[0] or (not ctx.quick and n_pilots == 1):
                    _jobs.append((n_pilots, (a, b)))
    for res in seams.pmap(_job, range(len(_jobs)), ctx.workers, chunksize=4):
        ctx.merge(res)
    ctx.set(exhaustive=True,
            rule='for every history of 1-2 messages over (channel x '
                 'originating side x fwd flag {absent,False,True} x origin '
                 '{absent, self, other side, unknown}) and N pilots: BFS over '
                 'all delivery orders of all (publisher -> subscriber) FIFOs; '
                 'states merged on pending FIFO contents + delivery counts')
    ctx.set(distinct_nontrivial=len(ctx.outcomes))
    ctx.assume('reliable FIFO delivery per (publisher, subscriber) pair; '
               'message loss and ZMQ slow-joiner effects are outside the check',
               'reference A.8: fwd and origin in {absent, own side} -> every '
               'side once; otherwise the publishing side only')


def replay(ctx, data):
    r = data['replay']
    msgs = tuple(tuple(m) for m in r['messages'])
    w = World(r['n_pilots'], msgs)
    try:
        for k in r['history']:
            print('deliver', k)
            w.deliver(tuple(k))
            w.check(final=False)
        if not w.enabled():
            w.check(final=True)
        print('delivered', dict(w.delivered))
        return 0
    except Violation as v:
        print('VIOLATED', v.key, v.what)
        return 1
