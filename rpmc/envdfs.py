'''
Depth-first exploration of environment choices for sequential code run in the
calling thread (stateless: every execution starts from a fresh world and
replays its choice prefix).
'''


class Divergence(Exception):
    pass


class Chooser(object):

    def __init__(self, prefix=()):
        self.prefix  = list(prefix)
        self.choices = list()
        self.widths  = list()

    def choose(self, n, tag=None):
        '''pick one of n options (0 = default)'''
        if n <= 1:
            return 0
        i = len(self.choices)
        if i < len(self.prefix):
            c = self.prefix[i]
            if c >= n:
                raise Divergence('replay divergence at %d: %d of %d (%s)'
                                 % (i, c, n, tag))
        else:
            c = 0
        self.choices.append(c)
        self.widths.append(n)
        return c


def explore(run, max_exec=None):
    '''
    run(chooser) executes one complete run.  Yields (chooser, result) for
    every choice sequence.  Canonical order: default choice first.
    '''
    stack = [[]]
    n = 0
    while stack:
        prefix = stack.pop()
        ch  = Chooser(prefix)
        res = run(ch)
        if len(ch.choices) < len(prefix):
            raise Divergence('prefix not consumed')
        for i in range(len(ch.choices) - 1, len(prefix) - 1, -1):
            for alt in range(ch.widths[i] - 1, 0, -1):
                stack.append(ch.choices[:i] + [alt])
        n += 1
        yield ch, res
        if max_exec and n >= max_exec:
            if stack:
                yield None, len(stack)
            return
