'''
Two (or three) notification threads of a client-side manager under the
controlled scheduler of rpmc.sched (engine B).

The client managers are fed by several threads (the state subscriber, the
control subscriber, application threads calling the API): their handlers run
concurrently on the same facade objects.  `explore()` runs the given thread
bodies on a fresh world for every schedule within the delay bound; the
handlers listed in `traced` yield at every line, the managers' locks are
controlled locks.
'''

import os

from rpmc import sched as rs


def control_locks(s, obj, names):
    for name in names:
        if hasattr(obj, name):
            setattr(obj, name, rs.CLock(s, name, reentrant=True))


def explore(make_world, bodies, traced, bound, judge, max_exec=200000):
    '''
    make_world(sched) -> world (locks already replaced via control_locks)
    bodies(world)     -> [(name, callable), ...]
    judge(world, sched, result) is called for every complete execution
    returns (executions, capped)
    '''
    codes = set(f.__code__ for f in traced)

    def run_one(prefix):
        s = rs.Sched(prefix=prefix, traced=codes, max_steps=5000)
        w = make_world(s)
        for item in bodies(w):
            # (name, body) or (name, body, poller): a poller is a thread whose
            # loop polls with sleeps (idle until something changes)
            s.spawn(item[0], item[1], poller=bool(item[2:] and item[2]))
        res = s.run()
        return s, (w, res)

    n = 0
    for s, out in rs.explore(run_one, bound, max_exec=max_exec):
        if s is None:
            return n, out
        n += 1
        w, res = out
        judge(w, s, res)
    return n, 0
