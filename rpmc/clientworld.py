'''
Bare client-side objects: TaskManager with real Task facades, PilotManager
with real Pilot facades, on the in-memory net.
'''

import collections
import threading as mt

import radical.utils as ru

from . import seams, net

rp = seams.import_rp()

from radical.pilot import states    as rps                         # noqa: E402
from radical.pilot import constants as rpc                         # noqa: E402
from radical.pilot.task_manager  import TaskManager                # noqa: E402
from radical.pilot.pilot_manager import PilotManager               # noqa: E402
from radical.pilot.pilot         import Pilot                      # noqa: E402


class FakeSub(object):
    def stop(self): pass
    def __deepcopy__(self, memo): return self


class ClientSession(object):
    '''what TaskManager / Task / Pilot need from a session'''

    uid   = 'session.verif'
    _role = 'primary'

    def __init__(self, sandbox='/tmp/rp.verif'):
        self.path    = sandbox
        self._reg    = net.current().reg
        self.cfg     = ru.Config(from_dict={'heartbeat': {}})
        self._sbox   = sandbox
        self._log    = seams.null()
        self._prof   = seams.null()
        self._rep    = seams.null()
        self._tmgrs  = dict()
        self._pmgrs  = dict()

    def _get_logger(self, *a, **kw)  : return seams.null()
    def _get_profiler(self, *a, **kw): return seams.null()
    def _get_reporter(self, *a, **kw): return seams.null()
    def _get_client_sandbox(self)    : return self._sbox + '/client'
    def _get_resource_sandbox(self, pilot):
        return ru.Url('file://localhost%s/resource' % self._sbox)
    def _get_session_sandbox(self, pilot):
        return ru.Url('file://localhost%s/resource/session.verif' % self._sbox)
    def _get_pilot_sandbox(self, pilot):
        return ru.Url('file://localhost%s/resource/session.verif/%s'
                      % (self._sbox, pilot['uid']))
    def _get_endpoint_fs(self, pilot):
        return ru.Url('file://localhost/')
    def _get_task_sandbox(self, task, pilot):
        return '%s/resource/session.verif/%s/%s' % (self._sbox, pilot['uid'],
                                                    task['uid'])
    def __deepcopy__(self, memo):
        return self


def make_tmgr(session=None, uid='tmgr.0000'):
    '''bare TaskManager with the attributes its constructor sets up'''

    net.install()
    session = session or ClientSession()
    tm = seams.bare(TaskManager, uid=uid)
    tm._session     = session
    tm._reg         = session._reg
    tm._known_uids  = set()
    tm._pilots      = dict()
    tm._pilots_lock = mt.RLock()
    tm._tasks       = dict()
    tm._tasks_lock  = mt.RLock()
    tm._callbacks   = dict()
    tm._tcb_lock    = mt.RLock()
    tm._terminate   = mt.Event()
    tm._closed      = False
    tm._task_info   = collections.defaultdict(dict)
    tm._rep         = seams.null()
    tm._has_sout    = True
    tm._cfg         = ru.Config(from_dict={'uid': uid, 'sid': session.uid})
    for m in rpc.TMGR_METRICS:
        tm._callbacks[m] = dict()
    net.bridges(session._reg,
                queues =[rpc.TMGR_SCHEDULING_QUEUE,
                         rpc.TMGR_STAGING_OUTPUT_QUEUE],
                pubsubs=[rpc.STATE_PUBSUB, rpc.CONTROL_PUBSUB])
    tm.register_publisher(rpc.STATE_PUBSUB)
    tm.register_publisher(rpc.CONTROL_PUBSUB)
    tm.register_output(rps.TMGR_SCHEDULING_PENDING, rpc.TMGR_SCHEDULING_QUEUE)
    tm.register_output(rps.TMGR_STAGING_OUTPUT_PENDING,
                       rpc.TMGR_STAGING_OUTPUT_QUEUE)
    return tm


def make_pmgr(session=None, uid='pmgr.0000'):

    net.install()
    session = session or ClientSession()
    pm = seams.bare(PilotManager, uid=uid)
    pm._session     = session
    pm._reg         = session._reg
    pm._pilots      = dict()
    pm._pilots_lock = mt.RLock()
    pm._callbacks   = dict()
    pm._pcb_lock    = mt.RLock()
    pm._terminate   = mt.Event()
    pm._closed      = False
    pm._rec_id      = 0
    pm._rep         = seams.null()
    pm._cfg         = ru.Config(from_dict={'uid': uid, 'sid': session.uid,
                                           'path': session.path})
    for m in rpc.PMGR_METRICS:
        pm._callbacks[m] = dict()
    net.bridges(session._reg, pubsubs=[rpc.STATE_PUBSUB, rpc.CONTROL_PUBSUB])
    pm.register_publisher(rpc.STATE_PUBSUB)
    pm.register_publisher(rpc.CONTROL_PUBSUB)
    return pm


def make_pilot(pm, uid, state=rps.NEW):
    '''bare Pilot facade registered with the bare pilot manager'''

    p = Pilot.__new__(Pilot)
    p._pmgr          = pm
    p._session       = pm._session
    p._prof          = seams.null()
    p._log           = seams.null()
    p._uid           = uid
    p._state         = state
    p._descr         = rp.PilotDescription({'resource': 'local.localhost',
                                            'cores': 1, 'runtime': 10})
    p._pilot_dict    = dict()
    p._callbacks     = {m: dict() for m in rpc.PMGR_METRICS}
    p._cb_lock       = ru.RLock('verif')
    p._exit_on_error = False
    p._sub           = FakeSub()
    p._nodelist      = None
    p._tmgr          = None
    # what Pilot.as_dict() (TaskManager.add_pilots) reads
    for k in ('_endpoint_fs', '_resource_sandbox', '_session_sandbox',
              '_pilot_sandbox', '_client_sandbox', '_pilot_jsurl',
              '_pilot_jshop'):
        setattr(p, k, ru.Url('file://localhost/tmp/rp.verif/%s%s' % (uid, k)))
    p._log_msgs = p._stdout = p._stderr = None
    p._resource_details = None
    pm._pilots[uid]  = p
    return p
