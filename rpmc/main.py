#!/usr/bin/env python3
'''
Driver for all property checks.

    bin/check <ID> [--tier quick|thorough] [--replay <file>]

Contract (see DESIGN.md section 7): exit 0 if the property held on everything
explored, exit 1 plus a line `VIOLATION property=<id> replay=<path>` otherwise;
known findings (known_findings.json) are printed as `KNOWN-FINDING: ...` and do
not fail the run.  The evidence file /verif/evidence/<ID>.json is rewritten on
every run.
'''

import os
import sys
import json
import time
import shutil
import argparse
import tempfile
import importlib
import traceback

HERE = os.path.dirname(os.path.dirname(os.path.abspath(__file__)))
sys.path.insert(0, HERE)

CHECKS = {
    'C01': 'checks.c01_c04_agent_sched',
    'C02': 'checks.c01_c04_agent_sched',
    'C03': 'checks.c01_c04_agent_sched',
    'C04': 'checks.c01_c04_agent_sched',
    'C05': 'checks.c05_c08_pipeline',
    'C06': 'checks.c06_task_states',
    'C07': 'checks.c07_executor',
    'C08': 'checks.c05_c08_pipeline',
    'C09': 'checks.c09_launch',
    'C10': 'checks.c10_scripts',
    'C11': 'checks.c11_staging',
    'C12': 'checks.c12_tmgr_sched',
    'C13': 'checks.c13_pilot_death',
    'C14': 'checks.c14_pilot_states',
    'C15': 'checks.c15_wait',
    'C16': 'checks.c16_crosswire',
    'C17': 'checks.c17_configs',
    'C18': 'checks.c18_nodes',
    'C19': 'checks.c19_roundtrip',
    'C20': 'checks.c20_raptor',
}


def main():

    ap = argparse.ArgumentParser()
    ap.add_argument('pid')
    ap.add_argument('--tier', default=os.environ.get('VERIF_TIER', 'quick'),
                    choices=['quick', 'thorough'])
    ap.add_argument('--replay', default=None)
    ap.add_argument('--workers', type=int,
                    default=int(os.environ.get('VERIF_WORKERS', '0')) or None)
    args = ap.parse_args()

    pid = args.pid.upper()
    if pid not in CHECKS:
        print('unknown property %s' % pid)
        return 2

    try:
        seed = int(os.environ.get('VERIF_SEED', '0'))
    except ValueError:
        seed = 0

    # scratch dir outside /repo and /verif; cwd is the scratch dir (some rp
    # code writes files to cwd)
    base = os.environ.get('VERIF_TMP') or \
           ('/dev/shm' if os.path.isdir('/dev/shm') and
                          os.access('/dev/shm', os.W_OK) else
            tempfile.gettempdir())
    scratch = tempfile.mkdtemp(prefix='rpmc.%s.' % pid, dir=base)
    os.environ['RPMC_SCRATCH'] = scratch
    os.environ['RADICAL_BASE'] = scratch
    os.environ['HOME_ORIG']    = os.environ.get('HOME', '')
    os.chdir(scratch)

    from rpmc import report

    ctx = report.Context(pid=pid, tier=args.tier, seed=seed, scratch=scratch,
                         workers=args.workers or min(16, os.cpu_count() or 1))
    rc = 2
    try:
        mod = importlib.import_module(CHECKS[pid])

        if args.replay:
            with open(args.replay) as fin:
                data = json.load(fin)
            rc = mod.replay(ctx, data)
        else:
            t0 = time.time()
            mod.run(ctx)
            rc = ctx.finish(time.time() - t0)

    except SystemExit:
        raise
    except BaseException:
        # a crash of the machinery is not a verdict about the property
        traceback.print_exc()
        print('HARNESS-ERROR property=%s' % pid)
        rc = 2
    finally:
        os.chdir('/')
        shutil.rmtree(scratch, ignore_errors=True)

    return rc


if __name__ == '__main__':
    sys.exit(main())
