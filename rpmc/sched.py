'''
Engine B (DESIGN.md 3.2): stateless exploration of real Python threads under a
controlled scheduler.

Exactly one controlled thread runs at a time (baton = per-thread semaphore).
Control returns to the explorer at every *scheduling point*:

  - every `line` event (sys.settrace) of a code object that belongs to one of
    the traced functions/files,
  - every operation on a controlled primitive (CLock acquire/release, CEvent
    is_set used as poll point, sleep, FakeProc.wait, ...).

Blocking is visible (a blocked thread carries a wake-up predicate), polling is
fair (a poller which saw no change since its last pass is idle until another
thread steps or virtual time advances), time is virtual.

Search: depth-first over schedules with iterative *delay bounding* (Emmi,
Qadeer, Rakamaric, POPL 2011 - the deterministic-scheduler generalisation of
CHESS' preemption bounding): a deterministic default scheduler (keep running
the current thread; else the lowest-numbered enabled worker thread; pollers
last) is deviated from at most `bound` times; every deviation may pick any
other enabled thread.  Every execution runs to completion.
'''

import sys
import threading

_real_thread    = threading.Thread
_real_semaphore = threading.Semaphore


class Abort(BaseException):
    '''unwinds a controlled thread when an execution is abandoned'''


class Deadlock(Exception):
    pass


class Divergence(Exception):
    pass


NEW, READY, BLOCKED, IDLE, DONE = 'new', 'ready', 'blocked', 'idle', 'done'


class CThread(object):

    def __init__(self, sched, name, target, poller=False, daemon=False):
        self.sched  = sched
        self.name   = name
        self.target = target
        self.poller = poller      # exits only when the harness sets term
        self.daemon = daemon
        self.state  = NEW
        self.pred   = None        # wake-up predicate when BLOCKED
        self.exc    = None
        self.sem    = _real_semaphore(0)
        self.seen   = -1          # foreign change counter at last poll point
        self.own    = 0           # changes caused by this thread itself
        self.steps  = 0
        self.where  = None
        self.thread = _real_thread(target=self._run, name=name, daemon=True)
        self.tid    = len(sched.threads)
        sched.threads.append(self)

    def _run(self):
        self.sem.acquire()
        if self.sched.aborting:
            self.state = DONE
            self.sched.ctrl.release()
            return
        self.sched.local.me = self
        sys.settrace(self.sched._trace)
        try:
            self.target()
        except Abort:
            pass
        except BaseException as e:         # noqa
            self.exc = e
        finally:
            sys.settrace(None)
            self.state = DONE
            self.sched.changed += 1
            self.sched.ctrl.release()

    def enabled(self):
        if self.state in (READY, NEW):
            return True
        if self.state == BLOCKED:
            return bool(self.pred())
        if self.state == IDLE:
            return self.seen != self.sched.changed - self.own
        return False


class Sched(object):

    def __init__(self, prefix=(), traced=(), max_steps=20000):
        self.prefix   = list(prefix)
        self.traced   = set(traced)     # code objects (or filenames) to trace
        self.threads  = list()
        self.ctrl     = _real_semaphore(0)
        self.local    = threading.local()
        self.choices  = list()
        self.points   = list()          # (enabled tids, running tid or None)
        self.running  = None
        self.changed  = 0               # bumped by every non-poll step
        self.now      = 1000.0
        self.aborting = False
        self.max_steps = max_steps
        self.n_steps  = 0
        self.on_quiescent = None        # callback: may enable more / set term
        self.log      = list()          # schedule log: thread names
        self.stuck    = list()          # (thread, where) at a deadlock

    # ------------------------------------------------------------------
    # called from controlled threads
    #
    def me(self):
        return getattr(self.local, 'me', None)

    def _trace(self, frame, event, arg):
        code = frame.f_code
        if code in self.traced or code.co_filename in self.traced:
            return self._trace_line
        return None

    def _trace_line(self, frame, event, arg):
        if event == 'line':
            me = self.me()
            if me is not None:
                me.where = (frame.f_code.co_name, frame.f_lineno)
                self.yield_point()
        return self._trace_line

    def yield_point(self, state=READY, pred=None, step=True):
        me = self.me()
        if me is None:
            return                    # uncontrolled thread (the explorer)
        if self.aborting:
            # the execution is over; code under test which swallowed the
            # first Abort (a bare `except:`) gets it again at every point
            raise Abort()
        if step:
            self.bump(me)
        me.state = state
        me.pred  = pred
        self.ctrl.release()
        me.sem.acquire()
        if self.aborting:
            raise Abort()
        me.state = READY

    def bump(self, me=None, force=False):
        '''
        something changed which pollers may want to look at.  Plain steps of
        a poller do not count (two pollers would keep each other awake for
        ever); what a poller really changes (a process killed, an event set)
        is announced with force=True.
        '''
        me = me or self.me()
        if me is not None and me.poller and not force:
            return
        self.changed += 1
        if me is not None:
            me.own += 1

    def block_until(self, pred):
        '''the calling thread cannot proceed until pred() holds'''
        while not pred():
            self.yield_point(BLOCKED, pred, step=False)

    def poll_point(self):
        '''
        top of a polling loop: the thread becomes idle if nothing changed since
        its last visit
        '''
        me = self.me()
        if me is None:
            return
        if me.seen == self.changed - me.own:
            self.yield_point(IDLE, step=False)
        else:
            self.yield_point(READY, step=False)
        me.seen = self.changed - me.own

    # ------------------------------------------------------------------
    # explorer side
    #
    def spawn(self, name, target, poller=False):
        t = CThread(self, name, target, poller)
        t.thread.start()
        return t

    def _choose(self, enabled):
        # canonical order = default scheduler: running thread first (if
        # enabled), then worker threads by tid, then pollers by tid
        order = sorted(enabled, key=lambda t: (t is not self.running,
                                               t.poller, t.tid))
        i = len(self.choices)
        if i < len(self.prefix):
            want = self.prefix[i]
            pick = [t for t in order if t.tid == want]
            if not pick:
                raise Divergence('schedule replay diverged at %d: thread %s not '
                                 'enabled (%s)' % (i, want,
                                                   [t.tid for t in order]))
            pick = pick[0]
        else:
            pick = order[0]
        self.points.append(([t.tid for t in order],
                            self.running.tid if self.running in enabled
                            else None))
        self.choices.append(pick.tid)
        return pick

    def run(self):
        '''run until no thread is enabled; returns 'done' | 'deadlock' |
        'steps' '''
        try:
            while True:
                enabled = [t for t in self.threads if t.enabled()]
                if not enabled:
                    if self.on_quiescent and self.on_quiescent(self):
                        continue
                    live = [t for t in self.threads
                            if t.state != DONE and not t.daemon]
                    if live:
                        self.stuck = [(t.name, t.where) for t in live]
                        return 'deadlock'
                    return 'done'
                if len(enabled) == 1:
                    pick = enabled[0]
                else:
                    pick = self._choose(enabled)
                self.running = pick
                self.n_steps += 1
                pick.steps   += 1
                if self.n_steps > self.max_steps:
                    return 'steps'
                pick.sem.release()
                self.ctrl.acquire()
        finally:
            self.shutdown()

    def shutdown(self):
        self.aborting = True
        for t in self.threads:
            if t.state != DONE:
                t.sem.release()
        for t in self.threads:
            t.thread.join(timeout=5)

    def preemptions(self, upto=None):
        '''number of deviations from the default scheduler'''
        n = 0
        for (order, running), c in list(zip(self.points, self.choices))[:upto]:
            if c != order[0]:
                n += 1
        return n


# ------------------------------------------------------------------------------
# controlled primitives
#
class CLock(object):

    def __init__(self, sched, name='lock', reentrant=False):
        self.sched = sched
        self.name  = name
        self.owner = None
        self.count = 0
        self.reentrant = reentrant

    def acquire(self, blocking=True, timeout=-1):
        me = self.sched.me()
        if me is None:
            # explorer / harness thread: never contended
            self.owner, self.count = 'harness', self.count + 1
            return True
        self.sched.yield_point()
        if self.reentrant and self.owner is me:
            self.count += 1
            return True
        self.sched.block_until(lambda: self.owner is None)
        self.owner = me
        self.count = 1
        return True

    def release(self):
        self.count -= 1
        if self.count <= 0:
            self.owner = None
            self.count = 0
        if self.sched.me() is not None:
            self.sched.bump()

    def locked(self):
        return self.owner is not None

    __enter__ = acquire

    def __exit__(self, *a):
        self.release()
        return False


class CEvent(object):
    '''threading.Event whose is_set() is the poll point of a polling loop'''

    def __init__(self, sched):
        self.sched = sched
        self.flag  = False

    def is_set(self):
        self.sched.poll_point()
        return self.flag

    def set(self):
        self.flag = True
        self.sched.bump(force=True)

    def clear(self):
        self.flag = False

    def wait(self, timeout=None):
        self.sched.block_until(lambda: self.flag)
        return True


class CTime(object):
    '''virtual `time` module for the files under test'''

    def __init__(self, sched):
        self.sched = sched

    def time(self):
        return self.sched.now

    def sleep(self, dt):
        # a sleep is a scheduling point; time itself only moves through the
        # harness' clock thread
        self.sched.yield_point(step=False)


# ------------------------------------------------------------------------------
#
def children(sched, prefix, bound):
    '''the schedules which deviate once more than `sched` does, after prefix'''
    pts, chs = sched.points, sched.choices
    cost, costs = 0, list()
    for (order, running), c in zip(pts, chs):
        costs.append(cost)
        if c != order[0]:
            cost += 1
    out = list()
    for i in range(len(chs) - 1, len(prefix) - 1, -1):
        order, running = pts[i]
        if costs[i] + 1 > bound:
            continue
        for alt in reversed(order[1:]):
            out.append(chs[:i] + [alt])
    return out


def explore(run_one, bound, max_exec=None, roots=None):
    '''
    run_one(prefix) -> (sched, result).  Enumerates all schedules which deviate
    from the default scheduler at most `bound` times.  Yields (sched, result).
    `roots`: explore only the subtrees below these prefixes (the subtrees of
    `children()` of one execution are disjoint: work can be split)
    '''
    stack = [[]] if roots is None else [list(r) for r in reversed(roots)]
    n = 0
    while stack:
        prefix = stack.pop()
        sched, result = run_one(prefix)
        n += 1
        yield sched, result
        pts, chs = sched.points, sched.choices
        cost  = 0
        costs = list()
        for (order, running), c in zip(pts, chs):
            costs.append(cost)
            if c != order[0]:
                cost += 1
        for i in range(len(chs) - 1, len(prefix) - 1, -1):
            order, running = pts[i]
            if costs[i] + 1 > bound:
                continue
            for alt in reversed(order[1:]):
                stack.append(chs[:i] + [alt])
        if max_exec and n >= max_exec:
            if stack:
                yield None, len(stack)
            return
