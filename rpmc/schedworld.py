'''
Engine B' (DESIGN.md 3.2): environment-choice exploration of the *real* agent
scheduler loop `AgentSchedulingComponent._schedule_tasks()`.

A `World` holds two bare scheduler objects which model the two OS processes
the real component consists of:

  parent : component process -- work_cb() intake filter, work(), unschedule_cb()
  child  : scheduler process -- _schedule_tasks() loop, own _control_cb

They share `_queue_sched` / `_queue_unsched` (mp.Queue in reality: pickled
copies), everything else is per process.  The loop runs in the calling thread;
the outside world acts at *choice points*, which are exactly the places where
the loop reads state another thread/process can change:

  'top'    : top of the outer loop (`_term.is_set()` from `_schedule_tasks`)
  'sched'  : `_queue_sched.get()` finding the queue empty
  'unsched': `_queue_unsched.get()` finding the queue empty
  'cancel' : `is_canceled()` acquiring `_cancel_lock`

An event that only changes structure S is observable by the loop only at the
next read of S, so offering each event only at the read points of the
structure it changes loses no behaviour (see DESIGN.md 3.2).
'''

import os
import sys
import copy
import queue
import pickle

import radical.utils as ru

from . import seams, net

rp = seams.import_rp()

from radical.pilot import states    as rps                         # noqa: E402
from radical.pilot import constants as rpc                         # noqa: E402
from radical.pilot.agent.scheduler  import base as sbase            # noqa: E402
from radical.pilot.agent.scheduler.continuous import Continuous    # noqa: E402
from radical.pilot.agent.resource_manager.base import \
                                           ResourceManager, RMInfo  # noqa: E402


class Prune(BaseException):
    '''raised through the loop to abandon an execution'''


class HarnessError(Exception):
    pass


# ------------------------------------------------------------------------------
#
class FakeTime(object):
    '''stands in for the `time` module inside scheduler/base.py'''

    def __init__(self):
        self.now = 1000.0

    def time(self):
        return self.now

    def sleep(self, dt):
        self.now += dt


class FakePWatcher(object):
    def __init__(self, *a, **kw): pass
    def watch(self, pid): pass


class FakeQueue(object):
    '''mp.Queue stand-in: pickled copies, Empty is a choice point'''

    def __init__(self, world, kind):
        self.world = world
        self.kind  = kind
        self.items = list()

    def put(self, x):
        self.items.append(pickle.loads(pickle.dumps(x)))

    def get(self, timeout=None):
        if not self.items:
            self.world.choice_point(self.kind)
        if not self.items:
            raise queue.Empty()
        return self.items.pop(0)


class ChildTerm(object):

    def __init__(self, world):
        self.world = world

    def is_set(self):
        f = sys._getframe(1)
        if f.f_code.co_name == '_schedule_tasks':
            return self.world.loop_top(f)
        return False

    def set(self):
        pass


class ChildCancelLock(object):
    '''`_cancel_lock` of the scheduler process: acquisition from the loop
    (is_canceled) is a choice point'''

    def __init__(self, world):
        self.world = world

    def __enter__(self):
        if not self.world.injecting:
            self.world.choice_point('cancel')
        return self

    def __exit__(self, *a):
        return False


# ------------------------------------------------------------------------------
#
class SynthRM(ResourceManager):
    '''raw node list from a layout; everything else is the real RM code'''

    def __init__(self, layout):
        self.name   = 'SynthRM'
        self._log   = seams.null()
        self._prof  = seams.null()
        self.layout = layout
        n_raw       = layout['nodes'] + layout.get('agent_nodes', 0)
        agents      = {'agent_%d' % (i + 1): {'target': 'node'}
                       for i in range(layout.get('agent_nodes', 0))}
        self._cfg   = ru.Config(from_dict={
            'nodes'            : n_raw,
            'cores'            : n_raw * layout['cores'],
            'gpus'             : n_raw * layout.get('gpus', 0),
            'backup_nodes'     : 0,
            'cores_per_node'   : layout['cores'],
            'gpus_per_node'    : layout.get('gpus', 0),
            'lfs_size_per_node': layout.get('lfs', 0),
            'lfs_path_per_node': '/tmp',
            'agents'           : agents,
            'reg_addr'         : 'mem://reg'})
        self._rcfg  = ru.Config(from_dict={
            'mem_per_node'       : layout.get('mem', 0),
            'numa_domain_map'    : {},
            'n_partitions'       : 1,
            'launch_methods'     : {},
            'system_architecture': {
                'blocked_cores': list(layout.get('blocked_cores', [])),
                'blocked_gpus' : list(layout.get('blocked_gpus',  []))}})
        self._launchers = dict()
        self._set_info(self._init_from_scratch())

    def init_from_scratch(self, rm_info):
        n_raw = self._cfg.nodes
        names = self.layout.get('names') or ['n%d' % i for i in range(n_raw)]
        nodes = [(names[i], self.layout['cores']) for i in range(n_raw)]
        rm_info.node_list = self._get_node_list(nodes, rm_info)
        return rm_info


_rm_cache = dict()
_rminfo_defaults = copy.deepcopy(dict(RMInfo._defaults))


def fresh_rminfo_defaults():
    '''
    RMInfo is a FastTypedDict (_deep=False): the list/dict defaults are shared
    by all instances of a process, and _filter_nodes appends to
    `agent_node_list`.  A real agent creates one RM per process; the harness
    creates many, so it restores pristine defaults before each one.
    '''
    RMInfo._defaults = copy.deepcopy(_rminfo_defaults)


def make_rm(layout):
    key = repr(sorted(layout.items()))
    if key not in _rm_cache:
        fresh_rminfo_defaults()
        _rm_cache[key] = SynthRM(layout)
    return copy.deepcopy(_rm_cache[key])


class FakeSession(object):

    def __init__(self, scattered):
        self.cfg  = ru.Config(from_dict={'reg_addr': 'mem://reg'})
        self.rcfg = ru.Config(from_dict={'scattered': scattered})
        self._reg = None

    def __deepcopy__(self, memo):
        return self


# ------------------------------------------------------------------------------
#
def make_task(uid, **kw):
    '''task dict as it arrives at the agent scheduler (after msgpack)'''
    slots = kw.pop('slots', None)
    d = dict(executable='/bin/true')
    d.update(kw)
    td = rp.TaskDescription(d)
    td.uid = uid
    td.verify()
    dd = td.as_dict()
    if slots:
        dd['slots'] = slots
    task = {'uid'        : uid,
            'type'       : 'task',
            'state'      : rps.AGENT_SCHEDULING_PENDING,
            'description': dd,
            'pilot'      : 'pilot.0000',
            'resources'  : None,
            'slots'      : None,
            'partition'  : None}
    return seams.wire(task)


# ------------------------------------------------------------------------------
#
class World(object):
    '''
    One execution of one scenario under one choice sequence.

    scenario = {
        'layout'   : {...},
        'scattered': bool,
        'bulks'    : [[task, ...], ...]       # arrive in this order
        'cancel'   : [uid, ...] or None       # one cancel request
        'envs'     : [name, ...]              # named envs registered later
        'sched'    : scheduler class
    }
    '''

    def __init__(self, scenario, choices, oracle, visited=None, horizon=60):

        self.scn       = scenario
        self.prefix    = list(choices)
        self.choices   = list()       # taken
        self.points    = list()       # (kind, n_options)
        self.oracle    = oracle
        self.visited   = visited
        self.horizon   = horizon
        self.injecting = False
        self.events    = list()       # history of injected events
        self.iteration = 0
        self.path_keys = list()       # loop-top keys since the last event
        self.stopped   = None         # why the execution ended
        self.frame     = None

        net.install()
        self.net = net.Net().activate()
        net.bridges(self.net.reg,
                    queues =[rpc.AGENT_SCHEDULING_QUEUE,
                             rpc.AGENT_EXECUTING_QUEUE],
                    pubsubs=[rpc.STATE_PUBSUB, rpc.CONTROL_PUBSUB,
                             rpc.AGENT_UNSCHEDULE_PUBSUB])

        cls = scenario.get('sched', Continuous)
        rm  = make_rm(scenario['layout'])
        self.rm      = rm
        self.initial = copy.deepcopy(rm.info.node_list)
        sess = FakeSession(scenario.get('scattered', True))

        self.q_sched   = FakeQueue(self, 'sched')
        self.q_unsched = FakeQueue(self, 'unsched')

        def mk(uid):
            o = seams.bare(cls, uid=uid)
            o._session      = sess
            o._reg          = self.net.reg
            o._rm           = rm
            o._partition_ids = list()
            o._waitpool     = sbase.defaultdict(dict)
            o._ts_map       = sbase.defaultdict(set)
            o._ts_valid     = False
            o._active_cnt   = 0
            o._named_envs   = list()
            o._queue_sched   = self.q_sched
            o._queue_unsched = self.q_unsched
            o._scheduler_process = False
            o.nodes         = copy.deepcopy(rm.info.node_list)
            o._colo_history = dict()
            o._tagged_nodes = set()
            o._scattered    = None
            o._node_offset  = 0
            o._configure()
            return o

        # parent: component process
        self.parent = mk('agent_scheduling.0000')
        self.parent.register_publisher(rpc.STATE_PUBSUB)
        self.parent.register_input(rps.AGENT_SCHEDULING_PENDING,
                                   rpc.AGENT_SCHEDULING_QUEUE,
                                   self.parent.work)
        self.intake = ru.zmq.Putter(rpc.AGENT_SCHEDULING_QUEUE)

        # child: scheduler process (fork copy of the parent)
        self.child = mk('agent_scheduling.0000')
        self.child._publishers  = dict(self.parent._publishers)
        self.child._term        = ChildTerm(self)
        self.child._cancel_lock = ChildCancelLock(self)

        # remaining environment events
        self.bulks      = [list(b) for b in scenario.get('bulks', [])]
        self.next_bulk  = 0
        self.to_cancel  = list(scenario.get('cancel') or [])
        self.c_parent   = bool(self.to_cancel)   # parent still to be told
        self.c_child_a  = bool(self.to_cancel)   # child list still to be set
        self.c_child_b  = bool(self.to_cancel)   # child queue put pending
        self.c_deferred = None
        self.c_pending  = list()                 # captured, not yet applied
        self._c_order   = None
        self.envs       = list(scenario.get('envs') or [])
        self.max_completes = scenario.get('max_completes')
        self.n_completes   = 0

        self.n_qlog = 0
        self.n_plog = 0

        oracle.start(self)

    # --------------------------------------------------------------------------
    #
    def run(self):

        old = (sbase.time, ru.PWatcher)
        sbase.time  = FakeTime()
        ru.PWatcher = FakePWatcher
        try:
            self.child._schedule_tasks()
            self.stopped = self.stopped or 'term'
        except Prune:
            pass
        except HarnessError:
            raise
        except Exception as e:
            # nothing catches this in the real scheduler process either: the
            # loop (and with it the process) is gone
            import traceback
            tb = traceback.extract_tb(e.__traceback__)
            site = [f.name for f in tb if '/radical/pilot/' in f.filename]
            if tb and '/radical/' not in tb[-1].filename and \
               os.path.dirname(os.path.abspath(__file__)) in tb[-1].filename:
                # raised by the harness' own code, not by the scheduler
                raise HarnessError('harness code raised %r at %s:%s'
                                   % (e, tb[-1].filename, tb[-1].lineno))
            self.stopped = 'crash'
            self.observe()
            self.oracle.loop_crashed(self, e, site[-1] if site else '?')
        finally:
            sbase.time, ru.PWatcher = old
        return self

    # --------------------------------------------------------------------------
    #
    def choose(self, kind, n):
        '''take the next choice: replay the prefix, then default 0'''
        i = len(self.choices)
        if i < len(self.prefix):
            c = self.prefix[i]
            if c >= n:
                raise HarnessError('replay divergence at %d: choice %d of %d '
                                   '(%s)' % (i, c, n, kind))
        else:
            c = 0
        self.choices.append(c)
        self.points.append((kind, n))
        return c

    @property
    def replaying(self):
        return len(self.choices) < len(self.prefix)

    # --------------------------------------------------------------------------
    #
    def _capture_control_cb(self, probe=False):
        '''
        run the child's real _control_cb for the cancel request with its
        effects on `_cancel_list` and on the scheduler queue recorded instead
        of applied; returns [('list', uids) | ('put', item), ...] in order
        '''
        c    = self.child
        log  = list()

        class RecList(list):
            def __iadd__(self_, other):
                log.append(('list', list(other)))
                return self_
            def extend(self_, other):
                log.append(('list', list(other)))
            def append(self_, x):
                log.append(('list', [x]))

        real_list = c._cancel_list
        c._cancel_list = RecList(real_list)
        self.q_sched.put = lambda x: log.append(('put', x))
        try:
            c._control_cb(rpc.CONTROL_PUBSUB, self._cmsg())
        finally:
            del self.q_sched.put
            if type(c._cancel_list) is RecList:
                real_list[:] = list(c._cancel_list)
            else:
                # the handler rebound the attribute (x = x + uids)
                new = list(c._cancel_list)
                log.append(('list', new[len(real_list):]))
                real_list[:] = new[:len(real_list)]
            c._cancel_list = real_list
        return log

    def _apply_half(self, half):
        kind, val = half
        if kind == 'list':
            self.child._cancel_list += val
        else:
            self.q_sched.put(val)

    def c_order_probe(self):
        '''which effect does the real handler produce first?'''
        if self._c_order is None:
            snap = (list(self.child._cancel_list), )
            n_pub, n_q = len(self.net.pub_log), len(self.net.q_log)
            was, self.injecting = self.injecting, True
            try:
                log = self._capture_control_cb()
            finally:
                self.injecting = was
            self.child._cancel_list[:] = snap[0]
            del self.net.pub_log[n_pub:]
            del self.net.q_log[n_q:]
            self._c_order = [k for k, _ in log] or ['list']
        return self._c_order

    def enabled(self, kind):
        ev = list()
        if kind == 'sched':
            if self.next_bulk < len(self.bulks):
                ev.append(('arrive', self.next_bulk))
            if self.c_parent and self.next_bulk < len(self.bulks):
                # the parent's view of the request only matters for tasks
                # which did not arrive yet
                ev.append(('cancel_parent',))
            if self.c_child_b:
                ev.append(('cancel_child',))
            if self.c_child_a and not self.scn.get('cancel_split') and \
               self.c_order_probe()[0] == 'put':
                # the handler talks to the loop before it registers the
                # request: that half matters where the loop reads its queue
                ev.append(('cancel_child_list',))
        elif kind == 'unsched':
            if self.scn.get('mass'):
                # all running tasks end together: one event, many messages
                if self.oracle.running():
                    ev.append(('complete_all',))
            elif self.max_completes is None or \
               self.n_completes < self.max_completes:
                for uid in self.oracle.running():
                    ev.append(('complete', uid))
        elif kind == 'cancel':
            if self.c_child_a and not self.scn.get('cancel_split'):
                ev.append(('cancel_child_list',))
            elif self.c_child_b and self.c_pending and \
                 self.c_pending[0][0] == 'list':
                # ... and the registration where the loop reads the list
                ev.append(('cancel_child',))
        elif kind == 'top':
            for name in self.envs:
                ev.append(('named_env', name))
        return ev

    def choice_point(self, kind):
        '''offer events until "none" is chosen'''
        while True:
            ev = self.enabled(kind)
            if not ev:
                return
            c = self.choose(kind, 1 + len(ev))
            if c == 0:
                return
            self.inject(ev[c - 1])

    # --------------------------------------------------------------------------
    #
    def inject(self, ev):

        self.injecting = True
        self.events.append(ev)
        self.path_keys = list()
        try:
            kind = ev[0]
            if kind == 'arrive':
                bulk = self.bulks[ev[1]]
                self.next_bulk += 1
                self.oracle.handed(self, bulk)
                self.intake.put(copy.deepcopy(bulk))
                self.parent.work_cb()

            elif kind == 'complete':
                self.n_completes += 1
                task = self.oracle.complete(self, ev[1])
                # the executor publishes the task on the unschedule pubsub
                self.parent.unschedule_cb(rpc.AGENT_UNSCHEDULE_PUBSUB,
                                          seams.wire(task))

            elif kind == 'complete_all':
                # 20 single notifications, then bulks of 100 (watcher bulks)
                uids  = list(self.oracle.running())
                sizes = [1] * min(20, len(uids))
                while sum(sizes) < len(uids):
                    sizes.append(min(100, len(uids) - sum(sizes)))
                i = 0
                for n in sizes:
                    tasks = [self.oracle.complete(self, u)
                             for u in uids[i:i + n]]
                    i += n
                    self.parent.unschedule_cb(rpc.AGENT_UNSCHEDULE_PUBSUB,
                                              seams.wire(tasks if n > 1
                                                         else tasks[0]))

            elif kind == 'cancel_parent':
                self.c_parent = False
                self.oracle.cancel_issued(self, self.to_cancel)
                self.parent._control_cb(rpc.CONTROL_PUBSUB, self._cmsg())

            elif kind == 'cancel_child_list':
                # first half of the child's _control_cb: its two effects on
                # what the loop reads (registration in _cancel_list, queue
                # put of control_cb) are captured in the order the real code
                # produces them; the first takes effect now, the second with
                # the `cancel_child` event
                self.c_child_a = False
                self.oracle.cancel_issued(self, self.to_cancel)
                self.c_pending = self._capture_control_cb()
                if self.c_pending:
                    self._apply_half(self.c_pending.pop(0))

            elif kind == 'cancel_child':
                self.c_child_b = False
                self.oracle.cancel_issued(self, self.to_cancel)
                if self.c_child_a:
                    self.c_child_a = False
                    if self.scn.get('cancel_split'):
                        # separate requests, one per task, back to back
                        for uid in self.to_cancel:
                            self.child._control_cb(rpc.CONTROL_PUBSUB,
                                seams.wire({'cmd': 'cancel_tasks',
                                            'arg': {'uids': [uid]}}))
                    else:
                        self.child._control_cb(rpc.CONTROL_PUBSUB,
                                               self._cmsg())
                else:
                    while self.c_pending:
                        self._apply_half(self.c_pending.pop(0))

            elif kind == 'named_env':
                self.envs.remove(ev[1])
                self.child._control_cb(rpc.CONTROL_PUBSUB,
                        {'cmd': 'register_named_env',
                         'arg': {'env_name': ev[1]}})
                self.oracle.env_registered(self, ev[1])
            else:
                raise HarnessError('unknown event %s' % (ev,))
        finally:
            self.injecting = False

        self.observe()

    def _cmsg(self):
        return seams.wire({'cmd': 'cancel_tasks',
                           'arg': {'uids': list(self.to_cancel)}})

    # --------------------------------------------------------------------------
    #
    def observe(self):
        '''feed new queue pushes / publications to the oracle'''
        ql, pl = self.net.q_log, self.net.pub_log
        while self.n_qlog < len(ql) or self.n_plog < len(pl):
            # pushes and publications of one advance() are adjacent; the
            # publication comes first.  Order between the two logs does not
            # matter for the oracle (it keys on uid).
            if self.n_plog < len(pl):
                ch, pub, msg = pl[self.n_plog]
                self.n_plog += 1
                if ch == rpc.STATE_PUBSUB:
                    self.oracle.published(self, msg)
                continue
            qname, things = ql[self.n_qlog]
            self.n_qlog += 1
            if qname == rpc.AGENT_EXECUTING_QUEUE:
                self.oracle.pushed(self, things)

    # --------------------------------------------------------------------------
    #
    def remaining(self):
        return (self.next_bulk, self.c_parent, self.c_child_a, self.c_child_b,
                tuple(k for k, _ in self.c_pending),
                tuple(self.envs), self.n_completes
                if self.max_completes is not None else -1)

    def sched_canon(self):
        c = self.child
        nodes = tuple((tuple(n['cores']), tuple(n['gpus']), n['lfs'], n['mem'])
                      for n in c.nodes)
        wp = tuple(sorted((prio, tuple(pool.keys()))
                          for prio, pool in c._waitpool.items() if pool))
        qs = repr(self.q_sched.items)
        qu = tuple(t['uid'] for x in self.q_unsched.items
                            for t in ru.as_list(x))
        colo = tuple(sorted((k, tuple(v))
                            for k, v in c._colo_history.items()))
        rap = tuple(sorted((k, tuple(t['uid'] for t in v))
                           for k, v in getattr(c, '_raptor_tasks', {}).items()))
        return (nodes, wp, qs, qu, c._active_cnt, tuple(c._cancel_list),
                tuple(self.parent._cancel_list), tuple(c._named_envs), colo,
                tuple(sorted(c._tagged_nodes)), c._node_offset, rap)

    def loop_top(self, frame):
        '''called for `self._term.is_set()` at the top of the outer loop'''

        self.frame = frame
        self.observe()
        resources = frame.f_locals.get('resources')

        self.oracle.at_boundary(self)

        key = (self.sched_canon(), resources, self.remaining(),
               self.oracle.canon())

        if key in self.path_keys:
            # the loop cycles without outside help: stable state
            self.oracle.at_quiescence(self)
            self.stopped = 'quiescent'
            raise Prune()

        if not self.replaying and self.visited is not None:
            if key in self.visited:
                self.stopped = 'pruned'
                raise Prune()
            self.visited.add(key)

        self.path_keys.append(key)
        self.iteration += 1
        if self.iteration > self.horizon:
            self.stopped = 'horizon'
            self.oracle.horizon_hit(self)
            raise Prune()

        self.choice_point('top')
        return False


# ------------------------------------------------------------------------------
#
def explore(scenario, make_oracle, part, max_exec=None):
    '''
    depth-first over choice prefixes with state pruning at loop boundaries.
    Returns (executions, states, transitions).
    '''
    visited = set()
    stack   = [[]]
    n_exec  = 0
    n_trans = 0
    stops   = dict()

    while stack:
        prefix = stack.pop()
        oracle = make_oracle(scenario, part)
        w = World(scenario, prefix, oracle, visited)
        try:
            w.run()
        except HarnessError:
            raise
        n_exec  += 1
        n_trans += len(w.events) + w.iteration
        stops[w.stopped] = stops.get(w.stopped, 0) + 1

        if len(w.choices) < len(prefix):
            raise HarnessError('prefix not consumed: %s of %s in %s'
                               % (len(w.choices), prefix, scenario.get('name')))

        for i in range(len(prefix), len(w.points)):
            kind, n = w.points[i]
            for alt in range(1, n):
                stack.append(w.choices[:i] + [alt])

        oracle.finish(w)

        if max_exec and n_exec >= max_exec:
            part.cap('scenario %s: execution cap %d hit with %d prefixes left'
                     % (scenario.get('name'), max_exec, len(stack)))
            break

    return n_exec, len(visited), n_trans, stops
