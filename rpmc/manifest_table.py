'''
Table of claimed checks; bin/mkmanifest turns it into MANIFEST.json.
'''

CLAIMED = {

 'C19': {
  'engine'    : 'enum',
  'category'  : 'exploration',
  'design_ref': 'DESIGN.md 4 (C19), 3.3',
  'technique' : 'exhaustive bounded enumeration of inputs on the real code '
                'against an independent reference (bounded model checking of '
                'a sequential library: all inputs of a finite alphabet)',
  'text'      : 'Every description of a finite alphabet is pushed through the '
                'real TaskDescription/PilotDescription verify(), as_dict(), '
                'constructor and msgpack: all 2^13 subsets of deprecated '
                'attributes x replacement set/unset, every task mode x '
                'required attribute present/absent; every function kind x '
                'argument form x encoder through PythonTask/get_func_attr as '
                'the worker calls it; every slot list over 4 resource '
                'notations through convert_slots_to_new/old and Slot().  The '
                'space is enumerated completely, which is what the '
                '"for every description" quantifier needs and a handful of '
                'unit tests cannot give.',
  'note'      : 'Trusted: the reference tables (deprecated->replacement, '
                'required attribute per mode) transcribed from the '
                'TaskDescription documentation; equality of descriptions is '
                'equality of as_dict(); values outside the alphabet are not '
                'covered.',
 },
}

NOT_APPLICABLE = {
}
