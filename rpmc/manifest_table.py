'''
Table of claimed checks; bin/mkmanifest turns it into MANIFEST.json.
'''

CLAIMED = {

 'C01': {
  'engine'    : 'envdfs',
  'category'  : 'model_checking',
  'design_ref': 'DESIGN.md 4 (C01), 3.2 variant B\', A.1',
  'technique' : 'stateless exploration of the real scheduler loop under all '
                'environment choices with stateful pruning (explicit-state '
                'model checking of the implementation); explicit-state BFS '
                'over NodeList operation histories',
  'text'      : 'The real AgentSchedulingComponent._schedule_tasks() loop of a '
                'bare Continuous scheduler (nodes produced by the real '
                'ResourceManager._init_from_scratch/_filter_nodes) is run '
                'under every placement of arrivals, completions and cancel '
                'steps at the points where the loop reads shared state, for '
                'all task-shape sequences of a finite alphabet on 8 layouts '
                '(blocked cores/GPUs, agent nodes, lfs/mem, fractional GPUs, '
                'application-supplied slots).  An independent ledger checks '
                'after every grant that held placements are disjoint, within '
                'lfs/mem, on offered nodes and never on blocked resources.  '
                'The application-level NodeList/Node/NumaNode finder is '
                'explored by BFS over all find/release/allocate histories to '
                'a depth bound with the same ledger.',
  'note'      : 'Bounds: <=3 (quick) / <=4 (thorough) tasks per scenario, '
                'layouts of 1-3 nodes; ZMQ and mp.Queue replaced by in-memory '
                'FIFOs with msgpack/pickle copies; the ledger and the slot '
                'reader are trusted; ContinuousJsrun is not explored.',
 },

 'C02': {
  'engine'    : 'envdfs',
  'category'  : 'model_checking',
  'design_ref': 'DESIGN.md 4 (C02)',
  'technique' : 'same exploration as C01 (real scheduler loop, all '
                'environment choices, stateful pruning) with a shape oracle '
                'at every grant; BFS over NodeList histories',
  'text'      : 'At every grant reached by the exploration of C01 (i.e. on '
                'every partially occupied pilot reachable by scheduling and '
                'releasing other tasks) the placement is compared with the '
                'request: number of ranks, one existing node per rank (name '
                'and index agree), exactly cores_per_rank distinct cores, '
                'GPU amount, lfs/mem, ranks_per_node, colocate history; '
                'oversize requests must be rejected, never granted or left '
                'waiting on an idle pilot.  NodeList.find_slots results are '
                'checked against their RankRequirements.',
  'note'      : 'Same bounds and trusted base as C01; colocate is read as '
                '"subset of the nodes used for that tag before".',
 },

 'C03': {
  'engine'    : 'envdfs',
  'category'  : 'model_checking',
  'design_ref': 'DESIGN.md 4 (C03)',
  'technique' : 'same exploration as C01 with a release oracle at every loop '
                'boundary; BFS over NodeList histories; (executor part: '
                'controlled-scheduler exploration, see C07)',
  'text'      : 'At every loop boundary of every explored execution the '
                'scheduler\'s node map must equal the initial map minus '
                'exactly the slots of tasks granted and not yet released '
                '(cores, GPUs, lfs, mem), _active_cnt must equal the number of '
                'holders, and an exception escaping the loop is a violation; '
                'histories include application-placed tasks and releases '
                'racing with cancel requests.  NodeList: release restores '
                'exactly what was taken, failed or refused operations change '
                'nothing, and after releasing everything the occupancy equals '
                'the initial one (also with node indices that are not list '
                'positions and with NUMA domains).',
  'note'      : 'Same bounds as C01.  The executor side (exactly one '
                'unschedule publication per task) is decided by the C07 '
                'harness and reported there and here once that check exists.',
 },

 'C04': {
  'engine'    : 'envdfs',
  'category'  : 'model_checking',
  'design_ref': 'DESIGN.md 4 (C04), A.2',
  'technique' : 'stateless exploration of the real scheduler loop under all '
                'environment choices with stateful pruning and cycle '
                'detection for quiescence',
  'text'      : 'Same exploration; the cancel request is split into its three '
                'observable steps (component process list, scheduler process '
                'list, scheduler queue) and offered at every point where the '
                'loop reads the affected structure.  At every loop boundary '
                'each task is in exactly one of started/waiting/failed/'
                'canceled and reported at most once; when the loop cycles '
                'without outside help (quiescence, detected by state '
                'repetition) a lone waiter must not fit the free map, an idle '
                'pilot must not keep waiters that all fit, a waiter that '
                'cannot fit the idle pilot must have been failed; a FAILED '
                'task must not fit the idle pilot (plain arithmetic on the '
                'layout); priority inversion is checked at each grant.',
  'note'      : 'fits() is an independent brute-force/arithmetic reference for '
                'scattered placement; liveness clauses are evaluated for '
                'whole-core/GPU requests without tags only.',
 },

 'C19': {
  'engine'    : 'enum',
  'category'  : 'exploration',
  'design_ref': 'DESIGN.md 4 (C19), 3.3',
  'technique' : 'exhaustive bounded enumeration of inputs on the real code '
                'against an independent reference (bounded model checking of '
                'a sequential library: all inputs of a finite alphabet)',
  'text'      : 'Every description of a finite alphabet is pushed through the '
                'real TaskDescription/PilotDescription verify(), as_dict(), '
                'constructor and msgpack: all 2^13 subsets of deprecated '
                'attributes x replacement set/unset, every task mode x '
                'required attribute present/absent; every function kind x '
                'argument form x encoder through PythonTask/get_func_attr as '
                'the worker calls it; every slot list over 4 resource '
                'notations through convert_slots_to_new/old and Slot().  The '
                'space is enumerated completely, which is what the '
                '"for every description" quantifier needs and a handful of '
                'unit tests cannot give.',
  'note'      : 'Trusted: the reference tables (deprecated->replacement, '
                'required attribute per mode) transcribed from the '
                'TaskDescription documentation; equality of descriptions is '
                'equality of as_dict(); values outside the alphabet are not '
                'covered.',
 },
}

NOT_APPLICABLE = {
}
