'''
Table of claimed checks; bin/mkmanifest turns it into MANIFEST.json.
'''

CLAIMED = {

 'C01': {
  'engine'    : 'schedworld',
  'category'  : 'model_checking',
  'design_ref': 'DESIGN.md 4 (C01), 3.2 variant B\', A.1',
  'technique' : 'stateless exploration of the real scheduler loop under all '
                'environment choices with stateful pruning (explicit-state '
                'model checking of the implementation); explicit-state BFS '
                'over NodeList operation histories',
  'text'      : 'The real AgentSchedulingComponent._schedule_tasks() loop of a '
                'bare Continuous scheduler (nodes produced by the real '
                'ResourceManager._init_from_scratch/_filter_nodes) is run '
                'under every placement of arrivals, completions and cancel '
                'steps at the points where the loop reads shared state, for '
                'all task-shape sequences of a finite alphabet on 8 layouts '
                '(blocked cores/GPUs, agent nodes, lfs/mem, fractional GPUs, '
                'application-supplied slots).  An independent ledger checks '
                'after every grant that held placements are disjoint, within '
                'lfs/mem, on offered nodes and never on blocked resources.  '
                'The application-level NodeList/Node/NumaNode finder is '
                'explored by BFS over all find/release/allocate histories to '
                'a depth bound with the same ledger.'
                ' The executor exploration (C07) is run as well: no task is released twice.',
  'note'      : 'Bounds: <=3 (quick) / <=4 (thorough) tasks per scenario, '
                'layouts of 1-3 nodes; ZMQ and mp.Queue replaced by in-memory '
                'FIFOs with msgpack/pickle copies; the ledger and the slot '
                'reader are trusted; ContinuousJsrun is not explored.',
 },

 'C02': {
  'engine'    : 'schedworld',
  'category'  : 'model_checking',
  'design_ref': 'DESIGN.md 4 (C02)',
  'technique' : 'same exploration as C01 (real scheduler loop, all '
                'environment choices, stateful pruning) with a shape oracle '
                'at every grant; BFS over NodeList histories',
  'text'      : 'At every grant reached by the exploration of C01 (i.e. on '
                'every partially occupied pilot reachable by scheduling and '
                'releasing other tasks) the placement is compared with the '
                'request: number of ranks, one existing node per rank (name '
                'and index agree), exactly cores_per_rank distinct cores, '
                'GPU amount, lfs/mem, ranks_per_node, colocate history; '
                'oversize requests must be rejected, never granted or left '
                'waiting on an idle pilot.  NodeList.find_slots results are '
                'checked against their RankRequirements.'
                ' Ranks of one placement share no core or whole GPU.',
  'note'      : 'Same bounds and trusted base as C01; colocate is read as '
                '"subset of the nodes used for that tag before".',
 },

 'C03': {
  'engine'    : 'schedworld',
  'category'  : 'model_checking',
  'design_ref': 'DESIGN.md 4 (C03)',
  'technique' : 'same exploration as C01 with a release oracle at every loop '
                'boundary; BFS over NodeList histories; (executor part: '
                'controlled-scheduler exploration, see C07)',
  'text'      : 'At every loop boundary of every explored execution the '
                'scheduler\'s node map must equal the initial map minus '
                'exactly the slots of tasks granted and not yet released '
                '(cores, GPUs, lfs, mem), _active_cnt must equal the number of '
                'holders, and an exception escaping the loop is a violation; '
                'histories include application-placed tasks and releases '
                'racing with cancel requests.  NodeList: release restores '
                'exactly what was taken, failed or refused operations change '
                'nothing, and after releasing everything the occupancy equals '
                'the initial one (also with node indices that are not list '
                'positions and with NUMA domains).',
  'note'      : 'Same bounds as C01.  The executor side (exactly one '
                'unschedule publication per task) is decided by the C07 '
                'harness and reported there and here once that check exists.',
 },

 'C04': {
  'engine'    : 'schedworld',
  'category'  : 'model_checking',
  'design_ref': 'DESIGN.md 4 (C04), A.2',
  'technique' : 'stateless exploration of the real scheduler loop under all '
                'environment choices with stateful pruning and cycle '
                'detection for quiescence',
  'text'      : 'Same exploration; the cancel request is split into its three '
                'observable steps (component process list, scheduler process '
                'list, scheduler queue) and offered at every point where the '
                'loop reads the affected structure.  At every loop boundary '
                'each task is in exactly one of started/waiting/failed/'
                'canceled and reported at most once; when the loop cycles '
                'without outside help (quiescence, detected by state '
                'repetition) a lone waiter must not fit the free map, an idle '
                'pilot must not keep waiters that all fit, a waiter that '
                'cannot fit the idle pilot must have been failed; a FAILED '
                'task must not fit the idle pilot (plain arithmetic on the '
                'layout); priority inversion is checked at each grant.',
  'note'      : 'fits() is an independent brute-force/arithmetic reference for '
                'scattered placement; liveness clauses are evaluated for '
                'whole-core/GPU requests without tags only.',
 },

 'C05': {
  'engine'    : 'bfs',
  'category'  : 'model_checking',
  'design_ref': 'DESIGN.md 4 (C05), 5, A.6',
  'technique' : 'explicit-state model checking (BFS over deep-copied worlds) '
                'of the real component pipeline with fault injection',
  'text'      : 'A pipeline world of the real client and agent components '
                '(TaskManager, RoundRobin, tmgr/agent staging in/out, Agent_0 '
                'proxy callbacks, Continuous scheduler with its real loop, '
                'Popen executor), each driven through its real work_cb()/'
                'handler as an atomic step over in-memory queues/pubsubs, is '
                'explored by BFS: every order of component steps, process '
                'exits, watcher passes and unschedule deliveries, for a faulty '
                'task plus a follow-up / same-bulk / concurrent task and each '
                'of 16 fault placements (non-zero exit, no launcher, launch '
                'errors, 4 staging failures, work() raising in each of 7 '
                'components).  At every quiescent state all delivery orders '
                'of the buffered state notifications to the client are '
                'enumerated; each task must be final exactly once with the '
                'state the injected events imply, with exit code / exception '
                'recorded, and the other task must still reach DONE.'
                ' Two queue puts may arrive as one bulk (the bridge buffers single things); the client enumeration also drops up to one (thorough two) non-final notifications per task; no task is announced in two different final states; the executor exploration (C07) contributes the hand-on and ownership clauses.',
  'note'      : 'Executor handlers and scheduler-loop iterations are atomic '
                'here (their interleavings are C07/C04); notifications are '
                'split per task for the client-order enumeration (batch '
                'effects are C06); message loss is outside.',
 },

 'C06': {
  'engine'    : 'bfs',
  'category'  : 'model_checking',
  'design_ref': 'DESIGN.md 4 (C06), A.3',
  'technique' : 'explicit-state search (BFS to closure) over the real '
                'notification handlers, every transition compared with a '
                'reference automaton',
  'text'      : 'State = (Task.state of two real Task objects on a bare '
                'TaskManager); transition = one state-pubsub message with a '
                'batch of 1..2 (thorough: 3) notifications over {t1, t2, '
                'unknown} x 7 states, executed by the real _state_sub_cb -> '
                '_update_tasks -> Task._update -> _task_cb.  The graph is '
                'finite and is closed completely.  On every transition the '
                'callback sequence and resulting Task.state of each task must '
                'equal the per-task monotone reference automaton applied '
                'independently of the rest of the batch (batch isolation), '
                'manager-level and task-level callbacks must agree.'
                " A pilot's end handled next to a task notification (two threads, engine B, all schedules within the delay bound) and callbacks which change the callback registry during notification are explored as well."
                ' A callback may also leave the interpreter (sys.exit): the other observers still see every announcement.',
  'note'      : 'Reference automaton A.3 is trusted; two tasks; bulk-callback '
                'mode is not explored.',
 },

 'C07': {
  'engine'    : 'sched',
  'category'  : 'model_checking',
  'design_ref': 'DESIGN.md 4 (C07), 3.2, A.5',
  'technique' : 'stateless model checking of the real executor threads under a '
                'controlled scheduler, iterative delay bounding (systematic '
                'schedule enumeration, CHESS/delay-bounded style)',
  'text'      : 'The real Popen executor methods run as real Python threads '
                '(intake work_cb/work/_launch_task, _watch/_check_running, '
                '_to_watcher, _control_cb/control_cb/cancel_task, process-exit '
                'environment threads, a clock thread) under a baton scheduler '
                'with scheduling points at every source line of the functions '
                'that touch shared executor state and at every lock, sleep, '
                'poll, process wait/kill.  For each scenario (exit, cancel, '
                'timeout, cancel+timeout, cancel before intake, launch faults '
                'at 4 points, 1-2 tasks, exit codes) every schedule with at '
                'most 1 (quick) / 2 (thorough) deviations from the default '
                'scheduler is executed to completion; per task the '
                'observation log must show: one AGENT_EXECUTING first, exactly '
                'one hand-on (push with outcome, or FAILED), exactly one '
                'unschedule publication, outcome consistent with the exit '
                'code / cancel request, nothing left in _tasks, no deadlock, '
                'no thread death, serialisable messages.'
                " Scenarios include start-up limits, processes which die late after the kill (bounded waits may time out) and an ownership oracle: the watcher writes a task's outcome only for tasks it took out of the registry itself. Part noop: the real NOOP.work()/_collect() on a virtual clock, every bulk composition (kinds ok/sleep/badarg/launch-fault, 1-2 bulks) x every history of intake, collector-pass and time events up to depth 4 (quick) / 6, same per-task oracle.",
  'note'      : 'Line-level (not byte-code-level) interleavings; advance() and '
                'publish() are atomic; a killed process dies at once; '
                'sp.Popen/os.killpg/time are harness fakes; script creation is '
                'a succeed-or-raise seam.',
 },

 'C08': {
  'engine'    : 'bfs',
  'category'  : 'model_checking',
  'design_ref': 'DESIGN.md 4 (C08)',
  'technique' : 'explicit-state BFS of the pipeline world with the cancel '
                'request and each of its 8 per-component deliveries as events; '
                'plus the scheduler-loop exploration (C04 harness, cancel '
                'family) and the executor thread exploration (C07 harness)',
  'text'      : 'Pipeline world as C05 without faults: a named task alone, a '
                'named task and a bystander in one bulk (thorough: also '
                'concurrent, cancel of the second, one-core pilot where one '
                'waits, no natural exit); TaskManager.cancel_tasks may be '
                'issued in every reachable state and its control message is '
                'delivered to each component separately in every order.  The '
                'named task must end CANCELED unless its process finished by '
                'itself, every task must end final, the scheduler map returns '
                'to the initial one, the bystander ends DONE with the '
                'undisturbed callback sequence.  The same oracle family is '
                'evaluated where the request lands inside the scheduler loop '
                '(three observable steps of the request at every read point) '
                'and inside the executor threads (delay-bounded schedules).'
                " The two effects of the scheduler child's cancel handler are applied in the order the real code produces them; cancel requests against the raptor backlog (every subset of three neighbours) and separate back-to-back requests are included.",
  'note'      : 'A pending cancel delivery is dropped from the state once the '
                'named task can no longer reach that component (linear '
                'pipeline).',
 },

 'C09': {
  'engine'    : 'enum',
  'category'  : 'exploration',
  'design_ref': 'DESIGN.md 4 (C09), A.10',
  'technique' : 'exhaustive bounded enumeration of launch methods x placements '
                'x generation histories on the real launchers, commands '
                'interpreted by independent per-method readers',
  'text'      : '41 launcher variants (all launch methods and flavours) are '
                'built through the real LaunchMethod.create/init_from_info; '
                'for 416+ placements (all compositions of 1-4 ranks over 1-3 '
                'nodes, arbitrary core/GPU index sets, placements crossing the '
                'host-list/host-file thresholds) the command and any host/'
                'rank/ERF file are read back by a per-method reader and '
                'compared with the placement (process count, node set, '
                'per-node counts, pinned cores/GPUs); every ordered pair '
                '(thorough: all pairs and triples) of placements on one '
                'launcher object must give the same command as a fresh '
                'launcher; refusals must be honest; find_launcher returns the '
                'first accepting launcher for every shipped order.',
  'note'      : 'The readers encode launcher CLI semantics from the code '
                'comments and the tools documentation (no MPI launcher can be '
                'executed here); 11 keys of 8 root causes are recorded as '
                'known findings (launcher semantics cannot be validated by '
                'execution, so they are not repaired here).',
 },

 'C10': {
  'engine'    : 'enum',
  'category'  : 'exploration',
  'design_ref': 'DESIGN.md 4 (C10)',
  'technique' : 'exhaustive bounded enumeration of task descriptions; the '
                'generated scripts are executed by bash against a probe',
  'text'      : 'For every single value and every pair of values of the '
                'description fields (executable form, argument lists of 12 '
                'shell-hostile atoms alone and in ordered pairs, environment '
                'maps, stdout/stderr names, pre/post_exec lists incl. per-rank '
                'dicts, ranks 1-2, GPUs, sync, exit codes, sandbox location) '
                'the real Popen._handle_task writes launch and exec scripts '
                'and starts them; a probe executable dumps argv/env/cwd; a '
                'stand-in mpirun runs the exec script once per rank.  Oracle: '
                'argv, cwd, described env, RP_* variables, stdout/stderr '
                'files, pre < exec < post order, per-rank entries only on '
                'their rank, failing pre_exec prevents execution, exit code '
                'plumbing; failures are shrunk and attributed to history if a '
                'fresh executor passes.',
  'note'      : '$VAR/back-tick expansion in arguments is a documented feature '
                'and excluded; executable/sandbox paths with spaces, '
                'named_env and OpenMP are outside the alphabet.',
 },

 'C11': {
  'engine'    : 'enum',
  'category'  : 'exploration',
  'design_ref': 'DESIGN.md 4 (C11), A.9',
  'technique' : 'exhaustive bounded enumeration of staging directives through '
                'the four real staging components on a temp file tree',
  'text'      : 'Real Task/expand_description, RoundRobin binding with the '
                'real Session sandbox getters, and the real tmgr/agent '
                'staging_input and staging_output components (each driven '
                'through work_cb() on the in-memory net, local staging '
                'backend) process every single directive of the product '
                '(form x action x source location x target location x source '
                'present/missing), ordered pairs, input+output combinations, '
                'task outcomes x stage_on_error and odd spellings; every bulk '
                'carries a bystander task.  An independent URL resolver '
                'predicts where each target must appear with which content; '
                'unstageable directives must fail that task only.',
  'note'      : 'Directories as sources, DOWNLOAD and pilot-level staging are '
                'outside the alphabet; output-side TARBALL is a recorded known '
                'finding (not implemented in radical.pilot).',
 },

 'C12': {
  'engine'    : 'bfs',
  'category'  : 'model_checking',
  'design_ref': 'DESIGN.md 4 (C12)',
  'technique' : 'explicit-state search (BFS with state merging) over event '
                'histories on the real scheduler handlers, ledger oracle',
  'text'      : 'Bare RoundRobin and Backfilling tmgr schedulers are driven '
                'through their real work_cb()/work(), _control_cb -> '
                'control_cb(add_pilots/remove_pilots) and _base_state_cb '
                '(pilot and task state notifications, singly and in pairs) '
                'for every event history up to depth 6 (thorough 8) over 7 '
                'task sets (named/unnamed pilots, 1/4/8 cores).  A ledger of '
                'added/removed pilots and of pushes to input staging checks: '
                'each task forwarded at most once and as soon as an eligible '
                'pilot exists, named tasks only to their pilot after it was '
                'added, others only to currently added pilots, all sandboxes '
                'set under the pilot sandbox, round-robin spread within a '
                'batch, backfilling eligibility window, high-water mark and '
                'usage figure back to zero.'
                " Thread level (engine B): the worker thread's work() races with the control and state subscriber handlers for every realisable pair after 9 prefixes; end-state clauses which hold for either order, deadlock detection.",
  'note'      : '2 pilots x 4 cores, <= 4 tasks; the pilot-state reference is '
                'the monotone maximum of the notifications sent; exceptions '
                'escaping a handler are treated as the subscriber thread '
                'treats them (logged), their consequences show in the ledger.',
 },

 'C13': {
  'engine'    : 'sched',
  'category'  : 'model_checking',
  'design_ref': 'DESIGN.md 4 (C13), 10.6',
  'technique' : 'exhaustive enumeration of all (binding x state) '
                'configurations and pilot ending orders on the real callback; '
                'stateless model checking of the handler racing with the '
                'state subscriber thread (controlled threads, delay-bounded)',
  'text'      : 'Complete product of (pilot in {p1,p2,none}) x (7 task '
                'states) for three real tasks (thorough: 21^3, quick: 21^2 x 5) '
                'established through the real _update_tasks, x 16 pilot ending '
                'sequences through the real _pilot_state_cb: own non-final '
                'tasks become FAILED naming the pilot, every other task keeps '
                'state/exception, and exactly the changed tasks are published.'
                ' Thread level (engine B): the pilot-end handler races with a task notification applied by the state subscriber thread (delay bound 1, 2 for DONE); sequential orders on the real code are the reference; what is published must agree with the end state.'
                ' Tasks bound by the client side scheduler are driven through the real _assign_pilot()/advance() publications (the client sees what the components really publish); the handler is attached through the real add_pilots() (separate / bulk, with application pilot callbacks which raise or exit) and reached through the real pilot notification path.',
  'note'      : 'Pilots are real Pilot facades whose state is set by the '
                'harness.',
 },

 'C14': {
  'engine'    : 'bfs',
  'category'  : 'model_checking',
  'design_ref': 'DESIGN.md 4 (C14), A.4',
  'technique' : 'explicit-state search (BFS to closure) over the real pilot '
                'notification handlers; exhaustive enumeration of agent '
                'termination cause sequences',
  'text'      : '(a) state = Pilot.state of a real Pilot on a bare '
                'PilotManager, transitions = batches of 1..2 (3) notifications '
                'over {p1, unknown} x 8 states through the real _state_sub_cb '
                '-> _update_pilot -> Pilot._update; graph closed completely; '
                'safety oracle: announcements never go backward, gaps filled, '
                'final never left, Pilot.state equals the last announcement, '
                'unknown pilots have no effect; same sequences through the '
                'tmgr scheduler view.  (b) all sequences of <= 3 events '
                '{lifetime check early/late, cancel this/other pilot, '
                'terminate} on a bare Agent_0 followed by the real finalize(): '
                'killme.signal and the published state name the first cause; '
                'the last stanza of bootstrap_0.sh is executed by bash on the '
                'file.'
                " (c) the real PMGRLaunchingComponent.work() over bulks of 1-3 pilots x failing targets x {launcher, staging} failures; (d) control-thread pilot_activate vs state-thread notification (engine B); (e) the agent's stopping thread vs its work-loop thread (engine B)."
                ' A cancel request which precedes its pilot by more than one bulk is honoured.',
  'note'      : 'A.4 is deliberately weaker than the task automaton (repeats '
                'allowed); the 1900-line bootstrapper is not executed beyond '
                'its last stanza.',
 },

 'C15': {
  'engine'    : 'envdfs',
  'category'  : 'model_checking',
  'design_ref': 'DESIGN.md 4 (C15), A.7',
  'technique' : 'stateless exhaustive exploration of environment choices at '
                'every poll of the real wait loops under a virtual clock',
  'text'      : 'The real Task.wait, Pilot.wait, TaskManager.wait_tasks and '
                'PilotManager.wait_pilots run on bare managers; time.time/'
                'sleep are a virtual clock and every sleep is a choice point '
                '(advance entity k, up to two steps per poll, or let time '
                'pass).  All choice sequences are enumerated for every '
                '(requested states x trajectories x timeout) scenario.  '
                'Oracle: returns within 0.2 s of min(first satisfaction, '
                'timeout), is reported as never returning if still polling '
                '0.5 s later, never returns early, and returns the actual '
                'states.'
                ' A wait call next to the notification thread whose application callback does not return (engine B): the wait call must still return.',
  'note'      : 'Entity states are set by the harness along prefix-closed '
                'trajectories of a reduced state chain; "reached" follows the '
                'linear state model (a later state implies the earlier was '
                'reached), as wait_tasks documents.',
 },

 'C16': {
  'engine'    : 'bfs',
  'category'  : 'model_checking',
  'design_ref': 'DESIGN.md 4 (C16), A.8',
  'technique' : 'explicit-state search over all delivery orders of an '
                'in-memory pubsub network running the real forwarder closures',
  'text'      : 'For one client and 1-2 (thorough 3) pilots a bare Session per '
                'side runs the REAL Session._crosswire_proxy(); the resulting '
                'pubsub_fwd closures are wired to an in-memory network with one '
                'FIFO per (publisher, subscriber) pair.  For every history of '
                '1-2 messages over (control|state) x originating side x fwd '
                '{absent, False, True} x origin {absent, self, other side, '
                'unknown} BFS explores every delivery order; per-side '
                'application delivery counts must equal the reference (every '
                'other side exactly once iff forwarded, never twice, never back '
                'to the origin) in every state and at quiescence; the search '
                'must close (no circulation).'
                ' Forwarder callback errors are swallowed as the subscriber thread does; messages entering through the real Agent_0.command_port() are part of the alphabet.',
  'note'      : 'Reliable FIFO delivery per publisher/subscriber pair; message '
                'loss, ZMQ slow joiners and the real proxy service are outside.',
 },

 'C17': {
  'engine'    : 'enum',
  'category'  : 'exploration',
  'design_ref': 'DESIGN.md 4 (C17), A.11',
  'technique' : 'exhaustive enumeration of all shipped configurations x '
                'schemas x a bounded grid of pilot sizes through the real '
                'resolution and sizing code against plain arithmetic',
  'text'      : 'All 63 shipped platforms x all their access schemas go '
                'through the real Session.get_resource_config; resource '
                'manager, launch methods (and order), agent scheduler, spawner '
                'and agent config are resolved by calling the real factories '
                'with constructors stubbed; every pilot size of a grid (nodes, '
                'or cores around node-size boundaries x GPUs, backup nodes, '
                'SMT incl. RADICAL_SMT) goes through the real '
                '_start_pilot_bulk/_prepare_pilot and the job description and '
                'written agent_0.cfg are compared with independent integer '
                'arithmetic on the raw config values.'
                " Every (platform, schema) pair is also resolved after every other schema in a long-lived session and compared with a fresh session; the job descriptions are turned into PSI/J jobs by the real launcher up to submission; the agent's per-node figures are checked.",
  'note'      : 'Stops at the job description (no batch submission); shell '
                'expansion of workdir strings is treated as environment.',
 },

 'C18': {
  'engine'    : 'enum',
  'category'  : 'exploration',
  'design_ref': 'DESIGN.md 4 (C18)',
  'technique' : 'exhaustive bounded enumeration of allocations, node-file '
                'shapes, agent layouts and reachability answers on the real '
                'resource managers against an independent model',
  'text'      : 'Every case creates the real ResourceManager (SLURM, PBSPRO, '
                'TORQUE, LSF, COBALT, FORK, CCM) through ResourceManager.create '
                'in a temp cwd with a generated environment and node file, an '
                'in-memory registry and a fake reachability probe, over two '
                'complete products: presentation x hardware (1-4 hosts, lines '
                'per node/core/thread, grouped/interleaved, SLURM expressions, '
                'LSF pseudo nodes, exec_vnode, cores 2-4, SMT 1-2, GPUs 0-2, '
                'blocked cores/GPUs) and layout (requested nodes, backup nodes '
                'with all 3^n probe answers, 0-2 node sub-agents, services).  '
                'Oracle: one entry per usable allocated node, unique indices, '
                'configured cores/GPUs with exactly the blocked ones DOWN, '
                'disjoint from agent/service lists of configured size, '
                '1..requested entries; a second instance built from the '
                'registry entry has an equal info.',
  'note'      : 'Refusals (raise) are legitimate outcomes and only checked '
                'for offering nothing; hand-written expansions of SLURM node '
                'list expressions are trusted; qstat answers are an '
                'environment choice.',
 },

 'C19': {
  'engine'    : 'enum',
  'category'  : 'exploration',
  'design_ref': 'DESIGN.md 4 (C19), 3.3',
  'technique' : 'exhaustive bounded enumeration of inputs on the real code '
                'against an independent reference (bounded model checking of '
                'a sequential library: all inputs of a finite alphabet)',
  'text'      : 'Every description of a finite alphabet is pushed through the '
                'real TaskDescription/PilotDescription verify(), as_dict(), '
                'constructor and msgpack: all 2^13 subsets of deprecated '
                'attributes x replacement set/unset, every task mode x '
                'required attribute present/absent; every function kind x '
                'argument form x encoder through PythonTask/get_func_attr as '
                'the worker calls it; every slot list over 4 resource '
                'notations through convert_slots_to_new/old and Slot().  The '
                'space is enumerated completely, which is what the '
                '"for every description" quantifier needs and a handful of '
                'unit tests cannot give.'
                ' Legal values of 40 attributes survive verify() unchanged; a changed description verifies like a fresh one; function tasks carry the callable as it is at encoding time; reserved keyword names.'
                ' Slot lists which mix converted and unconverted slots are converted slot by slot.',
  'note'      : 'Trusted: the reference tables (deprecated->replacement, '
                'required attribute per mode) transcribed from the '
                'TaskDescription documentation; equality of descriptions is '
                'equality of as_dict(); values outside the alphabet are not '
                'covered.',
 },
 'C20': {
  'engine'    : 'sched',
  'category'  : 'model_checking',
  'design_ref': 'DESIGN.md 4 (C20), 10.8',
  'technique' : 'stateless model checking of the real raptor worker threads '
                'and fake worker processes under the controlled scheduler '
                '(delay-bounded); exhaustive enumeration for master routing, '
                'scheduler forwarding and dispatchers',
  'text'      : '(a) The real DefaultWorker._request_cb/_alloc/_dealloc/'
                '_result_watcher/_result_cb/_dispatch/_worker_proc run as '
                'controlled threads; mp.Process becomes a fake process with '
                'its own pid/environ/cwd running the real target on a deep '
                'copy; every schedule within the deviation bound is executed '
                'for 624 (thorough 1965) workloads (1-3 requests, demands up '
                'to the worker size, payloads ok/fail/raise/hang+timeout/'
                'finish-near-timeout/process dies/fork fails, one or two '
                'request streams): slots of concurrently running requests '
                'are disjoint and inside the allotment, one truthful result '
                'per accepted request, resources and pool empty at '
                'quiescence, watcher alive.  (b) Master routing by mode, '
                '_result_cb exit-code -> target state, round trips in every '
                'return order; scheduler raptor forwarding over all event '
                'sequences (register/unregister/cancel/arrivals).  (c) all '
                'singles and pairs of 112 request payloads through the real '
                'per-mode dispatchers: (out, err, ret, val, exc) truthful, '
                'process environment (libc environ, confirmed by a child) '
                'and stdio restored before the next request.'
                " The base environment of proc/shell requests is restored; cancel requests against the scheduler's raptor backlog.",
  'note'      : 'Fake processes are preempted at synchronisation operations '
                '(line-level only in one-request scenarios); oversize demands '
                'are outcomes, not clauses; MPI workers are not explored.',
 },
}

NOT_APPLICABLE = {
}
