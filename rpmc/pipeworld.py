'''
Pipeline world (DESIGN.md 4, C05/C08): the real client and agent components,
bare, wired by the in-memory net, each driven through its real work_cb() /
handler as one atomic step.  Worlds are cloned with copy.deepcopy (engine A).

  TaskManager.submit_tasks -> RoundRobin -> tmgr staging_input ->
  Agent_0._proxy_input_cb -> agent staging_input -> agent scheduler
  (component process + two iterations of the real _schedule_tasks loop) ->
  Popen executor (work_cb, one _check_running pass, control_cb) ->
  agent staging_output -> Agent_0._proxy_output_cb -> tmgr staging_output ->
  TaskManager._state_sub_cb

State notifications to the client do not feed back into the pipeline; they are
buffered per publisher and all their delivery orders are explored separately
at quiescence (`client_outcomes`).
'''

import os
import sys
import copy
import queue
import copyreg
import threading

import radical.utils as ru

from . import seams, net, schedworld as sw

rp = seams.import_rp()

from radical.pilot import states    as rps                         # noqa: E402
from radical.pilot import constants as rpc                         # noqa: E402
from radical.pilot.agent import agent_0 as a0mod                   # noqa: E402
from radical.pilot.agent.scheduler  import base as sbase            # noqa: E402
from radical.pilot.agent.scheduler.continuous import Continuous    # noqa: E402

from checks import c11_staging  as c11                             # noqa: E402
from checks import c07_executor as c07                             # noqa: E402

# fresh locks / events when a world is deep-copied
copyreg.pickle(type(threading.Lock()),  lambda l: (threading.Lock,  ()))
copyreg.pickle(type(threading.RLock()), lambda l: (threading.RLock, ()))

SID, PID = c11.SID, c11.PID
PROXY_IN  = '%s/%s' % (rpc.PROXY_TASK_QUEUE, PID)
PROXY_OUT = '%s/%s' % (rpc.PROXY_TASK_QUEUE, SID)

# pipeline position of the component which owns each input queue
CHAIN = ['tmgr_sched', 'tmgr_in', 'a0_in', 'agent_in', 'sched', 'loop',
         'exec', 'agent_out', 'a0_out', 'tmgr_out']


class LoopStop(BaseException):
    pass


class LoopTerm(object):
    '''_term of the scheduler process: stop after n outer iterations'''

    def __init__(self):
        self.left = 0

    def is_set(self):
        if sys._getframe(1).f_code.co_name == '_schedule_tasks':
            if self.left <= 0:
                return True
            self.left -= 1
        return False

    def set(self):
        pass


class PlainQueue(object):
    '''mp.Queue stand-in without choice points'''

    def __init__(self):
        self.items = list()

    def put(self, x):
        import pickle
        self.items.append(pickle.loads(pickle.dumps(x)))

    def get(self, timeout=None):
        if not self.items:
            raise queue.Empty()
        return self.items.pop(0)


class _NoSched(object):
    def bump(self, *a, **kw): pass
    def block_until(self, pred):
        assert pred(), 'process wait would block'


# client observations per (task, buffered notifications): many quiescent
# states of a scenario hold the same notifications for a task
_client_cache = dict()


class ProcHost(object):
    '''what the process / launcher fakes of c07_executor expect of a world'''

    def __init__(self, scn):
        self.scn   = scn
        self.procs = dict()
        self.sched = _NoSched()


class Pipe(c11.World):

    def __init__(self, root, scn):

        self.scn = scn
        super().__init__(root)
        n = self.net
        n.auto = False
        net.bridges(n.reg,
                    queues =[rpc.AGENT_EXECUTING_QUEUE],
                    pubsubs=[rpc.AGENT_UNSCHEDULE_PUBSUB])

        s = self.session

        def comp(cls, uid):
            c = seams.bare(cls, uid=uid)
            c._session = s
            c._reg     = n.reg
            c._cfg     = ru.Config(from_dict={'owner': self.tm.uid, 'sid': SID,
                                              'pid': PID})
            c.register_publisher(rpc.STATE_PUBSUB)
            c.register_publisher(rpc.CONTROL_PUBSUB)
            return c

        # -- Agent_0 proxy callbacks -----------------------------------------
        a0 = comp(a0mod.Agent_0, 'agent_0')
        a0._pid, a0._sid = PID, SID
        s._rcfg = ru.Config(from_dict={'new_session_per_task': True,
                                      'scattered': True})
        a0.register_output(rps.AGENT_STAGING_INPUT_PENDING,
                           rpc.AGENT_STAGING_INPUT_QUEUE)
        a0.register_output(rps.TMGR_STAGING_OUTPUT_PENDING,
                           rpc.PROXY_TASK_QUEUE)
        self.a0 = a0

        # -- agent scheduler: component process + scheduler process ----------
        rm = sw.make_rm(scn['layout'])
        self.rm      = rm
        self.initial = copy.deepcopy(rm.info.node_list)
        self.q_sched, self.q_unsched = PlainQueue(), PlainQueue()

        def mk_sched(uid):
            o = comp(Continuous, uid)
            o._rm            = rm
            o._partition_ids = list()
            o._waitpool      = sbase.defaultdict(dict)
            o._ts_map        = sbase.defaultdict(set)
            o._ts_valid      = False
            o._active_cnt    = 0
            o._named_envs    = list()
            o._queue_sched   = self.q_sched
            o._queue_unsched = self.q_unsched
            o._scheduler_process = False
            o.nodes          = copy.deepcopy(rm.info.node_list)
            o._colo_history  = dict()
            o._tagged_nodes  = set()
            o._scattered     = None
            o._node_offset   = 0
            o._configure()
            return o

        self.sched_parent = mk_sched('agent_scheduling.0000')
        self.sched_parent.register_input(rps.AGENT_SCHEDULING_PENDING,
                                         rpc.AGENT_SCHEDULING_QUEUE,
                                         self.sched_parent.work)
        self.sched_child = mk_sched('agent_scheduling.0000')
        self.sched_child._term = LoopTerm()
        self.loop_started = False

        # -- executor ----------------------------------------------------------
        lm = c07.Fork.__new__(c07.Fork)
        lm._log, lm._prof, lm.name = seams.null(), seams.null(), 'FORK'
        ex = comp(c07.Popen, 'agent_executing.0000')
        self.prochost   = ProcHost(scn)
        ex._rm          = c07.FakeRM(self.prochost, lm)
        ex._tasks       = dict()
        ex._check_lock  = seams.NoLock()
        ex._to_lock     = seams.NoLock()
        ex._watch_queue = queue.Queue()
        ex._to_tasks    = list()
        ex.register_publisher(rpc.AGENT_UNSCHEDULE_PUBSUB)
        ex.register_input(rps.AGENT_EXECUTING_PENDING,
                          rpc.AGENT_EXECUTING_QUEUE, ex.work)
        ex.register_output(rps.AGENT_STAGING_OUTPUT_PENDING,
                           rpc.AGENT_STAGING_OUTPUT_QUEUE)

        def mk_script(kind):
            def create(launcher, task, *a):
                if scn.get('fault') == kind and \
                   task['uid'] == scn.get('fault_uid'):
                    raise RuntimeError('cannot write %s script (injected)'
                                       % kind)
                p = '%s/%s.%s.sh' % (task['task_sandbox_path'], task['uid'],
                                     kind)
                return p, p
            return create
        ex._create_exec_script   = mk_script('exec')
        ex._create_launch_script = mk_script('launch')
        self.ex       = ex
        self.procs    = self.prochost.procs
        self.to_watch = list()

        # -- subscriptions -----------------------------------------------------
        self.fault_bulk   = set()        # uids of a bulk whose worker raised
        self.client_fifos = dict()       # pub_id -> [state messages]
        self.ctl_pending  = dict()       # component name -> [messages]
        self.unsched_fifo = list()

        self.my_subs = set()
        for ch in (rpc.STATE_PUBSUB, rpc.AGENT_UNSCHEDULE_PUBSUB,
                   rpc.CONTROL_PUBSUB):
            sub = ru.zmq.Subscriber(ch)
            sub.subscribe(ch, cb=None)
            self.my_subs.update(sub.sub_ids)

        # a second pilot whose agent is outside this world: what is handed
        # to it leaves the world at the proxy queue
        self.sink = '%s/%s' % (rpc.PROXY_TASK_QUEUE, 'pilot.0001')
        if scn.get('pilots', 1) > 1:
            p2 = copy.deepcopy(self.pilot)
            p2['uid'] = 'pilot.0001'
            p2['pilot_sandbox'] = ''
            p2['pilot_sandbox'] = str(s._get_pilot_sandbox(p2))
            msg = {'cmd': 'add_pilots', 'arg': {'pilots': [seams.wire(p2)],
                                                'tmgr'  : self.tm.uid}}
            self.sched  .control_cb(rpc.CONTROL_PUBSUB, seams.wire(msg))
            self.tmgr_in.control_cb(rpc.CONTROL_PUBSUB, seams.wire(msg))

        self.n_fifo      = 0
        self.cancel_sent = False
        self.submitted   = list()
        self.history     = list()

    # ----------------------------------------------------------------------
    CTL_TARGETS = ['tmgr_sched', 'tmgr_in', 'agent_in', 'sched', 'loop', 'exec',
                   'agent_out', 'tmgr_out']

    def component(self, name):
        return {'tmgr_sched': self.sched, 'tmgr_in': self.tmgr_in,
                'agent_in': self.agent_in, 'sched': self.sched_parent,
                'loop': self.sched_child, 'exec': self.ex,
                'agent_out': self.agent_out, 'tmgr_out': self.tmgr_out,
                'a0_in': self.a0, 'a0_out': self.a0}[name]

    def activate(self):
        '''make this world the target of the module-level seams'''
        self.net.activate()
        c07.FakeProc.procs = {p.pid: p for p in self.procs.values()}
        c07.popen_mod.sp   = c07.FakeSP(self.prochost)
        c07.lm_base.os     = c07.FakeOS()
        clock = sw.FakeTime()
        c07.popen_mod.time = c07.exec_base.time = c07.lm_base.time = clock
        sbase.time         = clock
        ru.PWatcher        = sw.FakePWatcher
        return self

    # ----------------------------------------------------------------------
    def collect_pubsub(self):
        '''sort newly published messages into the harness' FIFOs'''
        for key in self.net.pending():
            channel, pub_id, sub_id = key
            while self.net.fifos[key]:
                topic, msg = self.net.fifos[key].pop(0)
                if sub_id not in self.my_subs:
                    continue       # subscriptions made by the components
                if channel == rpc.STATE_PUBSUB:
                    self.client_fifos.setdefault(pub_id, list()).append(msg)
                elif channel == rpc.AGENT_UNSCHEDULE_PUBSUB:
                    self.unsched_fifo.append(msg)
                elif channel == rpc.CONTROL_PUBSUB:
                    if msg.get('cmd') == 'cancel_tasks':
                        for name in self.CTL_TARGETS:
                            self.ctl_pending.setdefault(name,
                                                        list()).append(msg)

    # ----------------------------------------------------------------------
    def qlen(self, qname):
        return len(self.net.queues.get(qname) or [])

    def enabled(self):
        ev  = list()
        scn = self.scn
        if len(self.submitted) < len(scn['tasks']):
            nxt = scn['tasks'][len(self.submitted)]
            after = nxt.get('after')
            if after is None or self.task_gone(after):
                ev.append(('submit',))
        if self.qlen(rpc.TMGR_SCHEDULING_QUEUE)     : ev.append(('q', 'tmgr_sched'))
        if self.qlen(rpc.TMGR_STAGING_INPUT_QUEUE)  : ev.append(('q', 'tmgr_in'))
        if self.qlen(PROXY_IN)                       : ev.append(('q', 'a0_in'))
        if self.qlen(rpc.AGENT_STAGING_INPUT_QUEUE) : ev.append(('q', 'agent_in'))
        if self.qlen(rpc.AGENT_SCHEDULING_QUEUE)    : ev.append(('q', 'sched'))
        if self.q_sched.items or self.q_unsched.items: ev.append(('loop',))
        if self.qlen(rpc.AGENT_EXECUTING_QUEUE)     : ev.append(('q', 'exec'))
        if self.qlen(rpc.AGENT_STAGING_OUTPUT_QUEUE): ev.append(('q', 'agent_out'))
        if self.qlen(rpc.AGENT_COLLECTING_QUEUE)    : ev.append(('q', 'a0_out'))
        if self.qlen(PROXY_OUT)                      : ev.append(('q', 'tmgr_out'))
        # the queue bridge buffers single things and serves up to a bulk of
        # them per request: two separate puts may arrive as one bulk
        QN = {'tmgr_sched': rpc.TMGR_SCHEDULING_QUEUE,
              'tmgr_in'   : rpc.TMGR_STAGING_INPUT_QUEUE,
              'agent_in'  : rpc.AGENT_STAGING_INPUT_QUEUE,
              'sched'     : rpc.AGENT_SCHEDULING_QUEUE,
              'exec'      : rpc.AGENT_EXECUTING_QUEUE,
              'agent_out' : rpc.AGENT_STAGING_OUTPUT_QUEUE,
              'tmgr_out'  : PROXY_OUT}
        for name in scn.get('merge_at') or []:
            if self.qlen(QN[name]) >= 2:
                ev.append(('qq', name))
        if not self.ex._watch_queue.empty() or \
           any(t.get('proc') is not None and t['proc'].code is not None
               for t in self.to_watch):
            ev.append(('watch',))
        for uid, p in sorted(self.procs.items()):
            if p.code is None:
                code = scn['exit'].get(uid)
                if code is not None:
                    ev.append(('exit', uid, code))
        if self.unsched_fifo:
            ev.append(('unsched',))
        if scn.get('cancel') and not self.cancel_sent and self.submitted:
            ev.append(('cancel',))
        for name in self.CTL_TARGETS:
            if self.ctl_pending.get(name):
                ev.append(('ctl', name))
        return ev

    def sunk(self, uid):
        '''handed over to the pilot whose agent is outside this world'''
        return any(t['uid'] == uid for bulk in
                   self.net.queues.get(self.sink) or [] for t in bulk)

    def task_gone(self, uid):
        '''the task left the pipeline (final hand-back or final state)'''
        if uid not in self.submitted:
            return False
        return self.position(uid) is None

    # ----------------------------------------------------------------------
    def apply(self, ev):
        self.history.append(ev)
        kind = ev[0]
        if kind == 'submit':
            # tasks marked `with_next` are submitted in one call with their
            # successor (one bulk travelling through the pipeline)
            tds = list()
            while True:
                spec = self.scn['tasks'][len(self.submitted)]
                d = dict(executable='/bin/true', uid=spec['uid'])
                d.update(spec.get('descr', {}))
                sbx = self.task_sbx(spec['uid'])
                os.makedirs(sbx['task'], exist_ok=True)
                self.submitted.append(spec['uid'])
                tds.append(rp.TaskDescription(d))
                if not spec.get('with_next'):
                    break
            self.tm.submit_tasks(tds)
        elif kind == 'q':
            name = ev[1]
            if name == 'a0_in':
                self.a0._proxy_input_cb(self.net.q_get(PROXY_IN))
            elif name == 'a0_out':
                self.a0._proxy_output_cb(
                                   self.net.q_get(rpc.AGENT_COLLECTING_QUEUE))
            else:
                self.work_cb(name)
        elif kind == 'qq':
            QN = {'tmgr_sched': rpc.TMGR_SCHEDULING_QUEUE,
                  'tmgr_in'   : rpc.TMGR_STAGING_INPUT_QUEUE,
                  'agent_in'  : rpc.AGENT_STAGING_INPUT_QUEUE,
                  'sched'     : rpc.AGENT_SCHEDULING_QUEUE,
                  'exec'      : rpc.AGENT_EXECUTING_QUEUE,
                  'agent_out' : rpc.AGENT_STAGING_OUTPUT_QUEUE,
                  'tmgr_out'  : PROXY_OUT}
            q = self.net.queues[QN[ev[1]]]
            q[0:2] = [q[0] + q[1]]
            self.work_cb(ev[1])
        elif kind == 'loop':
            c = self.sched_child
            c._term.left = 2
            c._schedule_tasks()
        elif kind == 'watch':
            ex = self.ex
            try:
                while True:
                    self.to_watch.append(ex._watch_queue.get_nowait())
            except queue.Empty:
                pass
            ex._check_running(self.to_watch)
        elif kind == 'exit':
            self.procs[ev[1]].exit(ev[2])
        elif kind == 'unsched':
            self.sched_parent.unschedule_cb(rpc.AGENT_UNSCHEDULE_PUBSUB,
                                            seams.wire(self.unsched_fifo.pop(0)))
        elif kind == 'cancel':
            self.cancel_sent = True
            self.tm.cancel_tasks(list(self.scn['cancel']))
        elif kind == 'ctl':
            msg = self.ctl_pending[ev[1]].pop(0)
            self.component(ev[1])._control_cb(rpc.CONTROL_PUBSUB,
                                              seams.wire(msg))
        else:
            raise ValueError(ev)
        self.collect_pubsub()
        self.purge()

    def work_cb(self, name):
        '''one work_cb() pass; fault `raise:<name>` makes the work routine
        raise for a bulk which contains the faulty task'''
        c = self.component(name)
        f = self.scn.get('fault') or ''
        if f == 'raise:%s' % name:
            qname = {'tmgr_sched': rpc.TMGR_SCHEDULING_QUEUE,
                     'tmgr_in': rpc.TMGR_STAGING_INPUT_QUEUE,
                     'agent_in': rpc.AGENT_STAGING_INPUT_QUEUE,
                     'sched': rpc.AGENT_SCHEDULING_QUEUE,
                     'exec': rpc.AGENT_EXECUTING_QUEUE,
                     'agent_out': rpc.AGENT_STAGING_OUTPUT_QUEUE,
                     'tmgr_out': PROXY_OUT}[name]
            head = (self.net.queues.get(qname) or [[]])[0]
            if any(t['uid'] == self.scn.get('fault_uid') for t in head):
                saved = dict(c._workers)
                # a failing work routine fails its whole bulk
                self.fault_bulk = self.fault_bulk | \
                                  set(t['uid'] for t in head)

                def bad(things):
                    raise RuntimeError('injected work() failure')
                for k in c._workers:
                    c._workers[k] = bad
                try:
                    c.work_cb()
                finally:
                    c._workers.clear()
                    c._workers.update(saved)
                return
        c.work_cb()

    # ----------------------------------------------------------------------

    def position(self, uid):
        '''index in CHAIN of the component which will next see the task, or
        None if it left the pipeline'''
        qs = [(rpc.TMGR_SCHEDULING_QUEUE, 0), (rpc.TMGR_STAGING_INPUT_QUEUE, 1),
              (PROXY_IN, 2), (rpc.AGENT_STAGING_INPUT_QUEUE, 3),
              (rpc.AGENT_SCHEDULING_QUEUE, 4), (rpc.AGENT_EXECUTING_QUEUE, 6),
              (rpc.AGENT_STAGING_OUTPUT_QUEUE, 7),
              (rpc.AGENT_COLLECTING_QUEUE, 8), (PROXY_OUT, 9)]
        for qname, pos in qs:
            for bulk in self.net.queues.get(qname) or []:
                if any(t['uid'] == uid for t in bulk):
                    return pos
        for data, flag in self.q_sched.items:
            if flag == self.sched_child._SCHEDULE and \
               any(t['uid'] == uid for t in data):
                return 5
        for pool in self.sched_child._waitpool.values():
            if uid in pool:
                return 5
        if uid in self.ex._tasks or any(t['uid'] == uid
                                         for t in self.to_watch
                                         if t.get('proc') is not None):
            return 6
        for t in getattr(self.sched, '_wait_pool', []) or []:
            if t['uid'] == uid:
                return 0
        return None

    def relevant_fn(self):
        pos   = {uid: self.position(uid) for uid in self.submitted}
        named = set(self.scn.get('cancel') or [])

        def relevant(idx):
            # a cancel request matters for a component only while a named
            # task can still reach it (the pipeline is linear: a component
            # never sees a task again)
            return any(pos[u] is not None and pos[u] <= idx
                       for u in named if u in pos) or \
                   any(u not in self.submitted for u in named)
        return relevant

    def purge(self):
        '''drop pending cancel deliveries which cannot matter any more, so
        that a state equals its canonical form'''
        relevant = self.relevant_fn()
        for name in self.CTL_TARGETS:
            if self.ctl_pending.get(name) and \
               not relevant(CHAIN.index(name)):
                self.ctl_pending[name] = list()

    def canon(self):
        n = self.net
        named = set(self.scn.get('cancel') or [])
        relevant = self.relevant_fn()

        def clist(name):
            c = self.component(name)
            if not relevant(CHAIN.index(name)):
                return ()
            return tuple(sorted(set(c._cancel_list) & named))

        queues = tuple((q, tuple(tuple((t['uid'], t['state'],
                                        t.get('target_state'))
                                       for t in bulk) for bulk in bulks))
                       for q, bulks in sorted(n.queues.items()) if bulks)
        c = self.sched_child
        sched = (tuple((tuple(x['cores']), tuple(x['gpus'])) for x in c.nodes),
                 tuple(sorted((p, tuple(pool)) for p, pool
                              in c._waitpool.items() if pool)),
                 c._active_cnt, repr(self.q_sched.items),
                 tuple(t['uid'] for x in self.q_unsched.items
                       for t in ru.as_list(x)))
        ex = (tuple(sorted(self.ex._tasks)),
              tuple(sorted((u, p.code) for u, p in self.procs.items())),
              tuple(t['uid'] for t in self.to_watch
                    if t.get('proc') is not None),
              self.ex._watch_queue.qsize())
        ctl = tuple((name, len(self.ctl_pending.get(name) or []))
                    for name in self.CTL_TARGETS
                    if self.ctl_pending.get(name) and
                       relevant(CHAIN.index(name)))
        client = tuple(sorted((pub, tuple((t['uid'], t['state'])
                                          for m in msgs
                                          for t in ru.as_list(m['arg'])))
                              for pub, msgs in self.client_fifos.items()))
        return (queues, sched, ex, ctl,
                tuple(clist(name) for name in self.CTL_TARGETS),
                tuple(t['uid'] for m in self.unsched_fifo
                      for t in ru.as_list(m)),
                client, len(self.submitted), self.cancel_sent,
                tuple(sorted(self.fault_bulk)))

    # ----------------------------------------------------------------------
    def client_outcomes(self, limit=200000, drops=1):
        '''
        all delivery orders (across publishers, FIFO per publisher) of the
        buffered state notifications to the TaskManager.  Notifications for
        different tasks act on different Task objects and commute, so the
        orders are enumerated per task.  The state channel may lose messages
        (that is why the client fills in skipped states): up to `drops`
        non-final notifications per task are dropped, at every position (messages naming several tasks are
        split; batch effects are C06's subject).  Returns a set of
        (finals, log) observations where finals = ((uid, state, exit_code,
        has_exception), ...) and log = ((uid, announced state), ...).
        '''
        tm = copy.deepcopy(self.tm)
        per_uid = dict()
        for uid in tm._tasks:
            results = set()
            fifos = list()
            for pub in sorted(self.client_fifos):
                msgs = list()
                for m in self.client_fifos[pub]:
                    for t in ru.as_list(m['arg']):
                        if t.get('uid') == uid and t.get('type') == 'task':
                            msgs.append({'cmd': 'update', 'arg': [t]})
                if msgs:
                    fifos.append(msgs)
            task = tm._tasks[uid]
            ckey = (uid, task.state, drops, repr(fifos))
            if ckey in _client_cache:
                per_uid[uid] = _client_cache[ckey]
                continue
            log  = list()
            tm._callbacks[rpc.TASK_STATE]['*'] = {
                0: {'cb': lambda t, s: log.append(s), 'cb_data': None}}
            seen = set()
            n    = [0]

            def rec(pos, dropped=0):
                key = (pos, task.state, tuple(log), dropped)
                if key in seen:
                    return
                seen.add(key)
                n[0] += 1
                if n[0] > limit:
                    raise OverflowError('client delivery orders')
                done = True
                for i, f in enumerate(fifos):
                    if pos[i] < len(f):
                        done  = False
                        snap  = dict(task.__dict__)
                        info  = copy.deepcopy(tm._task_info.get(uid))
                        nlog  = len(log)
                        try:
                            tm._state_sub_cb(rpc.STATE_PUBSUB,
                                             seams.wire(f[pos[i]]))
                        except Exception as e:
                            log.append('exception:%r' % e)
                        rec(pos[:i] + (pos[i] + 1,) + pos[i + 1:], dropped)
                        task.__dict__.clear()
                        task.__dict__.update(snap)
                        tm._task_info[uid] = info
                        del log[nlog:]
                        if dropped < drops and \
                           f[pos[i]]['arg'][0]['state'] not in rps.FINAL:
                            # this notification never arrives
                            rec(pos[:i] + (pos[i] + 1,) + pos[i + 1:],
                                dropped + 1)
                if done:
                    results.add(((uid, task.state, task.exit_code,
                                  task.exception is not None), tuple(log)))

            rec(tuple(0 for _ in fifos))
            per_uid[uid] = results
            _client_cache[ckey] = results

        # combine: one observation per combination would multiply; the oracle
        # is per task, so return per-task observations padded to the common
        # format
        outs = set()
        for uid, results in per_uid.items():
            for fin, log in results:
                outs.add(((fin,), tuple((uid, s) for s in log)))
        return outs
