'''
Seams shared by all harnesses: importing radical.pilot from /repo's working
tree, no-op logger/profiler, in-memory channels, bare component construction.
'''

import os
import sys
import copy
import itertools
import multiprocessing as mp


REPO = os.environ.get('RPMC_REPO', '/repo')

_rp = None


# ------------------------------------------------------------------------------
#
def import_rp():
    '''
    `import radical.pilot` raises in a source checkout (no VERSION file, see
    DESIGN.md 2.4).  Wrap `ru.get_version` with a fallback *before* importing.
    '''
    global _rp
    if _rp is not None:
        return _rp

    src = os.path.join(REPO, 'src')
    if src not in sys.path:
        sys.path.insert(0, src)

    import radical.utils as ru

    orig = ru.get_version
    if not getattr(orig, '_rpmc', False):
        def get_version(paths=None):
            try:
                return orig(paths)
            except RuntimeError:
                return ('0.0.0', '0.0.0', 'verif', 'verif', '0.0.0-verif')
        get_version._rpmc = True
        ru.get_version = get_version

    import radical.pilot as rp

    path = os.path.realpath(rp.__file__)
    assert path.startswith(os.path.realpath(REPO) + os.sep), \
           'radical.pilot imported from %s, not from %s' % (path, REPO)

    _rp = rp
    return rp


# ------------------------------------------------------------------------------
#
class NullLog(object):
    '''no-op logger / profiler / reporter; shared by reference on deepcopy'''

    _debug_level = 0
    enabled      = False
    num_warnings = 0

    def __getattr__(self, name):
        if name.startswith('__'):
            raise AttributeError(name)
        return self._noop

    def _noop(self, *args, **kwargs):
        return None

    def __deepcopy__(self, memo):
        return self

    def __copy__(self):
        return self

    def __bool__(self):
        return True

    def __reduce__(self):
        return (_null, ())


_NULL = NullLog()


def _null():
    return _NULL


def null():
    return _NULL


# ------------------------------------------------------------------------------
#
def wire(x):
    '''what a receiver sees after the message went through ZMQ (msgpack)'''
    import radical.utils as ru
    return ru.from_msgpack(ru.to_msgpack(x))


class NoLock(object):
    '''lock stand-in for single-threaded (engine A / C) harnesses'''

    def acquire(self, *a, **kw): return True
    def release(self): pass
    def __enter__(self): return self
    def __exit__(self, *a): return False
    def __deepcopy__(self, memo): return self
    def locked(self): return False


class Queue(object):
    '''
    in-memory stand-in for ru.zmq.Putter/Getter on one queue: FIFO of bulks.
    `put` copies through msgpack, as ZMQ would.
    '''

    def __init__(self, name='q', log=None):
        self.name    = name
        self.channel = name
        self.bulks   = list()
        self.log     = log     # optional list collecting (name, things)

    def put(self, things, qname=None):
        if not isinstance(things, list):
            things = [things]
        things = wire(things)
        self.bulks.append(things)
        if self.log is not None:
            self.log.append((self.name, copy.deepcopy(things)))

    def get_nowait(self, qname=None, timeout=None):
        if self.bulks:
            return self.bulks.pop(0)
        return []

    def get(self, qname=None, timeout=None):
        return self.get_nowait()

    def stop(self):
        pass

    def __len__(self):
        return len(self.bulks)


class Pub(object):
    '''
    in-memory stand-in for ru.zmq.Publisher: records (topic, msg) after a
    msgpack round trip.  Delivery to subscribers is done by the harness.
    '''

    def __init__(self, name='pubsub'):
        self.name = name
        self.msgs = list()

    def put(self, topic, msg):
        import radical.utils as ru
        if isinstance(msg, ru.TypedDict):
            msg = msg.as_dict()
        self.msgs.append((topic, wire(msg)))

    def drain(self):
        ret, self.msgs = self.msgs, list()
        return ret


# ------------------------------------------------------------------------------
#
def bare(cls, **attrs):
    '''
    construct a component without running its constructor -- what the
    project's own unit tests do with mock.patch.object(Cls, '__init__')
    '''
    import threading as mt

    obj = cls.__new__(cls)
    obj._log         = _NULL
    obj._prof        = _NULL
    obj._uid         = attrs.pop('uid', cls.__name__.lower() + '.0000')
    obj._cancel_list = list()
    obj._cancel_lock = attrs.pop('cancel_lock', None) or NoLock()
    obj._outputs     = dict()
    obj._publishers  = dict()
    obj._inputs      = dict()
    obj._workers     = dict()
    obj._subscribers = dict()
    obj._threads     = dict()
    obj._cb_lock     = NoLock()
    obj._rpc_lock    = NoLock()
    obj._rpc_reqs    = dict()
    obj._rpc_handlers = dict()
    obj._term        = mt.Event()
    for k, v in attrs.items():
        setattr(obj, k, v)
    return obj


# ------------------------------------------------------------------------------
#
def pmap(func, items, workers, init=None, chunksize=1):
    '''
    map `func` over `items` in `workers` long-lived forked processes and yield
    results in order.  Falls back to in-process for workers <= 1.
    '''
    items = list(items)
    if workers <= 1 or len(items) <= 1:
        if init:
            init()
        for it in items:
            yield func(it)
        return

    ctx = mp.get_context('fork')
    counter = ctx.Value('i', 0)
    cpus    = sorted(os.sched_getaffinity(0))

    def _init():
        # one core per worker: the controlled threads of engine B hand the
        # baton to each other hundreds of times per execution, which is
        # several times cheaper when both ends run on the same core
        if os.environ.get('RPMC_PIN', '1') == '1':
            with counter.get_lock():
                k = counter.value
                counter.value += 1
            try:
                os.sched_setaffinity(0, {cpus[k % len(cpus)]})
            except OSError:
                pass
        if init:
            init()

    with ctx.Pool(min(workers, len(items)), initializer=_init) as pool:
        for res in pool.imap(func, items, chunksize):
            yield res


def product_dicts(**axes):
    keys = list(axes.keys())
    for vals in itertools.product(*[axes[k] for k in keys]):
        yield dict(zip(keys, vals))
