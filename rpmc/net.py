'''
In-memory replacement for the ZMQ layer (ru.zmq.Putter/Getter/Publisher/
Subscriber/RegistryClient).  `install()` patches the names on `ru.zmq`; the
fakes resolve against the *current* `Net` (set with `Net.activate()`), so that
real `register_input/output/publisher/subscriber` code runs unchanged.

Every message is copied through msgpack (`seams.wire`), as ZMQ would.
'''

import radical.utils as ru

from . import seams

_current = None
_installed = False


# ------------------------------------------------------------------------------
#
class Net(object):

    def __init__(self):
        self.queues  = dict()   # name -> list of bulks (FIFO)
        self.subs    = dict()   # channel -> list of [sub_id, topic, cb, owner]
        self.fifos   = dict()   # (channel, pub_id, sub_id) -> [msg]
        self.pub_log = list()   # (channel, pub_id, msg)
        self.q_log   = list()   # (qname, things)
        self.reg     = Registry()
        self.auto    = True     # deliver pubsub messages synchronously
        self._ids    = 0

    def activate(self):
        global _current
        _current = self
        return self

    def next_id(self, prefix):
        self._ids += 1
        return '%s.%d' % (prefix, self._ids)

    # queues -------------------------------------------------------------------
    def q_put(self, qname, things):
        things = seams.wire(things)
        self.queues.setdefault(qname, list()).append(things)
        self.q_log.append((qname, things))

    def q_get(self, qname):
        q = self.queues.get(qname)
        if q:
            return q.pop(0)
        return []

    # pubsub -------------------------------------------------------------------
    def publish(self, channel, pub_id, topic, msg):
        if isinstance(msg, ru.TypedDict):
            msg = msg.as_dict()
        msg = seams.wire(msg)
        self.pub_log.append((channel, pub_id, msg))
        for sub in list(self.subs.get(channel, [])):
            sub_id, stopic, cb, owner = sub
            if stopic and not str(topic).startswith(str(stopic)):
                continue
            if self.auto:
                cb(topic, seams.wire(msg))
            else:
                self.fifos.setdefault((channel, pub_id, sub_id),
                                      list()).append((topic, msg))

    def pending(self):
        return [k for k, v in sorted(self.fifos.items()) if v]

    def deliver(self, key):
        topic, msg = self.fifos[key].pop(0)
        channel, pub_id, sub_id = key
        for sid, stopic, cb, owner in self.subs.get(channel, []):
            if sid == sub_id:
                cb(topic, seams.wire(msg))
                return
        raise KeyError(key)


def current():
    assert _current is not None, 'no active Net'
    return _current


# ------------------------------------------------------------------------------
#
class Registry(dict):
    '''dict with the dotted-key access of ru.zmq.RegistryClient'''

    def __init__(self, url=None, pwd=None):
        super().__init__()

    def _walk(self, key, create=False):
        elems = key.split('.')
        node  = self
        for e in elems[:-1]:
            if e not in node or not isinstance(dict.get(node, e), dict):
                if not create:
                    return None, None
                dict.__setitem__(node, e, dict())
            node = dict.get(node, e)
        return node, elems[-1]

    def get(self, key, default=None):
        node, leaf = self._walk(key)
        if node is None:
            return default
        return dict.get(node, leaf, default)

    def put(self, key, val):
        node, leaf = self._walk(key, create=True)
        dict.__setitem__(node, leaf, seams.wire(val))

    def __getitem__(self, key):
        return self.get(key)

    def __setitem__(self, key, val):
        self.put(key, val)

    def close(self):
        pass

    def dump(self, *a, **kw):
        pass

    def __deepcopy__(self, memo):
        import copy
        new = Registry()
        for k, v in dict.items(self):
            dict.__setitem__(new, k, copy.deepcopy(v, memo))
        return new


class _RegClient(object):
    '''RegistryClient(url=...) -> view on the current net's registry'''

    def __new__(cls, url=None, pwd=None):
        return current().reg


# ------------------------------------------------------------------------------
#
class Putter(object):

    def __init__(self, channel, url=None, log=None, prof=None, path=None):
        self.channel = channel
        self.name    = channel

    def put(self, msgs, qname=None):
        if not isinstance(msgs, list):
            msgs = [msgs]
        current().q_put(self.channel if not qname
                        else '%s/%s' % (self.channel, qname), msgs)


class Getter(object):

    def __init__(self, channel, url=None, cb=None, log=None, prof=None,
                       path=None):
        self.channel = channel
        self.name    = channel

    def _q(self, qname):
        return self.channel if not qname else '%s/%s' % (self.channel, qname)

    def get(self, qname=None):
        return current().q_get(self._q(qname))

    def get_nowait(self, qname=None, timeout=None):
        return current().q_get(self._q(qname))

    def stop(self):
        pass


def chan_key(channel, url):
    '''
    channel identity: the name, or `<ns>:<name>` for urls of the form
    mem://@<ns>/... (several sides with their own bridges of the same name)
    '''
    if url and '@' in str(url):
        return str(url).split('@')[1].split('/')[0] + ':' + channel
    return channel


class Publisher(object):

    def __init__(self, channel, url=None, log=None, prof=None, path=None):
        self.channel = chan_key(channel, url)
        self.pub_id  = current().next_id('pub.' + self.channel)

    def put(self, topic, msg):
        current().publish(self.channel, self.pub_id, topic, msg)


class Subscriber(object):

    def __init__(self, channel, url=None, topic=None, cb=None, log=None,
                       prof=None, path=None):
        self.channel = chan_key(channel, url)
        self.sub_ids = list()
        if cb:
            self.subscribe(topic, cb)

    def subscribe(self, topic, cb=None, lock=None):
        net = current()
        sid = net.next_id('sub.' + self.channel)
        self.sub_ids.append(sid)
        net.subs.setdefault(self.channel, list()).append(
                [sid, topic, cb, getattr(cb, '__self__', None)])

    def stop(self):
        net = current()
        net.subs[self.channel] = [s for s in net.subs.get(self.channel, [])
                                    if s[0] not in self.sub_ids]


# ------------------------------------------------------------------------------
#
def install():
    global _installed
    if _installed:
        return
    ru.zmq.Putter         = Putter
    ru.zmq.Getter         = Getter
    ru.zmq.Publisher      = Publisher
    ru.zmq.Subscriber     = Subscriber
    ru.zmq.RegistryClient = _RegClient
    _installed = True


def bridges(reg, queues=(), pubsubs=()):
    '''fill the registry with bridge addresses, as the session would'''
    b = dict.setdefault(reg, 'bridges', dict())
    for q in queues:
        b[q] = {'addr_put': 'mem://%s/put' % q, 'addr_get': 'mem://%s/get' % q}
    for p in pubsubs:
        b[p] = {'addr_pub': 'mem://%s/pub' % p, 'addr_sub': 'mem://%s/sub' % p}
