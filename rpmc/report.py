'''
Result collection: violations, known findings, replay artefacts, evidence.
'''

import os
import json
import hashlib

HERE      = os.path.dirname(os.path.dirname(os.path.abspath(__file__)))
# VERIF_OUT redirects evidence and replay files (used when the checks are run
# against a mutated scratch copy, so that the evidence of /repo is kept)
OUT       = os.environ.get('VERIF_OUT') or HERE
EVIDENCE  = os.path.join(OUT, 'evidence')
REPLAYS   = os.path.join(OUT, 'replays')
FINDINGS  = os.path.join(HERE, 'known_findings.json')


def _jsonable(x):
    try:
        json.dumps(x)
        return x
    except Exception:
        if isinstance(x, dict):
            return {str(k): _jsonable(v) for k, v in x.items()}
        if isinstance(x, (list, tuple, set, frozenset)):
            return [_jsonable(v) for v in x]
        return repr(x)


def load_findings():
    if not os.path.exists(FINDINGS):
        return {'findings': [], 'fixed': []}
    with open(FINDINGS) as fin:
        return json.load(fin)


class Context(object):
    '''
    One per check run.  Checks call

        ctx.violation(key, detail, replay)   for every failed oracle clause
        ctx.cover(**counts)                  to add to the coverage counters
        ctx.sample(x)                        to record an explored case
        ctx.outcome(x)                       to count distinct observations

    `key` is 'clause|site|trigger' (DESIGN.md appendix B); the property id is
    prepended here.
    '''

    def __init__(self, pid, tier, seed, scratch, workers):
        self.pid      = pid
        self.tier     = tier
        self.seed     = seed
        self.scratch  = scratch
        self.workers  = workers
        self.level    = 'model_checking'
        self.coverage = dict()
        self.samples  = list()
        self.outcomes = set()
        self.assumptions = list()
        self.caps     = list()
        self.notes    = list()
        self._viol    = dict()   # key -> (detail, replay)
        self._nviol   = 0

    # ----------------------------------------------------------------------
    @property
    def quick(self):
        return self.tier == 'quick'

    def violation(self, key, detail, replay=None):
        self._nviol += 1
        key = '%s|%s' % (self.pid, key)
        if key not in self._viol:
            self._viol[key] = (detail, replay)

    def cover(self, **kw):
        for k, v in kw.items():
            self.coverage[k] = self.coverage.get(k, 0) + v

    def set(self, **kw):
        self.coverage.update(kw)

    def sample(self, x, limit=3):
        if len(self.samples) < limit:
            self.samples.append(_jsonable(x))

    def outcome(self, x):
        self.outcomes.add(x if isinstance(x, (str, int, tuple)) else repr(x))

    def assume(self, *texts):
        for t in texts:
            if t not in self.assumptions:
                self.assumptions.append(t)

    def cap(self, text):
        self.caps.append(text)

    # ----------------------------------------------------------------------
    def merge(self, part):
        '''merge a partial result returned by a worker process (a dict)'''
        for k, v in part.get('cover', {}).items():
            self.coverage[k] = self.coverage.get(k, 0) + v
        for s in part.get('samples', []):
            self.sample(s)
        for o in part.get('outcomes', []):
            self.outcomes.add(o)
        for key, detail, replay in part.get('violations', []):
            self.violation(key, detail, replay)
        self._nviol += part.get('nviol_extra', 0)
        for c in part.get('caps', []):
            self.cap(c)

    # ----------------------------------------------------------------------
    def write_replay(self, key, detail, replay):
        os.makedirs(REPLAYS, exist_ok=True)
        body = {'property': self.pid, 'key': key, 'detail': _jsonable(detail),
                'replay': _jsonable(replay)}
        sha  = hashlib.sha1(key.encode()).hexdigest()[:10]
        path = os.path.join(REPLAYS, '%s-%s.json' % (self.pid, sha))
        with open(path, 'w') as fout:
            json.dump(body, fout, indent=1, sort_keys=True)
        return path

    # ----------------------------------------------------------------------
    def finish(self, wall):

        known   = load_findings()
        listed  = {f['key']: f for f in known.get('findings', [])
                               if f['key'].startswith(self.pid + '|')}
        matched = list()
        fresh   = list()

        for key, (detail, replay) in sorted(self._viol.items()):
            if key in listed:
                matched.append(key)
            else:
                fresh.append((key, detail, replay))

        for key in matched:
            print('KNOWN-FINDING: property=%s %s :: %s'
                  % (self.pid, key, listed[key].get('what', '')))

        for key, detail, replay in fresh:
            path = self.write_replay(key, detail, replay)
            print('VIOLATION property=%s replay=%s' % (self.pid, path))
            print('  key   : %s' % key)
            print('  detail: %s' % (json.dumps(_jsonable(detail))[:2000]))

        cov = dict(self.coverage)
        cov['samples']           = self.samples or ['<none>']
        cov['distinct_outcomes'] = len(self.outcomes)
        cov['caps_hit']          = self.caps
        cov.setdefault('exhaustive', not self.caps)
        if self.caps:
            cov['exhaustive'] = False
        cov['known_findings_matched'] = matched
        cov['violation_keys']         = [k for k, _, _ in fresh]
        if self.notes:
            cov['notes'] = self.notes

        # generic counters are always present so that either schema branch
        # validates; they are measured, never constants
        cov.setdefault('evaluations', cov.get('traces_validated_against_impl',
                                              cov.get('transitions', 0)))
        cov.setdefault('distinct_nontrivial', len(self.outcomes))

        ev = {'property_id': self.pid,
              'tier'       : self.tier,
              'seed'       : self.seed,
              'level'      : self.level,
              'coverage'   : cov,
              'assumptions': self.assumptions,
              'wall_s'     : round(wall, 3),
              'violations' : len(fresh)}

        os.makedirs(EVIDENCE, exist_ok=True)
        path = os.path.join(EVIDENCE, '%s.json' % self.pid)
        with open(path + '.tmp', 'w') as fout:
            json.dump(_jsonable(ev), fout, indent=1, sort_keys=True)
        os.replace(path + '.tmp', path)

        summ = {k: v for k, v in cov.items()
                if isinstance(v, (int, float, bool)) and not isinstance(v, list)}
        print('%s %s: %s  wall=%.1fs  known=%d  violations=%d'
              % (self.pid, self.tier, summ, wall, len(matched), len(fresh)))

        return 1 if fresh else 0


# ------------------------------------------------------------------------------
#
class Part(object):
    '''
    Partial result collected inside a worker process; `.dump()` is returned to
    the parent and merged with `Context.merge`.
    '''

    def __init__(self):
        self.coverage   = dict()
        self.samples    = list()
        self.outcomes   = set()
        self.violations = dict()
        self.nviol      = 0
        self.caps       = list()

    def cover(self, **kw):
        for k, v in kw.items():
            self.coverage[k] = self.coverage.get(k, 0) + v

    def sample(self, x, limit=3):
        if len(self.samples) < limit:
            self.samples.append(_jsonable(x))

    def outcome(self, x):
        self.outcomes.add(x if isinstance(x, (str, int, tuple)) else repr(x))

    def violation(self, key, detail, replay=None):
        self.nviol += 1
        if key not in self.violations:
            self.violations[key] = (_jsonable(detail), _jsonable(replay))

    def cap(self, text):
        self.caps.append(text)

    def dump(self):
        return {'cover'     : self.coverage,
                'samples'   : self.samples,
                'outcomes'  : list(self.outcomes),
                'violations': [(k, d, r) for k, (d, r)
                                         in self.violations.items()],
                'nviol_extra': self.nviol - len(self.violations),
                'caps'      : self.caps}
